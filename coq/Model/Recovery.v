(** Model of the loss-detection / PTO timer logic of quinn-proto — definitions only.
    Sources: connection/mod.rs ([set_loss_detection_timer], [pto_time_and_space],
    [loss_time_and_space], [on_loss_detection_timeout], [detect_lost_packets], [on_ack_received],
    [peer_completed_address_validation], [discard_space], the [Datagram] branch of [handle_event],
    [handle_timeout]), connection/packet_builder.rs ([finish_and_track]), connection/spaces.rs
    ([loss_probes], [loss_time], [time_of_last_ack_eliciting_packet], [has_in_flight]),
    connection/paths.rs ([anti_amplification_blocked]), connection/timer.rs.

    Times are integers (microseconds). Everything that comes out of float or RTT-estimator
    arithmetic is an ORACLE value carried by the operation: [base] = [path.rtt.pto_base()],
    [mad] = [ack_frequency.max_ack_delay_for_pto()], and the new [loss_time] computed by
    [detect_lost_packets] (constrained only by [now < loss_time]: a packet that is not yet
    "too old" has [time_sent + loss_delay > now]). Theorems quantify over all oracle values.

    Not modelled: path migration (a new [PathData] restarts the in-flight counters; C15), the
    contents of packets, RTT estimation, congestion controllers. [path.in_flight.ack_eliciting]
    is the sum of the per-space counts (C12 in_flight_is_sum, one path generation). *)
From Coq Require Import ZArith List Bool.
From QV Require Import Model.SendGate.
Import ListNotations.
Open Scope Z_scope.

(** One packet-number space. [ae] / [nae]: tracked sent packets with [size != 0] that are /
    are not ack-eliciting (a padded ACK-only packet is "in flight" for [has_in_flight] but not
    ack-eliciting). [keys] = [crypto.is_some()]; [acked] = [largest_acked_packet.is_some()]. *)
Record space := mkSpace {
  ae : Z; nae : Z;
  loss_time : option Z;
  tlae : option Z;      (* time_of_last_ack_eliciting_packet *)
  probes : Z;           (* loss_probes *)
  keys : bool;
  acked : bool
}.

Definition space0 (k : bool) : space := mkSpace 0 0 None None 0 k false.

Record state := mkState {
  sI : space; sH : space; sD : space;
  client : bool;
  zero_rtt : bool;           (* client holds usable 0-RTT keys *)
  phase : Z;                 (* 0 Handshake, 1 Established, >= 2 Closed / Draining / Drained *)
  highest : Z;               (* highest_space *)
  validated : bool; total_sent : Z; total_recvd : Z;    (* PathData *)
  pto_count : Z;
  ld : option Z;             (* Timer::LossDetection *)
  pacing : option Z;         (* Timer::Pacing *)
  in_dgram : option bool;    (* Some b while handle_event(Datagram) runs; b = was_anti_amplification_blocked *)
  stale : bool               (* ghost: set_loss_detection_timer has not run since the connection was created or
                                (unrepaired variant) since the state became Established / a Retry arrived *)
}.

Definition init (is_client path_validated : bool) : state :=
  mkState (space0 true) (space0 false) (space0 false) is_client false 0 0
          (is_client || path_validated) 0 0 0 None None None true.

Definition sp (s : state) (i : Z) : space :=
  if i =? 0 then sI s else if i =? 1 then sH s else sD s.

Definition with_sp (s : state) (i : Z) (x : space) : state :=
  mkState (if i =? 0 then x else sI s)
          (if i =? 0 then sH s else if i =? 1 then x else sH s)
          (if i =? 0 then sD s else if i =? 1 then sD s else x)
          (client s) (zero_rtt s) (phase s) (highest s) (validated s) (total_sent s) (total_recvd s)
          (pto_count s) (ld s) (pacing s) (in_dgram s) (stale s).
Definition with_ld (s : state) (t : option Z) (st : bool) : state :=
  mkState (sI s) (sH s) (sD s) (client s) (zero_rtt s) (phase s) (highest s) (validated s) (total_sent s)
          (total_recvd s) (pto_count s) t (pacing s) (in_dgram s) st.
Definition with_pacing (s : state) (t : option Z) : state :=
  mkState (sI s) (sH s) (sD s) (client s) (zero_rtt s) (phase s) (highest s) (validated s) (total_sent s)
          (total_recvd s) (pto_count s) (ld s) t (in_dgram s) (stale s).
Definition with_path (s : state) (v : bool) (ts tr : Z) : state :=
  mkState (sI s) (sH s) (sD s) (client s) (zero_rtt s) (phase s) (highest s) v ts tr
          (pto_count s) (ld s) (pacing s) (in_dgram s) (stale s).
Definition with_pto_count (s : state) (n : Z) : state :=
  mkState (sI s) (sH s) (sD s) (client s) (zero_rtt s) (phase s) (highest s) (validated s) (total_sent s)
          (total_recvd s) n (ld s) (pacing s) (in_dgram s) (stale s).
Definition with_dgram (s : state) (d : option bool) : state :=
  mkState (sI s) (sH s) (sD s) (client s) (zero_rtt s) (phase s) (highest s) (validated s) (total_sent s)
          (total_recvd s) (pto_count s) (ld s) (pacing s) d (stale s).
Definition with_conn (s : state) (z : bool) (ph hi : Z) : state :=
  mkState (sI s) (sH s) (sD s) (client s) z ph hi (validated s) (total_sent s)
          (total_recvd s) (pto_count s) (ld s) (pacing s) (in_dgram s) (stale s).

Definition is_some {A} (o : option A) : bool := match o with Some _ => true | None => false end.

Definition has_in_flight (x : space) : bool := 0 <? ae x + nae x.
Definition ae_total (s : state) : Z := ae (sI s) + ae (sH s) + ae (sD s).
Definition closed (s : state) : bool := 2 <=? phase s.
Definition handshaking (s : state) : bool := phase s =? 0.

(** [PathData::anti_amplification_blocked(bytes_to_send)] *)
Definition blocked (s : state) (n : Z) : bool :=
  negb (validated s) && (total_recvd s * 3 <? total_sent s + n).

(** [peer_completed_address_validation] *)
Definition peer_completed (s : state) : bool :=
  negb (client s) || closed s || acked (sH s) || acked (sD s) || (keys (sD s) && negb (keys (sH s))).

(** keys available for sending in space [i] ([space_can_send]'s first test) *)
Definition sendable (s : state) (i : Z) : bool :=
  keys (sp s i) || ((i =? 2) && zero_rtt s && client s).

(** [loss_time_and_space]: [min_by_key] over Initial, Handshake, Data keeps the first minimum *)
Definition pick_min (acc : option (Z * Z)) (t : option Z) (i : Z) : option (Z * Z) :=
  match t, acc with
  | None, _ => acc
  | Some x, None => Some (x, i)
  | Some x, Some (y, _) => if x <? y then Some (x, i) else acc
  end.
Definition loss_time_and_space (s : state) : option (Z * Z) :=
  pick_min (pick_min (pick_min None (loss_time (sI s)) 0) (loss_time (sH s)) 1) (loss_time (sD s)) 2.

(** Oracle values accompanying a call: the instant and the RTT-derived durations. *)
Record clock := mkClock { now : Z; base : Z; mad : Z }.

Definition backoff (maxexp : Z) (s : state) : Z := 2 ^ (Z.min (pto_count s) maxexp).

Definition pto_pick (acc : option (Z * Z)) (p i : Z) : option (Z * Z) :=
  match acc with
  | Some (e, _) => if p <? e then Some (p, i) else acc
  | None => Some (p, i)
  end.

(** [pto_time_and_space]. The early [return result] for Data while handshaking is the last
    iteration of the loop, hence the same as skipping the space. *)
Definition pto_time_and_space (maxexp : Z) (c : clock) (s : state) : option (Z * Z) :=
  let b := backoff maxexp s in
  let dur := base c * b in
  if ae_total s =? 0 then Some (now c + dur, if highest s =? 1 then 1 else 0)
  else
    let r0 := if has_in_flight (sI s)
              then match tlae (sI s) with Some t => pto_pick None (t + dur) 0 | None => None end
              else None in
    let r1 := if has_in_flight (sH s)
              then match tlae (sH s) with Some t => pto_pick r0 (t + dur) 1 | None => r0 end
              else r0 in
    if has_in_flight (sD s) then
      if handshaking s then r1
      else match tlae (sD s) with Some t => pto_pick r1 (t + (dur + mad c * b)) 2 | None => r1 end
    else r1.

(** The exact condition under which [set_loss_detection_timer] arms the timer (given the path is
    not anti-amplification blocked and the connection is open). *)
Definition pto_eligible (s : state) : bool :=
  (has_in_flight (sI s) && is_some (tlae (sI s)))
  || (has_in_flight (sH s) && is_some (tlae (sH s)))
  || (has_in_flight (sD s) && negb (handshaking s) && is_some (tlae (sD s))).
Definition needs_b (s : state) : bool :=
  is_some (loss_time_and_space s)
  || (if ae_total s =? 0 then negb (peer_completed s) else pto_eligible s).

(** Readable form: a loss time is pending; or ack-eliciting packets are in flight in the Initial or
    Handshake space, or in the Data space once the handshake is complete; or nothing is in flight
    and the client has no proof yet that the server validated its address. *)
Definition needs (s : state) : Prop :=
  loss_time (sI s) <> None \/ loss_time (sH s) <> None \/ loss_time (sD s) <> None
  \/ 0 < ae (sI s) \/ 0 < ae (sH s) \/ (0 < ae (sD s) /\ phase s <> 0)
  \/ (ae_total s = 0 /\ peer_completed s = false).

(** Well-formedness of the bookkeeping (an invariant of [step], proved in Proofs/RecoveryWf.v). *)
Definition wf_space (x : space) : Prop :=
  0 <= ae x /\ 0 <= nae x /\ 0 <= probes x /\ (0 < ae x -> is_some (tlae x) = true).
Definition wf (s : state) : Prop :=
  wf_space (sI s) /\ wf_space (sH s) /\ wf_space (sD s)
  /\ (has_in_flight (sI s) = true -> keys (sI s) = true)
  /\ (has_in_flight (sH s) = true -> keys (sH s) = true)
  /\ (has_in_flight (sD s) = true -> sendable s 2 = true)
  /\ (highest s = 0 \/ highest s = 1 \/ highest s = 2)
  /\ (highest s = 0 -> keys (sI s) = true /\ keys (sH s) = false /\ keys (sD s) = false)
  /\ (highest s = 1 -> keys (sH s) = true /\ keys (sD s) = false).

(** The timer invariant. [stale] can only be set by the unrepaired variant ([fixd = false]). *)
Definition Inv (s : state) : Prop :=
  closed s = false -> in_dgram s <> Some true -> blocked s 1 = false -> needs_b s = true ->
  is_some (ld s) = true \/ stale s = true.
Definition Inv2 (s : state) : Prop := in_dgram s = Some false -> blocked s 1 = false.

Section Step.
  (** [MAX_BACKOFF_EXPONENT]; [fixd] selects the repaired handshake completion (re-arm after
      [state = Established]); the unchanged tree is [fixd = false]. *)
  Variable maxexp : Z.
  Variable fixd : bool.

  Definition set_ld_timer (c : clock) (s : state) : state :=
    if closed s then s
    else match loss_time_and_space s with
         | Some (t, _) => with_ld s (Some t) false
         | None =>
             if blocked s 1 then with_ld s None false
             else if (ae_total s =? 0) && peer_completed s then with_ld s None false
             else match pto_time_and_space maxexp c s with
                  | Some (t, _) => with_ld s (Some t) false
                  | None => with_ld s None false
                  end
         end.

  (** [discard_space]: keys, in-flight packets, [loss_time] and
      [time_of_last_ack_eliciting_packet] go; [loss_probes] and [largest_acked_packet] stay. *)
  Definition discard (c : clock) (s : state) (i : Z) : state :=
    let x := sp s i in
    set_ld_timer c (with_sp s i (mkSpace 0 0 None None (probes x) false (acked x))).

  Definition future (c : clock) (lt : option Z) : bool :=
    match lt with Some t => now c <? t | None => true end.

  (** removal of packets from a space by ack / loss, with the oracle's new [loss_time] *)
  Definition remove (x : space) (d_ae d_nae : Z) (lt : option Z) (ack : bool) : space :=
    mkSpace (ae x - d_ae) (nae x - d_nae) lt (tlae x) (probes x) (keys x) (acked x || ack).

  Definition counts_ok (x : space) (a b : Z) : bool :=
    (0 <=? a) && (0 <=? b) && (a <=? ae x) && (b <=? nae x).

  Inductive op :=
  | OSent (c : clock) (i : Z) (ack_eliciting padded : bool)   (* PacketBuilder::finish_and_track *)
  | OTxDone (bytes : Z)                                       (* end of poll_transmit: total_sent += *)
  | OGate (c : clock) (i : Z) (can_send ack_eliciting close_flag : bool)
          (in_flight bytes window : Z) (delay : option Z)     (* one gate evaluation of poll_transmit *)
  | ODgramBegin                                               (* handle_event(Datagram) entry *)
  | ORecvd (bytes : Z)                                        (* total_recvd += (same remote) *)
  | ODgramEnd (c : clock)                                     (* the was_anti_amplification_blocked branch *)
  | OAck (c : clock) (i : Z) (acked_ae acked_nae lost_ae lost_nae : Z) (lt : option Z)  (* on_ack_received *)
  | OKeys (i : Z)                                             (* upgrade_crypto *)
  | OZeroRtt                                                  (* client: init_0rtt *)
  | ODiscard (c : clock) (i : Z)                              (* discard_space from packet processing *)
  | ORetry (c : clock)                                        (* client: Retry packet *)
  | OValidated                                                (* path.validated = true *)
  | OEstablished (c : clock) (rejected : bool)                (* handshake completes; client: 0-RTT rejected *)
  | OClose                                                    (* close_common + closed state *)
  | OTimeout (c : clock) (lost_ae lost_nae : Z) (lt : option Z).  (* handle_timeout *)

  Definition in_range (i : Z) : bool := (0 <=? i) && (i <=? 2).

  Definition do_sent (c : clock) (s : state) (i : Z) (el padded : bool) : state :=
    (* "A client stops both sending and processing Initial packets when it sends its first
       Handshake packet." *)
    let s := if client s && (i =? 1) && keys (sI s) then discard c s 0 else s in
    let x := sp s i in
    if el then
      set_ld_timer c (with_sp s i (mkSpace (ae x + 1) (nae x) (loss_time x) (Some (now c)) (probes x) (keys x) (acked x)))
    else if padded then
      set_ld_timer c (with_sp s i (mkSpace (ae x) (nae x + 1) (loss_time x) (tlae x) (probes x) (keys x) (acked x)))
    else s.

  Definition do_gate (c : clock) (s : state) (i : Z) (can_send el close_flag : bool)
             (in_flight bytes window : Z) (delay : option Z) : state :=
    let x := sp s i in
    let g := mkGate can_send close_flag el (probes x) (blocked s 1) in_flight bytes window delay in
    let s := with_pacing s (pacing_after g (pacing s)) in
    with_sp s i (mkSpace (ae x) (nae x) (loss_time x) (tlae x) (probes_after g) (keys x) (acked x)).

  Definition do_ack (c : clock) (s : state) (i : Z) (a_ae a_nae l_ae l_nae : Z) (lt : option Z) : state :=
    let x := sp s i in
    let s := with_sp s i (remove x (a_ae + l_ae) (a_nae + l_nae) lt true) in
    let s := if peer_completed s then with_pto_count s 0 else s in
    set_ld_timer c s.

  Definition do_established (c : clock) (s : state) (rejected : bool) : state :=
    (* client whose early data was rejected: "Discard 0-RTT packets" (no timer update);
       server: pending.handshake_done = true; discard_space(Handshake) — BEFORE the state changes *)
    let s := if client s then
               if rejected && zero_rtt s then
                 let x := sD s in
                 with_conn (with_sp s 2 (mkSpace 0 0 (loss_time x) (tlae x) (probes x) (keys x) (acked x)))
                           false (phase s) (highest s)
               else s
             else discard c s 1 in
    let s := with_conn s (zero_rtt s) 1 (highest s) in
    if fixd then set_ld_timer c s else with_ld s (ld s) true.

  (** Retry: packet 0 acknowledged, [discard_space(Initial)], a fresh Initial space with new keys,
      then "Retransmit all 0-RTT data" forgets the Data-space packets. *)
  Definition do_retry (c : clock) (s : state) : state :=
    let s := with_sp (discard c s 0) 0 (space0 true) in
    let x := sD s in
    let s := with_sp s 2 (mkSpace 0 0 (loss_time x) (tlae x) (probes x) (keys x) (acked x)) in
    if fixd then set_ld_timer c s else with_ld s (ld s) true.

  Definition expired (t : option Z) (n : Z) : bool :=
    match t with Some d => d <=? n | None => false end.

  (** [on_loss_detection_timeout] *)
  Definition on_ld_timeout (c : clock) (s : state) (l_ae l_nae : Z) (lt : option Z) : state :=
    match loss_time_and_space s with
    | Some (_, i) =>
        let x := sp s i in
        set_ld_timer c (with_sp s i (remove x l_ae l_nae lt false))
    | None =>
        match pto_time_and_space maxexp c s with
        | None => s    (* "PTO expired while unset" *)
        | Some (_, i) =>
            let x := sp s i in
            let n := if ae_total s =? 0 then 1 else 2 in
            let s := with_sp s i (mkSpace (ae x) (nae x) (loss_time x) (tlae x) (probes x + n) (keys x) (acked x)) in
            set_ld_timer c (with_pto_count s (pto_count s + 1))
        end
    end.

  Definition do_timeout (c : clock) (s : state) (l_ae l_nae : Z) (lt : option Z) : state :=
    let s := if expired (ld s) (now c)
             then on_ld_timeout c (with_ld s None (stale s)) l_ae l_nae lt
             else s in
    if expired (pacing s) (now c) then with_pacing s None else s.

  Definition timeout_ok (c : clock) (s : state) (l_ae l_nae : Z) (lt : option Z) : bool :=
    match loss_time_and_space s with
    | Some (_, i) => counts_ok (sp s i) l_ae l_nae && future c lt
    | None => true
    end.

  (** An operation whose guard does not hold is not a step of the real code: it is ignored. *)
  Definition step (s : state) (o : op) : state :=
    match o with
    | OSent c i el padded =>
        if in_range i && sendable s i && negb (is_some (in_dgram s)) then do_sent c s i el padded else s
    | OTxDone bytes =>
        if (0 <=? bytes) && negb (is_some (in_dgram s))
        then with_path s (validated s) (total_sent s + bytes) (total_recvd s) else s
    | OGate c i can_send el close_flag in_flight bytes window delay =>
        if in_range i && negb (is_some (in_dgram s))
        then do_gate c s i can_send el close_flag in_flight bytes window delay else s
    | ODgramBegin =>
        if is_some (in_dgram s) then s else with_dgram s (Some (blocked s 1))
    | ORecvd bytes =>
        if (0 <=? bytes) && is_some (in_dgram s)
        then with_path s (validated s) (total_sent s) (total_recvd s + bytes) else s
    | ODgramEnd c =>
        match in_dgram s with
        | Some true => set_ld_timer c (with_dgram s None)
        | Some false => with_dgram s None
        | None => s
        end
    | OAck c i a_ae a_nae l_ae l_nae lt =>
        if in_range i && is_some (in_dgram s) && sendable s i
           && counts_ok (sp s i) (a_ae + l_ae) (a_nae + l_nae)
           && (0 <=? a_ae) && (0 <=? a_nae) && (0 <=? l_ae) && (0 <=? l_nae) && future c lt
        then do_ack c s i a_ae a_nae l_ae l_nae lt else s
    | OKeys i =>
        if ((i =? 1) && (highest s =? 0) && negb (keys (sD s))) || ((i =? 2) && (highest s =? 1))
        then with_conn (with_sp s i (mkSpace (ae (sp s i)) (nae (sp s i)) (loss_time (sp s i)) (tlae (sp s i))
                                             (probes (sp s i)) true (acked (sp s i))))
                       (zero_rtt s) (phase s) i
        else s
    | OZeroRtt =>
        if client s && (highest s =? 0) then with_conn s true (phase s) (highest s) else s
    | ODiscard c i =>
        if is_some (in_dgram s) && keys (sp s i)
           && (((i =? 0) && negb (client s) && keys (sH s)) || ((i =? 1) && keys (sD s)))
        then discard c s i else s
    | ORetry c =>
        if client s && (highest s =? 0) && is_some (in_dgram s) && keys (sI s)
        then do_retry c s else s
    | OValidated =>
        if is_some (in_dgram s) then with_path s true (total_sent s) (total_recvd s) else s
    | OEstablished c rej =>
        if (phase s =? 0) && is_some (in_dgram s) && keys (sD s) then do_established c s rej else s
    | OClose =>
        with_pacing (with_ld (with_conn s (zero_rtt s) 2 (highest s)) None (stale s)) None
    | OTimeout c l_ae l_nae lt =>
        if negb (is_some (in_dgram s)) && timeout_ok c s l_ae l_nae lt
        then do_timeout c s l_ae l_nae lt else s
    end.

  Definition run (s : state) (l : list op) : state := fold_left step l s.
End Step.
