(** Model of the control-message layer of quinn-udp (Linux back end) — definitions only.

    - layout arithmetic of quinn-udp/src/cmsg/{mod.rs,unix.rs}: [CMSG_SPACE], [CMSG_LEN] for a
      [layout] (header size, alignment, payload sizes, control buffer length [cmsg::LEN]); the
      concrete layout [gen_layout] is read from the compiled crate (gen/Constants.v);
    - [prepare_msg] of quinn-udp/src/unix.rs: which control messages a [Transmit] is given;
    - the receive side: which control messages the kernel attaches for a socket configured by
      [UdpSocketState::new] ([recv_sizes]) and [ControlMetadata::decode] / [decode_recv].
    Multi-byte integers are little-endian (UDP_LITTLE_ENDIAN = 1 is a side condition in Props). *)
From Coq Require Import ZArith List Bool.
From QV Require Import Lib.Bytes Lib.Corr gen.Constants Model.UdpModel.
Import ListNotations.
Open Scope Z_scope.

(** * Layout *)
Record layout := {
  l_hdr : Z;        (* size_of::<cmsghdr>() *)
  l_align : Z;      (* CMSG_ALIGN granularity *)
  l_buf : Z;        (* cmsg::LEN: the control buffer of send and recv *)
  l_u8 : Z; l_u16 : Z; l_int : Z; l_tos : Z;   (* payload sizes; l_tos = size_of::<IpTosTy>() *)
  l_pktinfo4 : Z; l_pktinfo6 : Z; l_timespec : Z
}.

Definition cmsg_align (L : layout) (n : Z) : Z := (n + l_align L - 1) / l_align L * l_align L.
Definition cmsg_len (L : layout) (n : Z) : Z := cmsg_align L (l_hdr L) + n.
Definition cmsg_space (L : layout) (n : Z) : Z := cmsg_align L (l_hdr L) + cmsg_align L n.
Definition total_space (L : layout) (sizes : list Z) : Z :=
  fold_right (fun n acc => cmsg_space L n + acc) 0 sizes.

Definition gen_layout : layout := {|
  l_hdr := UDP_CMSGHDR_SIZE; l_align := UDP_CMSG_ALIGN; l_buf := UDP_CMSG_LEN;
  l_u8 := UDP_SZ_U8; l_u16 := UDP_SZ_U16; l_int := UDP_SZ_C_INT; l_tos := UDP_SZ_IP_TOS_TY;
  l_pktinfo4 := UDP_SZ_IN_PKTINFO; l_pktinfo6 := UDP_SZ_IN6_PKTINFO; l_timespec := UDP_SZ_TIMESPEC |}.

(** The layout the repository had when this model was written (64-bit Linux, [LEN = 96]). *)
Definition layout_96 : layout := {|
  l_hdr := 16; l_align := 8; l_buf := 96; l_u8 := 1; l_u16 := 2; l_int := 4; l_tos := 4;
  l_pktinfo4 := 12; l_pktinfo6 := 20; l_timespec := 16 |}.

(** * Send side: the option space of [prepare_msg] *)
Inductive dstk := DV4 | DV6 | DMapped.
Inductive srck := SNone | SV4 | SV6.
Inductive ecnk := ENone | Ect1 | Ect0 | Ce.
Record sendopt := {
  o_dst : dstk; o_ecn : ecnk; o_seg : bool;   (* effective segment size is [Some] *)
  o_src : srck; o_einval : bool; o_encsrc : bool }.

Definition is_ipv4 (d : dstk) : bool := match d with DV6 => false | _ => true end.

(** Payload sizes pushed by [prepare_msg], in order (Linux cfg: IP_TOS unless [sendmsg_einval],
    IPV6_TCLASS, UDP_SEGMENT as u16, IP_PKTINFO / IPV6_PKTINFO; [encode_src_ip] only matters on
    the BSDs and is part of the option space to show it cannot add anything here). *)
Definition send_sizes (L : layout) (o : sendopt) : list Z :=
  (if is_ipv4 (o_dst o) then (if o_einval o then [] else [l_tos L]) else [l_int L])
  ++ (if o_seg o then [l_u16 L] else [])
  ++ match o_src o with SNone => [] | SV4 => [l_pktinfo4 L] | SV6 => [l_pktinfo6 L] end.

Definition all_dst := [DV4; DV6; DMapped].
Definition all_src := [SNone; SV4; SV6].
Definition all_ecn := [ENone; Ect1; Ect0; Ce].
Definition all_bool := [false; true].
Definition all_sendopts : list sendopt :=
  flat_map (fun d => flat_map (fun e => flat_map (fun g => flat_map (fun s =>
  flat_map (fun i => map (fun c =>
    {| o_dst := d; o_ecn := e; o_seg := g; o_src := s; o_einval := i; o_encsrc := c |})
  all_bool) all_bool) all_src) all_bool) all_ecn) all_dst.

Definition send_fits (L : layout) (o : sendopt) : bool :=
  total_space L (send_sizes L o) <=? l_buf L.
Definition send_fits_all (L : layout) : bool := forallb (send_fits L) all_sendopts.

(** * Receive side: what the kernel attaches *)
Record recvopt := {
  r_sock6 : bool;   (* AF_INET6 socket: IPV6_PKTINFO, else IP_PKTINFO *)
  r_pkt4 : bool;    (* IPv4 packet: IP_TOS (1 byte), else IPV6_TCLASS (int) *)
  r_gro : bool;     (* coalesced message: UDP_GRO *)
  r_ts : bool }.    (* SO_TIMESTAMPNS accepted: SCM_TIMESTAMPNS *)

(** Kernel order (udp_recvmsg / udpv6_recvmsg): timestamp, UDP_GRO, pktinfo, TOS/TCLASS last. *)
Definition recv_sizes (L : layout) (r : recvopt) : list Z :=
  (if r_ts r then [l_timespec L] else [])
  ++ (if r_gro r then [l_int L] else [])
  ++ [if r_sock6 r then l_pktinfo6 L else l_pktinfo4 L]
  ++ [if r_pkt4 r then l_u8 L else l_int L].

Definition all_recvopts : list recvopt :=
  flat_map (fun a => flat_map (fun b => flat_map (fun c => map (fun d =>
    {| r_sock6 := a; r_pkt4 := b; r_gro := c; r_ts := d |}) all_bool) all_bool) all_bool) all_bool.
Definition recv_fits (L : layout) (r : recvopt) : bool :=
  total_space L (recv_sizes L r) <=? l_buf L.
Definition recv_fits_all (L : layout) : bool := forallb (recv_fits L) all_recvopts.

(** * Control messages with contents *)
Record cmsg := { c_level : Z; c_type : Z; c_data : list Z }.

Definition le_bytes (n : nat) (x : Z) : list Z := rev (be_bytes n x).
Definition le_val (bs : list Z) : Z := be_val (rev bs) 0.
(** two's complement reading of an [n]-byte little-endian field *)
Definition le_signed (bs : list Z) : Z :=
  let u := le_val bs in
  let w := 256 ^ zlen bs in
  if u <? w / 2 then u else u - w.

Definition ecn_bits (e : ecnk) : Z :=
  match e with ENone => 0 | Ect1 => 1 | Ect0 => 2 | Ce => 3 end.
Definition ecn_of_bits (x : Z) : ecnk :=
  let b := x mod 4 in if b =? 1 then Ect1 else if b =? 2 then Ect0 else if b =? 3 then Ce else ENone.

(** [prepare_msg] with values: [ecn] codepoint bits, [seg] the effective segment size,
    [src] the explicit source address bytes (4 or 16 of them). *)
Definition prepare_cmsgs (L : layout) (dst : dstk) (ecn : Z) (seg : option Z) (src : option (list Z))
           (einval : bool) : list cmsg :=
  (if is_ipv4 dst
   then (if einval then []
         else [{| c_level := UDP_IPPROTO_IP; c_type := UDP_IP_TOS;
                  c_data := le_bytes (Z.to_nat (l_tos L)) ecn |}])
   else [{| c_level := UDP_IPPROTO_IPV6; c_type := UDP_IPV6_TCLASS;
            c_data := le_bytes (Z.to_nat (l_int L)) ecn |}])
  ++ match seg with
     | Some s => [{| c_level := UDP_SOL_UDP; c_type := UDP_UDP_SEGMENT;
                     c_data := le_bytes (Z.to_nat (l_u16 L)) s |}]   (* [segment_size as u16] *)
     | None => []
     end
  ++ match src with
     | None => []
     | Some a =>
         if Nat.eqb (length a) 4
         then [{| c_level := UDP_IPPROTO_IP; c_type := UDP_IP_PKTINFO;
                  c_data := le_bytes 4 0 ++ a ++ [0; 0; 0; 0] |}]
         else [{| c_level := UDP_IPPROTO_IPV6; c_type := UDP_IPV6_PKTINFO;
                  c_data := a ++ le_bytes 4 0 |}]
     end.

Definition cmsgs_space (L : layout) (cs : list cmsg) : Z :=
  total_space L (map (fun c => zlen (c_data c)) cs).

(** * Receive: [ControlMetadata::decode] and [decode_recv] *)
Inductive ipaddr := IpV4 (a : list Z) | IpV6 (a : list Z).
Record meta := {
  m_ecn_bits : Z; m_dst : option ipaddr; m_ifx : option Z; m_stride : Z; m_ts : option (Z * Z) }.

Definition init_meta (len : Z) : meta :=
  {| m_ecn_bits := 0; m_dst := None; m_ifx := None; m_stride := len; m_ts := None |}.

(** [cmsg::decode::<T>] debug-asserts that the message carries exactly a [T]: [None] = panic. *)
Definition expect_size (n : Z) (c : cmsg) : bool := zlen (c_data c) =? n.

Inductive rkind := KTos | KTclass | KPkt4 | KPkt6 | KGro | KTs | KOther.

(** The [(level, type)] dispatch of [ControlMetadata::decode] (Linux cfg). *)
Definition kind_of (lv ty : Z) : rkind :=
  if (lv =? UDP_IPPROTO_IP) && ((ty =? UDP_IP_TOS) || (ty =? UDP_IP_RECVTOS)) then KTos
  else if (lv =? UDP_IPPROTO_IPV6) && (ty =? UDP_IPV6_TCLASS) then KTclass
  else if (lv =? UDP_IPPROTO_IP) && (ty =? UDP_IP_PKTINFO) then KPkt4
  else if (lv =? UDP_IPPROTO_IPV6) && (ty =? UDP_IPV6_PKTINFO) then KPkt6
  else if (lv =? UDP_SOL_UDP) && (ty =? UDP_UDP_GRO) then KGro
  else if (lv =? UDP_SOL_SOCKET) && (ty =? UDP_SCM_TIMESTAMPNS) then KTs
  else KOther.

Definition set_ecn (m : meta) (v : Z) : meta :=
  {| m_ecn_bits := v; m_dst := m_dst m; m_ifx := m_ifx m; m_stride := m_stride m; m_ts := m_ts m |}.
Definition set_dst (m : meta) (a : ipaddr) (ifx : Z) : meta :=
  {| m_ecn_bits := m_ecn_bits m; m_dst := Some a; m_ifx := Some ifx; m_stride := m_stride m; m_ts := m_ts m |}.
Definition set_stride (m : meta) (v : Z) : meta :=
  {| m_ecn_bits := m_ecn_bits m; m_dst := m_dst m; m_ifx := m_ifx m; m_stride := v; m_ts := m_ts m |}.
Definition set_ts (m : meta) (s n : Z) : meta :=
  {| m_ecn_bits := m_ecn_bits m; m_dst := m_dst m; m_ifx := m_ifx m; m_stride := m_stride m; m_ts := Some (s, n) |}.

Definition decode_one (L : layout) (m : meta) (c : cmsg) : option meta :=
  let d := c_data c in
  match kind_of (c_level c) (c_type c) with
  | KTos => if expect_size (l_u8 L) c then Some (set_ecn m (nth 0 d 0)) else None
  | KTclass => if expect_size (l_int L) c then Some (set_ecn m (le_val d mod 256)) else None   (* [c_int as u8] *)
  | KPkt4 =>
      if expect_size (l_pktinfo4 L) c
      then Some (set_dst m (IpV4 (firstn 4 (skipn 8 d))) (le_val (firstn 4 d)))
      else None
  | KPkt6 =>
      if expect_size (l_pktinfo6 L) c
      then Some (set_dst m (IpV6 (firstn 16 d)) (le_val (firstn 4 (skipn 16 d))))
      else None
  | KGro =>
      if expect_size (l_int L) c
      then (* [c_int as usize]: sign extension *)
           let v := le_signed d in Some (set_stride m (if v <? 0 then v + 2 ^ 64 else v))
      else None
  | KTs =>
      if expect_size (l_timespec L) c
      then let sec := le_signed (firstn 8 d) in
           let nsec := le_signed (skipn 8 d) in
           let secs := if sec <? 0 then 0 else sec in                       (* u64::try_from().unwrap_or(0) *)
           let ns := if (0 <=? nsec) && (nsec <? 2 ^ 32) then nsec else 0 in (* u32::try_from().unwrap_or(0) *)
           (* Duration::new carries whole seconds out of the nanoseconds *)
           Some (set_ts m (secs + ns / 10 ^ 9) (ns mod 10 ^ 9))
      else None
  | KOther => Some m
  end.

Fixpoint decode_all (L : layout) (m : meta) (cs : list cmsg) : option meta :=
  match cs with
  | [] => Some m
  | c :: r => match decode_one L m c with Some m' => decode_all L m' r | None => None end
  end.

(** What the kernel attaches for a received message, with values (kernel order). *)
Definition kernel_cmsgs (L : layout) (ts : option (Z * Z)) (gro : option Z)
           (dst : ipaddr) (ifx : Z) (pkt4 : bool) (tos : Z) : list cmsg :=
  match ts with
  | Some (s, n) => [{| c_level := UDP_SOL_SOCKET; c_type := UDP_SCM_TIMESTAMPNS;
                       c_data := le_bytes 8 s ++ le_bytes 8 n |}]
  | None => []
  end
  ++ match gro with
     | Some g => [{| c_level := UDP_SOL_UDP; c_type := UDP_UDP_GRO; c_data := le_bytes 4 g |}]
     | None => []
     end
  ++ [match dst with
      | IpV4 a => {| c_level := UDP_IPPROTO_IP; c_type := UDP_IP_PKTINFO;
                     c_data := le_bytes 4 ifx ++ a ++ a |}
      | IpV6 a => {| c_level := UDP_IPPROTO_IPV6; c_type := UDP_IPV6_PKTINFO;
                     c_data := a ++ le_bytes 4 ifx |}
      end]
  ++ [if pkt4
      then {| c_level := UDP_IPPROTO_IP; c_type := UDP_IP_TOS; c_data := [tos] |}
      else {| c_level := UDP_IPPROTO_IPV6; c_type := UDP_IPV6_TCLASS; c_data := le_bytes 4 tos |}].

(** ------------------------------------------------------------------------------------- *)
(** * Integer interface (component [udp_cmsg], hook quinn-udp/src/verif_hooks.rs) *)

Definition dst_of (x : Z) : dstk := if x =? 0 then DV4 else if x =? 1 then DV6 else DMapped.

Definition cmsg_line (L : layout) (c : cmsg) : list Z :=
  [c_level c; c_type c; cmsg_len L (zlen (c_data c))] ++ c_data c.

(** op 0: [prepare_msg]; [None] = [Encoder::push] ran out of buffer (its assertion panics) *)
Definition step_prepare (L : layout) (a : list Z) : option (list Z) :=
  match a with
  | dst :: ecn :: clen :: seg :: einval :: _enc :: srck :: src =>
      let d := dst_of dst in
      let eff := effective_segment_size (if 0 <? seg then Some (Z.to_nat seg) else None) (Z.to_nat clen) in
      let srco := if srck =? 4 then Some (firstn 4 src) else if srck =? 6 then Some (firstn 16 src) else None in
      let cs := prepare_cmsgs L d (ecn mod 4) (option_map Z.of_nat eff) srco (negb (einval =? 0)) in
      let cl := cmsgs_space L cs in
      if l_buf L <? cl then None else
      Some ([cl; (if cl =? 0 then 1 else 0);
             (if is_ipv4 d && negb (dst =? 2) then UDP_SOCKADDR_IN_SIZE else UDP_SOCKADDR_IN6_SIZE);
             1; clen; zlen (map c_level cs)] ++ flat_map (cmsg_line L) cs)
  | _ => Some [-1]
  end.

(** op 1: items -> control messages as the hook encodes them *)
Fixpoint items_cmsgs (fuel : nat) (L : layout) (it : list Z) : list cmsg :=
  match fuel with
  | O => []
  | S f =>
      match it with
      | 1 :: v :: r => {| c_level := UDP_IPPROTO_IP; c_type := UDP_IP_TOS; c_data := [v mod 256] |}
                       :: items_cmsgs f L r
      | 2 :: v :: r => {| c_level := UDP_IPPROTO_IP; c_type := UDP_IP_RECVTOS; c_data := [v mod 256] |}
                       :: items_cmsgs f L r
      | 3 :: v :: r => {| c_level := UDP_IPPROTO_IPV6; c_type := UDP_IPV6_TCLASS; c_data := le_bytes 4 v |}
                       :: items_cmsgs f L r
      | 4 :: ifx :: r => {| c_level := UDP_IPPROTO_IP; c_type := UDP_IP_PKTINFO;
                            c_data := le_bytes 4 ifx ++ firstn 8 r |} :: items_cmsgs f L (skipn 8 r)
      | 5 :: r => {| c_level := UDP_IPPROTO_IPV6; c_type := UDP_IPV6_PKTINFO;
                     c_data := firstn 16 r ++ le_bytes 4 (nth 16 r 0) |} :: items_cmsgs f L (skipn 17 r)
      | 6 :: v :: r => {| c_level := UDP_SOL_UDP; c_type := UDP_UDP_GRO; c_data := le_bytes 4 v |}
                       :: items_cmsgs f L r
      | 7 :: s :: n :: r => {| c_level := UDP_SOL_SOCKET; c_type := UDP_SCM_TIMESTAMPNS;
                               c_data := le_bytes 8 s ++ le_bytes 8 n |} :: items_cmsgs f L r
      | 8 :: lv :: ty :: v :: r => {| c_level := lv; c_type := ty; c_data := le_bytes 4 v |}
                                   :: items_cmsgs f L r
      | _ => []
      end
  end.

Definition ip_line (o : option ipaddr) : list Z :=
  match o with None => [0] | Some (IpV4 a) => 4 :: a | Some (IpV6 a) => 6 :: a end.

(** [None] = panic ([Encoder::push] out of buffer, or a [decode] size assertion). *)
Definition step_decode (L : layout) (a : list Z) : option (list Z) :=
  match a with
  | len :: fam :: r =>
      let '(addr, items) :=
        if fam =? 4 then (Some (4 :: firstn 4 r ++ [nth 4 r 0; 0; 0]), skipn 5 r)
        else if fam =? 6 then (Some (6 :: firstn 16 r ++ [nth 16 r 0; nth 17 r 0; nth 18 r 0]), skipn 19 r)
        else (None, r) in
      let cs := items_cmsgs (length items) L items in
      if l_buf L <? cmsgs_space L cs then None
      else match decode_all L (init_meta len) cs with
           | None => None
           | Some m =>
               match addr with
               | None => Some [1]
               | Some al =>
                   Some ([0; len; m_stride m; ecn_bits (ecn_of_bits (m_ecn_bits m))] ++ al
                         ++ ip_line (m_dst m)
                         ++ [match m_ifx m with Some i => i | None => -1 end]
                         ++ match m_ts m with Some (s, n) => [1; s; n] | None => [0; 0; 0] end)
               end
           end
  | _ => Some [-1]
  end.

Definition step (L : layout) (op : list Z) : option (list Z) :=
  match op with
  | 0 :: a => step_prepare L a
  | 1 :: a => step_decode L a
  | [2; clen; seg] =>
      Some (match effective_segment_size (if 0 <? seg then Some (Z.to_nat seg) else None) (Z.to_nat clen) with
            | None => [0]
            | Some s => [1; Z.of_nat s]
            end)
  | _ => Some [-1]
  end.

Fixpoint run_opt (L : layout) (i : ops) : option outs :=
  match i with
  | [] => Some []
  | op :: r =>
      match step L op, run_opt L r with
      | Some o, Some os => Some (o :: os)
      | _, _ => None
      end
  end.

Definition run (i : ops) : outs :=
  match run_opt gen_layout i with Some o => o | None => [PANIC] end.

(** ---- property oracle on the implementation's observations.
    op 0: the control length reported by the implementation stays within the buffer and equals
    the sum of the CMSG_SPACEs of the messages its own decoder finds; the messages say what the
    transmit asked for: ECN value under the right (level, type) for the destination family, the
    segment size as a 16-bit value, the source address in the pktinfo of its family.
    op 1: decoding returns what was encoded (ECN bits, destination address, GRO stride). *)
Fixpoint parse_items (fuel : nat) (L : layout) (n : Z) (l : list Z) : list cmsg :=
  match fuel with
  | O => []
  | S f =>
      if n <=? 0 then []
      else match l with
           | lv :: ty :: cl :: r =>
               let dl := Z.to_nat (cl - cmsg_len L 0) in
               {| c_level := lv; c_type := ty; c_data := firstn dl r |}
               :: parse_items f L (n - 1) (skipn dl r)
           | _ => []
           end
  end.

Definition find_cmsg (lv ty : Z) (cs : list cmsg) : option cmsg :=
  find (fun c => (c_level c =? lv) && (c_type c =? ty)) cs.

Definition oracle_prepare (L : layout) (a out : list Z) : bool :=
  match a, out with
  | dst :: ecn :: clen :: seg :: einval :: _enc :: srck :: src, cl :: _null :: _nl :: _iovl :: iovlen :: n :: items =>
      let cs := parse_items (length items) L n items in
      let d := dst_of dst in
      let eff := effective_segment_size (if 0 <? seg then Some (Z.to_nat seg) else None) (Z.to_nat clen) in
      (cl <=? l_buf L) && (cl =? cmsgs_space L cs) && (iovlen =? clen) && (zlen (map c_level cs) =? n)
      (* ECN *)
      && (if is_ipv4 d
          then (if einval =? 0
                then match find_cmsg UDP_IPPROTO_IP UDP_IP_TOS cs with
                     | Some c => (le_val (c_data c) =? ecn mod 4) && (zlen (c_data c) =? l_tos L)
                     | None => false end
                else match find_cmsg UDP_IPPROTO_IP UDP_IP_TOS cs with None => true | _ => false end)
               && match find_cmsg UDP_IPPROTO_IPV6 UDP_IPV6_TCLASS cs with None => true | _ => false end
          else match find_cmsg UDP_IPPROTO_IPV6 UDP_IPV6_TCLASS cs with
               | Some c => (le_val (c_data c) =? ecn mod 4) && (zlen (c_data c) =? l_int L)
               | None => false end)
      (* segment size *)
      && match eff, find_cmsg UDP_SOL_UDP UDP_UDP_SEGMENT cs with
         | None, None => true
         | Some s, Some c => (zlen (c_data c) =? l_u16 L) && (le_val (c_data c) =? Z.of_nat s mod 65536)
         | _, _ => false
         end
      (* source address *)
      && (if srck =? 4
          then match find_cmsg UDP_IPPROTO_IP UDP_IP_PKTINFO cs with
               | Some c => lz_eqb (firstn 4 (skipn 4 (c_data c))) (firstn 4 src) && (zlen (c_data c) =? l_pktinfo4 L)
               | None => false end
          else if srck =? 6
          then match find_cmsg UDP_IPPROTO_IPV6 UDP_IPV6_PKTINFO cs with
               | Some c => lz_eqb (firstn 16 (c_data c)) (firstn 16 src) && (zlen (c_data c) =? l_pktinfo6 L)
               | None => false end
          else match find_cmsg UDP_IPPROTO_IP UDP_IP_PKTINFO cs, find_cmsg UDP_IPPROTO_IPV6 UDP_IPV6_PKTINFO cs with
               | None, None => true | _, _ => false end)
  | _, _ => false
  end.

(** The last item of each kind is what a receiver must report. *)
Fixpoint last_item (k : Z) (fuel : nat) (it : list Z) (acc : option (list Z)) : option (list Z) :=
  match fuel with
  | O => acc
  | S f =>
      match it with
      | 1 :: v :: r => last_item k f r (if k =? 1 then Some [v] else acc)
      | 2 :: v :: r => last_item k f r (if k =? 1 then Some [v] else acc)
      | 3 :: v :: r => last_item k f r (if k =? 1 then Some [v] else acc)
      | 4 :: ifx :: r => last_item k f (skipn 8 r) (if k =? 4 then Some (4 :: firstn 4 (skipn 4 r)) else acc)
      | 5 :: r => last_item k f (skipn 17 r) (if k =? 4 then Some (6 :: firstn 16 r) else acc)
      | 6 :: v :: r => last_item k f r (if k =? 6 then Some [v] else acc)
      | 7 :: _ :: _ :: r => last_item k f r acc
      | 8 :: _ :: _ :: _ :: r => last_item k f r acc
      | _ => acc
      end
  end.

Definition oracle_decode (a out : list Z) : bool :=
  match a, out with
  | len :: fam :: r, 0 :: len' :: stride :: ecn :: rest =>
      let items := if fam =? 4 then skipn 5 r else skipn 19 r in
      let n := length items in
      let alen := if fam =? 4 then 8%nat else 20%nat in
      let after := skipn alen rest in
      (len' =? len)
      && match last_item 1 n items None with
         | Some [v] => ecn =? (v mod 4)
         | _ => ecn =? 0 end
      && match last_item 6 n items None with
         | Some [v] => if (0 <=? v) && (v <? 2 ^ 31) then stride =? v else true
         | _ => stride =? len end
      && match last_item 4 n items None with
         | Some d => lz_eqb (firstn (length d) after) d
         | None => lz_eqb (firstn 1 after) [0] end
  | _, _ => true
  end.

Definition oracle_step (L : layout) (op out : list Z) : bool :=
  match op with
  | 0 :: a => oracle_prepare L a out
  | 1 :: a => oracle_decode a out
  | [2; clen; seg] =>
      (* [None] exactly when the transmit is a single datagram *)
      match out with
      | [0] => (seg <=? 0) || (clen <=? seg)
      | [1; s] => (0 <? seg) && (seg <? clen) && (s =? seg)
      | _ => false
      end
  | _ => true
  end.

Fixpoint oracle_from (L : layout) (i : ops) (o : outs) : bool :=
  match i, o with
  | [], [] => true
  | a :: i', b :: o' => oracle_step L a b && oracle_from L i' o'
  | _, _ => false
  end.

(** A case that panicked has no observations: the property (never out of buffer) fails unless
    the panic is the one the case asked for — an op 1 that injects more receive-side messages
    than the buffer holds (computed from the ops: the generator does that deliberately) — and no
    [prepare_msg] of the case can be the culprit. *)
Definition oracle (i : ops) (o : outs) : bool :=
  match o with
  | [[-999]] =>
      forallb (fun op => match op with 0 :: a => match step_prepare gen_layout a with Some _ => true | None => false end
                                  | _ => true end) i
      && existsb (fun op => match op with 1 :: a => match step_decode gen_layout a with Some _ => false | None => true end
                                     | _ => false end) i
  | _ => oracle_from gen_layout i o
  end.
