(** Model of the [Frame::NewConnectionId] arm of [Connection::process_payload]
    (quinn-proto/src/connection/mod.rs) as a pure function over the remote CID queue and the
    number of queued RETIRE_CONNECTION_ID frames ([spaces[Data].pending.retire_cids.len()]).
    Definitions only.  Model-only component: the arm cannot be called without a full
    [Connection]; the constants are tied through [CID_QUEUE_LEN]
    ([MAX_PENDING_RETIRED_CIDS = CidQueue::LEN * 10] is a block-local constant of the arm).

    Outcome of a frame: the connection continues, or is closed with a transport error code. *)
From Coq Require Import ZArith List Bool.
From QV Require Import Lib.Corr gen.Constants Model.CidQueue.
Import ListNotations.
Open Scope Z_scope.

Definition PROTOCOL_VIOLATION : Z := 10.
Definition CONNECTION_ID_LIMIT_ERROR : Z := 9.

Definition max_pending (L : Z) : Z := L * 10.

Record t := mk { q : CidQueue.t; pending : Z; retired_hits : Z }.

Inductive outcome := Continue (s : t) | Close (code : Z) | Panic.

(** [cids_in_use]: [!self.rem_cids.active().is_empty()]; [is_server]: [self.side.is_server()] *)
(** [fixed = false]: the arm as found (the Retired path pushes unconditionally);
    [fixed = true]: the arm after the repair (the Retired path applies the same
    [MAX_PENDING_RETIRED_CIDS] limit as the retiring path). *)
Definition new_connection_id (fixed : bool) (L : Z) (cids_in_use is_server : bool) (s : t)
           (seq rpt id : Z) : outcome :=
  if negb cids_in_use then Close PROTOCOL_VIOLATION
  else if seq <? rpt then Close PROTOCOL_VIOLATION
  else
    match CidQueue.insert L (q s) seq rpt id with
    | None => Panic
    | Some (_, CidQueue.ErrExceedsLimit) => Close CONNECTION_ID_LIMIT_ERROR
    | Some (_, CidQueue.ErrRetired) =>
        (* [retire_cids.push(frame.sequence); continue] — before the repair no bound is applied
           on this path *)
        if fixed && (max_pending L <=? pending s) then Close CONNECTION_ID_LIMIT_ERROR
        else Continue (mk (q s) (pending s + 1) (retired_hits s + 1))
    | Some (q', r) =>
        let after_insert :=
          match r with
          | CidQueue.InsRetired lo hi _ =>
              if max_pending L <? pending s + (hi - lo) then None
              else Some (pending s + (hi - lo))
          | _ => Some (pending s)
          end in
        match after_insert with
        | None => Close CONNECTION_ID_LIMIT_ERROR
        | Some p =>
            if is_server && (CidQueue.active_seq q' =? 0) then
              (* [update_rem_cid]: switch away from the handshake CID *)
              match CidQueue.next L q' with
              | None => Panic
              | Some (q'', None) => Continue (mk q'' p (retired_hits s))
              | Some (q'', Some (_, lo, hi)) => Continue (mk q'' (p + (hi - lo)) (retired_hits s))
              end
            else Continue (mk q' p (retired_hits s))
        end
    end.

(** sending RETIRE_CONNECTION_ID frames drains the queue *)
Definition drain (s : t) (k : Z) : t :=
  mk (q s) (Z.max 0 (pending s - Z.max 0 k)) (retired_hits s).

Inductive op := Frame (seq rpt id : Z) | Drain (k : Z).

Fixpoint run (fixed : bool) (L : Z) (cids_in_use is_server : bool) (s : t) (os : list op)
  : outcome :=
  match os with
  | [] => Continue s
  | Frame seq rpt id :: r =>
      match new_connection_id fixed L cids_in_use is_server s seq rpt id with
      | Continue s' => run fixed L cids_in_use is_server s' r
      | o => o
      end
  | Drain k :: r => run fixed L cids_in_use is_server (drain s k) r
  end.

Definition init (L : Z) (id : Z) : t := mk (CidQueue.new L id) 0 0.
