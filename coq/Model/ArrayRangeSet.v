(** Model of quinn-proto/src/range_set/array_range_set.rs (ArrayRangeSet over a TinyVec of
    ranges) — definitions only.

    The vector is a [list (Z*Z)].  [partition_point(|r| r.end < x.start)] is a binary search; on a
    vector whose ends are ascending (which every method maintains — proved in
    Proofs/RangeSetProofs.v) it is the index of the first element that fails the predicate, so the
    methods are written as one structural pass that skips the prefix satisfying the predicate. *)
From Coq Require Import ZArith List Bool.
From QV Require Import Lib.Corr Lib.RangeSpec.
Import ListNotations.
Open Scope Z_scope.

Definition aset := list (Z * Z).

(** the merge loop of [insert]: [while idx != len - 1 { if curr.end >= next.start { curr.end =
    max(next.end, curr.end); remove(idx + 1) } else break }] *)
Fixpoint merge_next (cs ce : Z) (t : aset) : aset :=
  match t with
  | [] => [(cs, ce)]
  | (ns, ne) :: t' =>
      if ns <=? ce then merge_next cs (Z.max ne ce) t' else (cs, ce) :: t
  end.

Fixpoint insert_at (xs xe : Z) (l : aset) : bool * aset :=
  match l with
  | [] => (true, [(xs, xe)])                       (* idx == len: push *)
  | (rs, re) :: t =>
      if re <? xs then
        let '(b, t') := insert_at xs xe t in (b, (rs, re) :: t')
      else if xe <? rs then (true, (xs, xe) :: l)  (* insert before *)
      else
        let result := xs <? rs in
        let rs' := if result then xs else rs in
        if xe <=? re then (result, (rs', re) :: t)
        else (true, merge_next rs' xe t)
  end.

Definition insert (xs xe : Z) (l : aset) : bool * aset :=
  if xe <=? xs then (false, l) else insert_at xs xe l.

Definition insert_one (x : Z) (l : aset) : bool * aset := insert x (x + 1) l.

Fixpoint remove_at (xs xe : Z) (l : aset) : bool * aset :=
  match l with
  | [] => (false, [])
  | (rs, re) :: t =>
      if re <=? xs then
        let '(b, t') := remove_at xs xe t in (b, (rs, re) :: t')
      else if xe <=? rs then (false, l)
      else
        let '(_, t') := remove_at xs xe t in
        let left := if rs <? xs then [(rs, xs)] else [] in
        let right := if xe <? re then [(xe, re)] else [] in
        (true, left ++ right ++ t')
  end.

Definition remove (xs xe : Z) (l : aset) : bool * aset :=
  if xe <=? xs then (false, l) else remove_at xs xe l.

Definition pop_min (l : aset) : option (Z * Z) * aset :=
  match l with
  | [] => (None, [])
  | p :: r => (Some p, r)
  end.

Definition max (l : aset) : option Z := option_map (fun p => snd p - 1) (hd_error (rev l)).

Definition step (m : aset) (op : list Z) : aset * list Z :=
  match op with
  | [0; s; e] => let '(b, m') := insert s e m in (m', [b2z b])
  | [1; x] => let '(b, m') := insert_one x m in (m', [b2z b])
  | [2; s; e] => let '(b, m') := remove s e m in (m', [b2z b])
  | [3] => match pop_min m with
           | (Some (s, e), m') => (m', [1; s; e])
           | (None, m') => (m', [0])
           end
  | [4] => match max m with Some x => (m, [1; x]) | None => (m, [0]) end
  | [5] => (m, [Z.of_nat (length m)])
  | [6] => (m, [b2z match m with [] => true | _ => false end])
  | [7] => (m, flat m)
  | _ => (m, [-1])
  end.

Fixpoint run_from (m : aset) (i : ops) : outs :=
  match i with
  | [] => []
  | op :: r => let '(m', o) := step m op in o :: run_from m' r
  end.

Definition run (i : ops) : outs := run_from [] i.

(** Property oracle against the reference specification [Lib.RangeSpec]: insert/insert_one return
    true iff something new was added, remove returns true iff something was removed, iter lists
    exactly the canonical form, pop_min/max/len/is_empty agree with it. *)
Fixpoint oracle_from (l : log) (i : ops) (o : outs) : bool :=
  match i, o with
  | [], [] => true
  | op :: i', out :: o' =>
      let c := canon l in
      match op with
      | [0; s; e] =>
          lz_eqb out [b2z ((s <? e) && negb (contains_range c s e))] &&
          oracle_from (if s <? e then (true, s, e) :: l else l) i' o'
      | [1; x] =>
          lz_eqb out [b2z (negb (contains_range c x (x + 1)))] &&
          oracle_from ((true, x, x + 1) :: l) i' o'
      | [2; s; e] =>
          lz_eqb out [b2z ((s <? e) && meets_range c s e)] &&
          oracle_from (if s <? e then (false, s, e) :: l else l) i' o'
      | [3] =>
          match c with
          | [] => lz_eqb out [0] && oracle_from l i' o'
          | (s, e) :: _ => lz_eqb out [1; s; e] && oracle_from ((false, s, e) :: l) i' o'
          end
      | [4] =>
          lz_eqb out match rev c with [] => [0] | (s, e) :: _ => [1; e - 1] end &&
          oracle_from l i' o'
      | [5] => lz_eqb out [Z.of_nat (length c)] && oracle_from l i' o'
      | [6] => lz_eqb out [b2z match c with [] => true | _ => false end] && oracle_from l i' o'
      | [7] => lz_eqb out (flat c) && oracle_from l i' o'
      | _ => oracle_from l i' o'
      end
  | _, _ => false
  end.

Definition oracle (i : ops) (o : outs) : bool := oracle_from [] i o.
