(** Model of [IncomingToken::from_header] (quinn-proto/src/token.rs) over an ABSTRACT decoded
    token — definitions only.

    [decide] is the decision taken after [Token::decode]; cryptography enters only through the
    argument [dec : option token] (the result of decoding the presented bytes under the server's
    key).  Times are integer microseconds since the Unix epoch; a token carries its issue time in
    whole seconds ([encode_unix_secs]), hence [trunc_secs].  Addresses are abstract ids (the
    hook maps ids injectively to [IpAddr]s).  The validation-token log is the real
    [BloomTokenLog] in exact mode, modelled by [BloomLog]. *)
From Coq Require Import ZArith List Bool.
From QV Require Import Lib.Corr Model.BloomLog.
Import ListNotations.
Open Scope Z_scope.

Inductive payload :=
| Retry (addr port : Z) (orig_dst_cid : list Z) (issued : Z)
| Validation (ip : Z) (issued : Z).

Record token := mkTok { nonce : Z; pl : payload }.

Inductive outcome :=
| InvalidRetryToken
| Incoming (retry_src_cid : option (list Z)) (orig_dst_cid : list Z) (validated : bool).

Record config := mkCfg { retry_lt : Z; val_lt : Z; log_fmb : Z }.

Definition unvalidated (dcid : list Z) : outcome := Incoming None dcid false.

(** [from_header] after decoding. [empty]: the header's token field is empty. *)
Definition decide (c : config) (log : BloomLog.t) (now raddr rport : Z) (dcid : list Z)
           (empty : bool) (dec : option token) : BloomLog.t * outcome :=
  if empty then (log, unvalidated dcid)
  else
    match dec with
    | None => (log, unvalidated dcid)
    | Some t =>
        match pl t with
        | Retry addr port odcid issued =>
            if negb ((addr =? raddr) && (port =? rport)) then (log, InvalidRetryToken)
            else if issued + retry_lt c <? now then (log, InvalidRetryToken)
            else (log, Incoming (Some dcid) odcid true)
        | Validation ip issued =>
            if negb (ip =? raddr) then (log, unvalidated dcid)
            else if issued + val_lt c <? now then (log, unvalidated dcid)
            else
              let '(log', ok) := BloomLog.check (log_fmb c) log (nonce t) issued (val_lt c) false in
              if ok then (log', Incoming None dcid true) else (log', unvalidated dcid)
        end
    end.

(** ---- executable instance used by the correspondence: tokens are table entries ---- *)
Record issued_token := mkIss { key_id : Z; tok : token; tok_len : Z }.

Definition trunc_secs (us : Z) : Z := (us / 1000000) * 1000000.

Definition ip_len (addr : Z) : Z := if (0 <=? addr) && (addr <=? 3) then 5 else 17.

Definition zlen (l : list Z) : Z := Z.of_nat (length l).

(** What the server (key 0) obtains from the presented bytes: (empty, decoded). The AEAD
    assumption made concrete: anything but the unmodified bytes of a token sealed under key 0
    fails to decode. *)
Definition present (tokens : list issued_token) (idx mutation arg : Z) : bool * option token :=
  match nth_error tokens (Z.to_nat idx) with
  | None =>
      match mutation with
      | 3 => (false, None)
      | 5 => (arg <=? 0, None)
      | _ => (true, None)
      end
  | Some it =>
      let genuine := if key_id it =? 0 then Some (tok it) else None in
      match mutation with
      | 0 => (false, genuine)
      | 1 => if arg <? 8 * tok_len it then (false, None) else (false, genuine)
      | 2 => if tok_len it <=? arg then (false, genuine) else (arg =? 0, None)
      | 3 => (false, None)
      | 4 =>
          match nth_error tokens (Z.to_nat arg) with
          | Some other => if nonce (tok other) =? nonce (tok it) then (false, genuine) else (false, None)
          | None => (false, genuine)
          end
      | 5 => (arg <=? 0, None)
      | _ => (false, genuine)
      end
  end.

Record t := mk { cfg : config; tokens : list issued_token; log : BloomLog.t }.

Definition out_cid (c : list Z) : list Z := zlen c :: c.

Definition obs (o : outcome) : list Z :=
  match o with
  | InvalidRetryToken => [1]
  | Incoming rsc od v =>
      [0; if v then 1 else 0]
        ++ (match rsc with None => [-1] | Some c => out_cid c end) ++ out_cid od
  end.

Definition step (s : t) (op : list Z) : t * list Z :=
  match op with
  | 1 :: kind :: key :: addr :: port :: issued :: nhi :: nlo :: n :: cid =>
      let cid := firstn (Z.to_nat n) cid in
      let iss := trunc_secs issued in
      let p := if kind =? 0 then Retry addr port cid iss else Validation addr iss in
      let len := if kind =? 0 then 1 + ip_len addr + 2 + 1 + zlen cid + 8 + 32
                 else 1 + ip_len addr + 8 + 32 in
      (mk (cfg s) (tokens s ++ [mkIss key (mkTok (nhi * 2 ^ 64 + nlo) p) len]) (log s), [0; len])
  | 2 :: idx :: mutation :: arg :: raddr :: rport :: now :: n :: dcid =>
      let dcid := firstn (Z.to_nat n) dcid in
      let '(empty, dec) := present (tokens s) idx mutation arg in
      let '(log', o) := decide (cfg s) (log s) now raddr rport dcid empty dec in
      (mk (cfg s) (tokens s) log', obs o)
  | _ => (s, [-1])
  end.

Fixpoint run_from (s : t) (i : ops) : outs :=
  match i with
  | [] => []
  | op :: i' => let '(s', o) := step s op in o :: run_from s' i'
  end.

Definition run (i : ops) : outs :=
  match i with
  | [0; rl; vl] :: i' => [0] :: run_from (mk (mkCfg rl vl (2 ^ 19)) [] BloomLog.init) i'
  | _ => run_from (mk (mkCfg 0 0 (2 ^ 19)) [] BloomLog.init) i   (* as if op 0 were [0; 0; 0] *)
  end.

(** Oracle on the implementation's outputs (ops and outputs only): an outcome with
    [validated = 1] requires an UNMODIFIED token issued under the server's key (key 0), presented
    - Retry: from exactly the address and port it was issued to, no later than issue (whole
      seconds) + retry lifetime; the outcome then carries the token's original CID and the
      header's destination CID as retry source CID;
    - Validation: from the same IP, no later than issue + lifetime, and at most once per
      (nonce, issue time);
    every modified or foreign-key token yields exactly the no-token outcome; an unmodified Retry
    token of the server's key that is misplaced or stale yields InvalidRetryTokenError. *)
Definition lz_eq := lz_eqb.

Fixpoint mem2 (a b : Z) (l : list (Z * Z)) : bool :=
  match l with
  | [] => false
  | (x, y) :: l' => (Z.eqb a x && Z.eqb b y) || mem2 a b l'
  end.

Fixpoint oracle_from (c : config) (toks : list issued_token) (used : list (Z * Z)) (i : ops) (o : outs) : bool :=
  match i, o with
  | [], [] => true
  | op :: i', out :: o' =>
      match op with
      | 1 :: _ =>
          let '(s', _) := step (mk c toks BloomLog.init) op in
          oracle_from c (tokens s') used i' o'
      | 2 :: idx :: mutation :: arg :: raddr :: rport :: now :: n :: dcid =>
          let dcid := firstn (Z.to_nat n) dcid in
          let '(empty, dec) := present toks idx mutation arg in
          let absent := lz_eq out (obs (unvalidated dcid)) in
          match (if empty then None else dec) with
          | None => absent && oracle_from c toks used i' o'
          | Some t =>
              match pl t with
              | Retry addr port od iss =>
                  let good := (addr =? raddr) && (port =? rport) && (now <=? iss + retry_lt c) in
                  (if good then lz_eq out (obs (Incoming (Some dcid) od true)) else lz_eq out [1])
                  && oracle_from c toks used i' o'
              | Validation ip iss =>
                  let good := (ip =? raddr) && (now <=? iss + val_lt c) && negb (val_lt c =? 0) in
                  if lz_eq out (obs (Incoming None dcid true)) then
                    good && negb (mem2 (nonce t) iss used)
                    && oracle_from c toks ((nonce t, iss) :: used) i' o'
                  else absent && oracle_from c toks used i' o'
              end
          end
      | _ => oracle_from c toks used i' o'
      end
  | _, _ => false
  end.

Definition oracle (i : ops) (o : outs) : bool :=
  match i, o with
  | _, [[-999]] => false
  | [0; rl; vl] :: i', _ :: o' => oracle_from (mkCfg rl vl (2 ^ 19)) [] [] i' o'
  | _, _ => oracle_from (mkCfg 0 0 (2 ^ 19)) [] [] i o
  end.
