(** Model of the packet header codec of quinn-proto/src/packet.rs — definitions only.
    [Header::encode] + [PartialEncode::finish] (payload Length field) against
    [ProtectedHeader::decode] + [PartialDecode::new] (coalescing split) + [PartialDecode::finish]
    (packet number), with the identity as header protection and no AEAD: plaintext headers.
    Bit tests are written arithmetically ([first & 0x40 != 0] is [(first / 64) mod 2 = 1]). *)
From Coq Require Import ZArith List Bool.
From QV Require Import Lib.Bytes Lib.Corr Model.Varint.
Import ListNotations.
Open Scope Z_scope.

Definition MAX_CID : Z := 20.

(** [pnl], [pn]: the [PacketNumber] variant (length 1..4) and its truncated value. *)
Inductive header : Type :=
| HInitial (version : Z) (dcid scid token : list Z) (pnl : nat) (pn : Z)
| HLong (zero_rtt : bool) (version : Z) (dcid scid : list Z) (pnl : nat) (pn : Z)
| HRetry (version : Z) (dcid scid : list Z)
| HShort (spin key_phase : bool) (dcid : list Z) (pnl : nat) (pn : Z)
| HVN (random : Z) (dcid scid : list Z).

Definition b2z (b : bool) : Z := if b then 1 else 0.
Definition win (pnl : nat) : Z := 256 ^ Z.of_nat pnl.
Definition cid_long (c : list Z) : list Z := zlen c :: c.
Definition be4 (v : Z) : list Z := be_bytes 4 (v mod 2 ^ 32).
Definition pn_bytes (pnl : nat) (pn : Z) : list Z := be_bytes pnl (pn mod win pnl).
Definition venc (x : Z) : list Z := match Varint.encode x with Some b => b | None => [] end.

(** Bytes before the Length field / packet number. *)
Definition header_prefix (h : header) : list Z :=
  match h with
  | HInitial v d s tok pnl _ =>
      [192 + (Z.of_nat pnl - 1)] ++ be4 v ++ cid_long d ++ cid_long s ++ venc (zlen tok) ++ tok
  | HLong zr v d s pnl _ =>
      [(if zr then 208 else 224) + (Z.of_nat pnl - 1)] ++ be4 v ++ cid_long d ++ cid_long s
  | HRetry v d s => [240] ++ be4 v ++ cid_long d ++ cid_long s
  | HShort spin kp d pnl _ => [64 + 4 * b2z kp + 32 * b2z spin + (Z.of_nat pnl - 1)] ++ d
  | HVN random d s => [128 + random mod 128] ++ be4 0 ++ cid_long d ++ cid_long s
  end.

Definition has_length (h : header) : bool :=
  match h with HInitial _ _ _ _ _ _ | HLong _ _ _ _ _ _ => true | _ => false end.

Definition pn_of (h : header) : option (nat * Z) :=
  match h with
  | HInitial _ _ _ _ pnl pn | HLong _ _ _ _ pnl pn | HShort _ _ _ pnl pn => Some (pnl, pn)
  | _ => None
  end.

(** [Header::encode], the payload appended, [PartialEncode::finish]: (header_len, packet).
    [None] = panic: [assert!(len < 2^14)], or the debug assertion that at least 4 bytes follow
    the packet-number offset (header-protection sample). *)
Definition encode_packet (h : header) (payload : list Z) : option (Z * list Z) :=
  match pn_of h with
  | None => Some (zlen (header_prefix h), header_prefix h ++ payload)
  | Some (pnl, pn) =>
      let len := Z.of_nat pnl + zlen payload in
      if has_length h then
        if (len <? 2 ^ 14) && (4 <=? len) then
          Some (zlen (header_prefix h) + 2 + Z.of_nat pnl,
                header_prefix h ++ be_bytes 2 (2 ^ 14 + len) ++ pn_bytes pnl pn ++ payload)
        else None
      else
        if 4 <=? len then
          Some (zlen (header_prefix h) + Z.of_nat pnl, header_prefix h ++ pn_bytes pnl pn ++ payload)
        else None
  end.

(** * Decoding *)
(** [PacketDecodeError::InvalidHeader] reasons. *)
Definition E_FIXED : Z := 1.     (* fixed bit unset *)
Definition E_CID : Z := 2.       (* malformed cid *)
Definition E_TOKEN : Z := 3.     (* token out of bounds *)
Definition E_END : Z := 4.       (* unexpected end of packet *)
Definition E_SHORT : Z := 5.     (* packet too short to contain payload length *)
Definition E_SMALL : Z := 6.     (* packet too small (FixedLengthConnectionIdParser) *)
Definition E_SAMPLE : Z := 7.    (* packet too short to extract header protection sample *)

(** The unprotected part of a header ([ProtectedHeader]). *)
Inductive plain : Type :=
| PInitial (version : Z) (dcid scid token : list Z) (len : Z)
| PLong (zero_rtt : bool) (version : Z) (dcid scid : list Z) (len : Z)
| PRetry (version : Z) (dcid scid : list Z)
| PShort (spin : bool) (dcid : list Z)
| PVN (random : Z) (dcid scid : list Z).

Inductive pdres : Type :=
| PdOk (p : plain) (rest : list Z)
| PdErr (e : Z)
| PdUnsupported (version : Z) (dcid scid : list Z).

Definition take (n : nat) (bs : list Z) : option (list Z * list Z) :=
  if Nat.ltb (length bs) n then None else Some (firstn n bs, skipn n bs).

(** [ConnectionId::decode_long] *)
Definition decode_long (bs : list Z) : option (list Z * list Z) :=
  match bs with
  | [] => None
  | l :: r => if MAX_CID <? l then None else take (Z.to_nat l) r
  end.

Definition mem (v : Z) (l : list Z) : bool := existsb (Z.eqb v) l.

(** [ProtectedHeader::decode] *)
Definition decode_plain (lcl : nat) (grease : bool) (versions : list Z) (bs : list Z) : pdres :=
  match bs with
  | [] => PdErr E_END
  | first :: r0 =>
      if negb grease && ((first / 64) mod 2 =? 0) then PdErr E_FIXED
      else if first <? 128 then
        match take lcl r0 with
        | None => PdErr E_SMALL
        | Some (dcid, r1) => PdOk (PShort ((first / 32) mod 2 =? 1) dcid) r1
        end
      else
        match take 4 r0 with
        | None => PdErr E_END
        | Some (vb, r1) =>
            let version := be_val vb 0 in
            match decode_long r1 with
            | None => PdErr E_CID
            | Some (dcid, r2) =>
                match decode_long r2 with
                | None => PdErr E_CID
                | Some (scid, r3) =>
                    if version =? 0 then PdOk (PVN (first - 128) dcid scid) r3
                    else if negb (mem version versions) then PdUnsupported version dcid scid
                    else
                      let ty := (first / 16) mod 4 in
                      if ty =? 0 then
                        match Varint.decode r3 with
                        | None => PdErr E_END
                        | Some (tl, r4) =>
                            if zlen r4 <? tl then PdErr E_TOKEN
                            else
                              match Varint.decode (skipn (Z.to_nat tl) r4) with
                              | None => PdErr E_END
                              | Some (len, r5) =>
                                  PdOk (PInitial version dcid scid (firstn (Z.to_nat tl) r4) len) r5
                              end
                        end
                      else if ty =? 3 then PdOk (PRetry version dcid scid) r3
                      else
                        match Varint.decode r3 with
                        | None => PdErr E_END
                        | Some (len, r4) => PdOk (PLong (ty =? 1) version dcid scid len) r4
                        end
                end
            end
        end
  end.

Definition payload_len (p : plain) : option Z :=
  match p with
  | PInitial _ _ _ _ len | PLong _ _ _ _ len => Some len
  | _ => None
  end.

(** Result of [PartialDecode::new] followed by [finish]. *)
Inductive dres : Type :=
| DErr (e : Z)
| DUnsupported (version : Z) (dcid scid : list Z)
| DFinishErr (e packet_len rest_len length_field : Z)
| DOk (packet_len rest_len length_field header_len payload_len : Z) (reserved_ok : bool) (h : header).

(** [PartialDecode::finish] on the split-off packet [pk]; [pos] = length of the unprotected part. *)
Inductive fres : Type :=
| FErr (e : Z)
| FOk (header_len payload_len : Z) (reserved_ok : bool) (h : header).

Definition with_pn (pk : list Z) (pos : nat) (mk : nat -> Z -> header) (ok : bool) : fres :=
  if zlen pk <? Z.of_nat pos + 4 then FErr E_SAMPLE
  else
    let pnl := Z.to_nat (1 + hd 0 pk mod 4) in
    let pn := be_val (firstn pnl (skipn pos pk)) 0 in
    let hl := Z.of_nat pos + Z.of_nat pnl in
    FOk hl (zlen pk - hl) ok (mk pnl pn).

Definition finish (p : plain) (pk : list Z) (pos : nat) : fres :=
  let first := hd 0 pk in
  let long_ok := (first / 4) mod 4 =? 0 in
  match p with
  | PInitial v d s tok _ => with_pn pk pos (HInitial v d s tok) long_ok
  | PLong zr v d s _ => with_pn pk pos (HLong zr v d s) long_ok
  | PShort spin d =>
      with_pn pk pos (HShort spin ((first / 4) mod 2 =? 1) d) ((first / 8) mod 4 =? 0)
  | PRetry v d s => FOk (Z.of_nat pos) (zlen pk - Z.of_nat pos) long_ok (HRetry v d s)
  | PVN random d s => FOk (Z.of_nat pos) (zlen pk - Z.of_nat pos) long_ok (HVN random d s)
  end.

Definition decode_packet (lcl : nat) (grease : bool) (versions : list Z) (bs : list Z) : dres :=
  match decode_plain lcl grease versions bs with
  | PdErr e => DErr e
  | PdUnsupported v d s => DUnsupported v d s
  | PdOk p rest =>
      let dgram_len := zlen bs in
      let pos := (length bs - length rest)%nat in
      let packet_len :=
        match payload_len p with
        | Some len => Z.of_nat pos + len    (* u64 addition: both below 2^62 + 2^16, cannot overflow *)
        | None => dgram_len
        end in
      if dgram_len <? packet_len then DErr E_SHORT
      else
        let rest_len := if dgram_len =? packet_len then -1 else dgram_len - packet_len in
        let lf := match payload_len p with Some len => len | None => -1 end in
        let pk := firstn (Z.to_nat packet_len) bs in
        match finish p pk pos with
        | FErr e => DFinishErr e packet_len rest_len lf
        | FOk hl pl ok h => DOk packet_len rest_len lf hl pl ok h
        end
  end.

(** * Well-formed headers: what callers of [Header::encode] establish, relative to the receiver's
    configuration (local CID length, supported versions, grease bit). *)
Definition wf_cid (c : list Z) : bool := zlen c <=? MAX_CID.
Definition wf_pn (pnl : nat) (pn : Z) : bool :=
  (Nat.leb 1 pnl) && (Nat.leb pnl 4) && (0 <=? pn) && (pn <? win pnl).
Definition wf_version (versions : list Z) (v : Z) : bool :=
  (0 <? v) && (v <? 2 ^ 32) && mem v versions.

Definition wf_header (lcl : nat) (grease : bool) (versions : list Z) (h : header) : bool :=
  match h with
  | HInitial v d s tok pnl pn =>
      wf_version versions v && wf_cid d && wf_cid s && (zlen tok <? 2 ^ 62) && wf_pn pnl pn
  | HLong _ v d s pnl pn => wf_version versions v && wf_cid d && wf_cid s && wf_pn pnl pn
  | HRetry v d s => wf_version versions v && wf_cid d && wf_cid s
  | HShort _ _ d pnl pn => Nat.eqb (length d) lcl && wf_pn pnl pn
  | HVN random d s =>
      (0 <=? random) && (random <? 128) && (grease || (64 <=? random)) && wf_cid d && wf_cid s
  end.

(** * Integer interface shared with the hook [verif_hooks::header] *)
Definition lb (d : list Z) : list Z := zlen d :: d.

Definition split_l (l : list Z) : option (list Z * list Z) :=
  match l with
  | [] => None
  | n :: tl =>
      if (n <? 0) || (zlen tl <? n) then None
      else Some (firstn (Z.to_nat n) tl, skipn (Z.to_nat n) tl)
  end.

Definition zb (x : Z) : bool := negb (x =? 0).

Definition parse_pn (l : list Z) : option (nat * Z) :=
  match l with
  | [len; v] => if (1 <=? len) && (len <=? 4) then Some (Z.to_nat len, v) else None
  | _ => None
  end.

Definition parse_cid (l : list Z) : option (list Z * list Z) :=
  match split_l l with
  | Some (c, r) => if zlen c <=? MAX_CID then Some (c, r) else None
  | None => None
  end.

Definition parse_header (d : list Z) : option header :=
  match d with
  | 0 :: v :: t0 =>
      match parse_cid t0 with
      | Some (dc, t1) =>
          match parse_cid t1 with
          | Some (sc, t2) =>
              match split_l t2 with
              | Some (tok, t3) =>
                  match parse_pn t3 with
                  | Some (pnl, pn) => Some (HInitial v dc sc tok pnl pn)
                  | None => None
                  end
              | None => None
              end
          | None => None
          end
      | None => None
      end
  | 1 :: ty :: v :: t0 =>
      match parse_cid t0 with
      | Some (dc, t1) =>
          match parse_cid t1 with
          | Some (sc, t2) =>
              match parse_pn t2 with
              | Some (pnl, pn) => Some (HLong (zb ty) v dc sc pnl pn)
              | None => None
              end
          | None => None
          end
      | None => None
      end
  | 2 :: v :: t0 =>
      match parse_cid t0 with
      | Some (dc, t1) =>
          match parse_cid t1 with
          | Some (sc, []) => Some (HRetry v dc sc)
          | _ => None
          end
      | None => None
      end
  | 3 :: spin :: kp :: t0 =>
      match parse_cid t0 with
      | Some (dc, t1) =>
          match parse_pn t1 with
          | Some (pnl, pn) => Some (HShort (zb spin) (zb kp) dc pnl pn)
          | None => None
          end
      | None => None
      end
  | 4 :: random :: t0 =>
      match parse_cid t0 with
      | Some (dc, t1) =>
          match parse_cid t1 with
          | Some (sc, []) => Some (HVN (random mod 256) dc sc)
          | _ => None
          end
      | None => None
      end
  | _ => None
  end.

Definition render_header (h : header) : list Z :=
  match h with
  | HInitial v d s tok pnl pn => [0; v] ++ lb d ++ lb s ++ lb tok ++ [Z.of_nat pnl; pn]
  | HLong zr v d s pnl pn => [1; b2z zr; v] ++ lb d ++ lb s ++ [Z.of_nat pnl; pn]
  | HRetry v d s => [2; v] ++ lb d ++ lb s
  | HShort spin kp d pnl pn => [3; b2z spin; b2z kp] ++ lb d ++ [Z.of_nat pnl; pn]
  | HVN random d s => [4; random] ++ lb d ++ lb s
  end.

Definition render (r : dres) : list Z :=
  match r with
  | DErr e => [1; e]
  | DUnsupported v d s => [2; v] ++ lb d ++ lb s
  | DFinishErr e a b c => [3; e; a; b; c]
  | DOk a b c hl pl ok h => [0; a; b; c; hl; pl; b2z ok] ++ render_header h
  end.

(** decode parameters: [lcl; grease; n; v1..vn] then the remainder. *)
Definition parse_params (l : list Z) : option (nat * bool * list Z * list Z) :=
  match l with
  | lcl :: grease :: n :: tl =>
      if (n <? 0) || (zlen tl <? n) then None
      else Some (Z.to_nat lcl, zb grease, map (fun v => v mod 2 ^ 32) (firstn (Z.to_nat n) tl),
                 skipn (Z.to_nat n) tl)
  | _ => None
  end.

(** One op; outer [None] = panic. *)
Definition step (op : list Z) : option (list Z) :=
  match op with
  | 0 :: tl =>
      match split_l tl with
      | Some (payload, d) =>
          match parse_header d with
          | Some h =>
              match encode_packet h payload with
              | Some (hl, b) => Some (0 :: hl :: b)
              | None => None
              end
          | None => Some [-1]
          end
      | None => Some [-1]
      end
  | 1 :: tl =>
      match parse_params tl with
      | Some (lcl, grease, versions, bs) => Some (render (decode_packet lcl grease versions bs))
      | None => Some [-1]
      end
  | 2 :: tl =>
      match parse_params tl with
      | Some (lcl, grease, versions, t1) =>
          match split_l t1 with
          | Some (payload, t2) =>
              match split_l t2 with
              | Some (trailing, d) =>
                  match parse_header d with
                  | Some h =>
                      match encode_packet h payload with
                      | Some (_, b) =>
                          Some (render (decode_packet lcl grease versions (b ++ trailing)))
                      | None => None
                      end
                  | None => Some [-1]
                  end
              | None => Some [-1]
              end
          | None => Some [-1]
          end
      | None => Some [-1]
      end
  | _ => Some [-1]
  end.

Fixpoint run_steps (i : ops) : option outs :=
  match i with
  | [] => Some []
  | op :: tl =>
      match step op, run_steps tl with
      | Some o, Some os => Some (o :: os)
      | _, _ => None
      end
  end.

Definition run (i : ops) : outs :=
  match run_steps i with
  | Some o => o
  | None => [PANIC]
  end.

(** * Property oracle on the implementation's outputs: op 2 with a well-formed header and a
    payload of admissible size returns the header that was encoded, the packet length equals
    the length of the encoded packet (split exactly at the encoded boundary: everything after it
    is handed back as the next coalesced packet), the Length field equals packet-number length +
    payload length, and the payload length is the one given. *)
Definition header_norm (h : header) : header :=
  match h with
  | HInitial v d s tok pnl pn => HInitial (v mod 2 ^ 32) d s tok pnl (pn mod win pnl)
  | HLong zr v d s pnl pn => HLong zr (v mod 2 ^ 32) d s pnl (pn mod win pnl)
  | HRetry v d s => HRetry (v mod 2 ^ 32) d s
  | HShort a b d pnl pn => HShort a b d pnl (pn mod win pnl)
  | HVN r d s => HVN r d s
  end.

Definition size_ok (h : header) (payload : list Z) : bool :=
  match pn_of h with
  | Some (pnl, _) =>
      (4 <=? Z.of_nat pnl + zlen payload)
      && (negb (has_length h) || (Z.of_nat pnl + zlen payload <? 2 ^ 14))
  | None => true
  end.

(** What decoding [encode_packet h payload ++ trailing] must return. Headers with a Length field
    are split exactly at the end of the encoded packet; the others extend to the end of the
    datagram. The reserved-bits flag is irrelevant for Version Negotiation (no such bits). *)
Definition reserved_expected (h : header) : bool :=
  match h with
  | HVN r _ _ => ((128 + r) / 4) mod 4 =? 0
  | _ => true
  end.

Definition pnl_of (h : header) : Z :=
  match pn_of h with Some (n, _) => Z.of_nat n | None => 0 end.

Definition expected_decode (h : header) (hl : Z) (pk payload trailing : list Z) : dres :=
  if has_length h then
    DOk (zlen pk) (if zlen trailing =? 0 then -1 else zlen trailing) (pnl_of h + zlen payload)
        hl (zlen payload) true h
  else
    DOk (zlen pk + zlen trailing) (-1) (-1) hl (zlen payload + zlen trailing)
        (reserved_expected h) h.

Definition oracle_step (op out : list Z) : bool :=
  match op with
  | 2 :: tl =>
      match parse_params tl with
      | Some (lcl, grease, versions, t1) =>
          match split_l t1 with
          | Some (payload, t2) =>
              match split_l t2 with
              | Some (trailing, d) =>
                  match parse_header d with
                  | Some h =>
                      if wf_header lcl grease versions h && size_ok h payload then
                        match encode_packet h payload with
                        | Some (hl, b) => lz_eqb out (render (expected_decode h hl b payload trailing))
                        | None => false
                        end
                      else true
                  | None => true
                  end
              | None => true
              end
          | None => true
          end
      | None => true
      end
  | _ => true
  end.

Fixpoint oracle_list (i : ops) (o : outs) : bool :=
  match i, o with
  | [], [] => true
  | a :: i', b :: o' => oracle_step a b && oracle_list i' o'
  | _, _ => false
  end.

Definition op_must_not_panic (op : list Z) : bool :=
  match op with
  | 1 :: _ => true
  | 2 :: tl =>
      match parse_params tl with
      | Some (lcl, grease, versions, t1) =>
          match split_l t1 with
          | Some (payload, t2) =>
              match split_l t2 with
              | Some (trailing, d) =>
                  match parse_header d with
                  | Some h => wf_header lcl grease versions h && size_ok h payload
                  | None => true
                  end
              | None => true
              end
          | None => true
          end
      | None => true
      end
  | _ => false
  end.

Definition oracle (i : ops) (o : outs) : bool :=
  match o with
  | [[-999]] => negb (forallb op_must_not_panic i)
  | _ => oracle_list i o
  end.
