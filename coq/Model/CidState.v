(** Model of [CidState] (quinn-proto/src/connection/cid_state.rs) — definitions only.

    Local connection IDs: [issued] counts the CIDs handed to the peer, [active] is the set
    (ascending list) of sequence numbers the peer has not retired, [ts] the queue of
    (highest sequence number of a batch, expiry time), [prev]/[rseq] the previous and current
    Retire Prior To values.  Times are integer microseconds.

    Panics of the Rust code are explicit: [debug_assert!(new_cid_seq > last.sequence)] in
    [track_lifetime] is [None].

    Op encoding (hook quinn-proto/src/connection/verif_hooks/cid_state.rs):
      [0; cid_len; lifetime|-1; now; issued] new | [1; n; now] new_cids (n consecutive sequence
      numbers from [issued]) | [2; seq; limit] on_cid_retirement | [3] on_cid_timeout | [4] observe
    observation [tag; v; issued; prev; rseq; |ts|; next_timeout|-1; |active|; active...]. *)
From Coq Require Import ZArith List Bool.
From QV Require Import Lib.Corr.
Import ListNotations.
Open Scope Z_scope.

Record t := mk {
  ts : list (Z * Z);
  issued : Z;
  active : list Z;
  prev : Z;
  rseq : Z;
  cid_len : Z;
  lifetime : option Z
}.

Inductive op :=
| New (cid_len : Z) (lifetime : option Z) (now issued : Z)
| Issue (n now : Z)
| Retire (seq limit : Z)
| Timeout
| Observe.

Definition PROTOCOL_VIOLATION : Z := 10.

(** ascending insertion without duplicates / removal *)
Fixpoint set_add (x : Z) (l : list Z) : list Z :=
  match l with
  | [] => [x]
  | y :: r => if x <? y then x :: l else if x =? y then l else y :: set_add x r
  end.
Fixpoint set_remove (x : Z) (l : list Z) : list Z :=
  match l with
  | [] => []
  | y :: r => if x =? y then r else y :: set_remove x r
  end.
Definition any_in (lo hi : Z) (l : list Z) : bool :=
  existsb (fun x => (lo <=? x) && (x <? hi)) l.

(** [seqs from n] = [from; from+1; ...] ([n] elements) *)
Fixpoint seqs (from : Z) (n : nat) : list Z :=
  match n with O => [] | S k => from :: seqs (from + 1) k end.

Fixpoint set_last (l : list (Z * Z)) (v : Z * Z) : list (Z * Z) :=
  match l with
  | [] => []
  | [_] => [v]
  | x :: r => x :: set_last r v
  end.

(** [track_lifetime]; [None] = the debug assertion fails. *)
Definition track (lt : option Z) (q : list (Z * Z)) (seq now : Z) : option (list (Z * Z)) :=
  match lt with
  | None => Some q
  | Some d =>
      let e := now + d in
      match last q (-1, -1) with
      | (lseq, lts) =>
          if negb (length q =? 0)%nat && (lts =? e) then
            if lseq <? seq then Some (set_last q (seq, e)) else None
          else Some (q ++ [(seq, e)])
      end
  end.

Fixpoint track_all (lt : option Z) (q : list (Z * Z)) (l : list Z) (now : Z) : option (list (Z * Z)) :=
  match l with
  | [] => Some q
  | s :: r =>
      match track lt q s now with
      | None => None
      | Some q' => track_all lt q' r now
      end
  end.

Definition new (cl : Z) (lt : option Z) (now iss : Z) : option t :=
  let ss := seqs 0 (Z.to_nat iss) in
  match track_all lt [] ss now with
  | None => None
  | Some q => Some (mk q iss ss 0 0 cl lt)
  end.

Definition new_cids (s : t) (n now : Z) : option t :=
  if n <=? 0 then Some s
  else
    let ids := seqs (issued s) (Z.to_nat n) in
    let last_seq := issued s + n - 1 in
    match track (lifetime s) (ts s) last_seq now with
    | None => None
    | Some q =>
        Some (mk q (issued s + n) (fold_left (fun a x => set_add x a) ids (active s))
                 (prev s) (rseq s) (cid_len s) (lifetime s))
    end.

(** [Ok b] = [inl b], [Err code] = [inr code] *)
Definition on_cid_retirement (s : t) (seq limit : Z) : t * (bool + Z) :=
  if cid_len s =? 0 then (s, inr PROTOCOL_VIOLATION)
  else if issued s <? seq then (s, inr PROTOCOL_VIOLATION)
  else
    let a := set_remove seq (active s) in
    (mk (ts s) (issued s) a (prev s) (rseq s) (cid_len s) (lifetime s),
     inl (Z.of_nat (length a) <? limit)).

Definition on_cid_timeout (s : t) : t * bool :=
  let unretired := any_in (prev s) (rseq s) (active s) in
  let current := rseq s in
  let next_retire := match ts s with [] => None | (q, _) :: _ => Some (q + 1) end in
  let ts' := tl (ts s) in
  let prev' := if unretired then prev s else rseq s in
  let rseq' := if unretired then rseq s
               else match next_retire with Some n => n | None => rseq s end in
  (mk ts' (issued s) (active s) prev' rseq' (cid_len s) (lifetime s),
   any_in current rseq' (active s)).

Definition next_timeout (s : t) : Z :=
  match ts s with [] => -1 | (_, e) :: _ => e end.

Definition snapshot (s : t) : list Z :=
  [issued s; prev s; rseq s; Z.of_nat (length (ts s)); next_timeout s;
   Z.of_nat (length (active s))] ++ active s.

Definition b2z (b : bool) : Z := if b then 1 else 0.

(** [None] = panic *)
Definition step (s : t) (o : op) : option (t * list Z) :=
  match o with
  | New cl lt now iss =>
      match new cl lt now iss with
      | None => None
      | Some s' => Some (s', 0 :: 0 :: snapshot s')
      end
  | Issue n now =>
      match new_cids s n now with
      | None => None
      | Some s' => Some (s', 0 :: 0 :: snapshot s')
      end
  | Retire seq limit =>
      match on_cid_retirement s seq limit with
      | (s', inl b) => Some (s', 0 :: b2z b :: snapshot s')
      | (s', inr c) => Some (s', 1 :: c :: snapshot s')
      end
  | Timeout =>
      let '(s', b) := on_cid_timeout s in Some (s', 0 :: b2z b :: snapshot s')
  | Observe => Some (s, 0 :: 0 :: snapshot s)
  end.

Fixpoint run_ops (s : t) (os : list op) : option (list (list Z)) :=
  match os with
  | [] => Some []
  | o :: r =>
      match step s o with
      | None => None
      | Some (s', out) =>
          match run_ops s' r with
          | None => None
          | Some outs => Some (out :: outs)
          end
      end
  end.

Definition decode_op (l : list Z) : option op :=
  match l with
  | [0; cl; lt; now; iss] => Some (New cl (if lt <? 0 then None else Some lt) now iss)
  | [1; n; now] => Some (Issue n now)
  | [2; seq; limit] => Some (Retire seq limit)
  | [3] => Some Timeout
  | [4] => Some Observe
  | _ => None
  end.

Fixpoint decode_ops (i : ops) : option (list op) :=
  match i with
  | [] => Some []
  | l :: r =>
      match decode_op l, decode_ops r with
      | Some o, Some os => Some (o :: os)
      | _, _ => None
      end
  end.

Definition init : t := mk [] 1 [0] 0 0 8 None.

Definition run (i : ops) : outs :=
  match decode_ops i with
  | None => [[-1]]
  | Some os =>
      match run_ops init os with
      | None => [PANIC]
      | Some o => o
      end
  end.

(** * Oracle on the implementation's outputs, recomputed from the ops alone:
    no panic; the number of CIDs issued so far [iss] is tracked from the ops; a retirement of a
    sequence number above [iss] must be rejected with PROTOCOL_VIOLATION; every reported active
    sequence number is below [iss] and the set has at most [iss] elements (strictly ascending);
    [retire_prior_to <= iss]. *)
Fixpoint ascending_below (lo hi : Z) (l : list Z) : bool :=
  match l with
  | [] => true
  | x :: r => (lo <=? x) && (x <? hi) && ascending_below (x + 1) hi r
  end.

Fixpoint oracle_go (i : ops) (o : outs) (iss cl : Z) : bool :=
  match i, o with
  | [], [] => true
  | op :: i', out :: o' =>
      let iss' := match op with
                  | [0; _; _; _; n] => n
                  | [1; n; _] => if 0 <? n then iss + n else iss
                  | _ => iss
                  end in
      let cl' := match op with [0; c; _; _; _] => c | _ => cl end in
      match out with
      | tag :: v :: issd :: _ :: rs :: _ :: _ :: na :: act =>
          (issd =? iss') && (rs <=? iss') && (Z.of_nat (length act) =? na) && (na <=? iss')
          && ascending_below 0 iss' act
          && match op with
             | [2; seq; _] =>
                 if (iss' <? seq) || (cl' =? 0)
                 then (tag =? 1) && (v =? PROTOCOL_VIOLATION)
                 else (tag =? 0) && negb (existsb (Z.eqb seq) act)
             | _ => tag =? 0
             end
          && oracle_go i' o' iss' cl'
      | _ => false
      end
  | _, _ => false
  end.

Definition oracle (i : ops) (o : outs) : bool :=
  if llz_eqb o [PANIC] then false else oracle_go i o 1 8.
