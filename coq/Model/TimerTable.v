(** Model of [TimerTable] (quinn-proto/src/connection/timer.rs), of the dispatch loop of
    [Connection::handle_timeout] (connection/mod.rs) over it, and of the event polls — definitions
    only.  Proofs: Proofs/TimerTableProofs.v; theorems: Props/C20.v.

    Instants are integer microseconds.  The table holds one optional deadline per timer; timers
    are the indices of [Timer::VALUES]:
      0 LossDetection 1 Idle 2 Close 3 KeyDiscard 4 PathValidation 5 KeepAlive 6 Pacing
      7 PushNewCid 8 MaxAckDelay.

    Op encoding (hook quinn-proto/src/connection/verif_hooks/timer.rs):
      [0; timer; t] set | [1; timer] stop | [2; timer] get | [3] next_timeout
      | [4; timer; after] is_expired | [5] all nine deadlines
    observation: see the hook; [[-2]] for a malformed op, a timer index outside 0..8 or a
    negative time (state unchanged). *)
From Coq Require Import ZArith List Bool.
From QV Require Import Lib.Corr.
Import ListNotations.
Open Scope Z_scope.

Definition NTIMERS : nat := 9.
Definition table := list (option Z).
Definition empty : table := repeat None NTIMERS.

Fixpoint upd (tb : table) (i : nat) (v : option Z) : table :=
  match tb, i with
  | [], _ => []
  | _ :: r, O => v :: r
  | x :: r, S i' => x :: upd r i' v
  end.

Definition get (tb : table) (i : nat) : option Z := nth i tb None.
Definition set (tb : table) (i : nat) (t : Z) : table := upd tb i (Some t).
Definition stop (tb : table) (i : nat) : table := upd tb i None.

(** [self.data.iter().filter_map(|&x| x).min()] *)
Definition omin (a : option Z) (b : option Z) : option Z :=
  match a, b with
  | None, _ => b
  | _, None => a
  | Some x, Some y => Some (Z.min x y)
  end.
Fixpoint next_timeout (tb : table) : option Z :=
  match tb with
  | [] => None
  | x :: r => omin x (next_timeout r)
  end.

(** [self.data[timer].is_some_and(|x| x <= after)] *)
Definition is_expired (tb : table) (i : nat) (after : Z) : bool :=
  match get tb i with Some x => x <=? after | None => false end.

(** * The dispatch loop of [Connection::handle_timeout]
      for &timer in &Timer::VALUES {
          if !self.timers.is_expired(timer, now) { continue; }
          self.timers.stop(timer);
          <handler of timer>
      }
    [H] is the rest of the connection state; a handler sees the state after the [stop] and may
    change [H] and the table (re-arm or stop any timer). *)
Section Dispatch.
  Variable H : Type.
  Variable handler : nat -> Z -> H * table -> H * table.

  Fixpoint dispatch (ts : list nat) (now : Z) (s : H * table) : H * table :=
    match ts with
    | [] => s
    | i :: r =>
        if is_expired (snd s) i now then dispatch r now (handler i now (fst s, stop (snd s) i))
        else dispatch r now s
    end.

  Definition handle_timeout (now : Z) (s : H * table) : H * table :=
    dispatch (seq 0 NTIMERS) now s.

  Fixpoint iter (n : nat) (now : Z) (s : H * table) : H * table :=
    match n with
    | O => s
    | S n' => iter n' now (handle_timeout now s)
    end.
End Dispatch.

(** [poll_timeout] lies strictly in the future (or there is none) *)
Definition future (tb : table) (now : Z) : Prop :=
  match next_timeout tb with None => True | Some t => now < t end.

(** what a handler may do to one timer: leave it, stop it, or arm it strictly after [now] *)
Definition slot_ok (now : Z) (before after : option Z) : Prop :=
  after = before \/ after = None \/ exists x, after = Some x /\ now < x.

(** * The handler contract (strict form): every handler leaves each timer unchanged, stopped, or
    armed at an instant [> now], and keeps the table's size.
    By inspection of connection/mod.rs this holds for
      Idle (kill: close_common stops LossDetection/KeepAlive..., arms nothing),
      Close (state := Drained), KeyDiscard, Pacing (no-op), MaxAckDelay (flag only),
      KeepAlive (ping: flag only; re-armed on the next send at now + interval, interval > 0),
      PushNewCid (queues NeedIdentifiers; re-armed by the endpoint's answer at now + lifetime),
      PathValidation (set_loss_detection_timer) and LossDetection when the loss-time branch is
      taken (detect_lost_packets leaves loss_time = sent + loss_delay > now for what remains).
    It does NOT hold for the PTO branch of LossDetection when the timer is serviced late: the new
    PTO is last_ack_eliciting + pto_base * 2^min(pto_count, MAX_BACKOFF_EXPONENT), which may
    still be <= now; [contract_b] covers it with a back-off measure. *)
Definition contract (H : Type) (handler : nat -> Z -> H * table -> H * table) : Prop :=
  forall i now h tb,
    length (snd (handler i now (h, tb))) = length tb /\
    forall j, slot_ok now (get tb j) (get (snd (handler i now (h, tb))) j).

(** * The handler contract with back-off, at one instant [now] and relative to an invariant [Inv] of
    the rest of the state: [mu] never increases, and a handler that arms some timer at an instant
    [<= now] strictly decreases it (PTO: the remaining doublings). *)
Definition contract_b (H : Type) (handler : nat -> Z -> H * table -> H * table) (mu : H -> nat)
           (now : Z) (Inv : H -> Prop) : Prop :=
  forall i h tb, Inv h ->
    Inv (fst (handler i now (h, tb))) /\
    length (snd (handler i now (h, tb))) = length tb /\
    (mu (fst (handler i now (h, tb))) <= mu h)%nat /\
    ((forall j, slot_ok now (get tb j) (get (snd (handler i now (h, tb))) j))
     \/ (mu (fst (handler i now (h, tb))) < mu h)%nat).

(** * A concrete PTO handler (the late-service case of LossDetection): [pto_count] is bumped and
    the timer re-armed at [last + base * 2^min(pto_count, E)]. *)
Record Pto := mkPto { pto_count : Z; last_ae : Z; pto_base : Z }.
Definition pto_deadline (E : Z) (p : Pto) : Z :=
  last_ae p + pto_base p * 2 ^ (Z.min (pto_count p) E).
Definition pto_handler (E : Z) (i : nat) (now : Z) (s : Pto * table) : Pto * table :=
  match i with
  | O => let p := mkPto (pto_count (fst s) + 1) (last_ae (fst s)) (pto_base (fst s)) in
         (p, set (snd s) 0 (pto_deadline E p))
  | _ => s
  end.
(** remaining doublings until the deadline passes [now] (0 once it has) *)
Definition pto_mu (E now : Z) (p : Pto) : nat :=
  if now <? pto_deadline E p then O else Z.to_nat (E - Z.min (pto_count p) E).
(** service is late by less than the largest back-off *)
Definition pto_inv (E now : Z) (p : Pto) : Prop :=
  0 <= pto_count p /\ 0 < pto_base p /\ now < last_ae p + pto_base p * 2 ^ E.

(** * Event polls: [Connection::poll] pops the event queue, then stream events, then a recorded
    error (once); [poll_endpoint_events] pops its own queue. *)
Record Queues := mkQ { events : list Z; stream_events : list Z; error : option Z; ep_events : list Z }.
Definition poll (q : Queues) : option Z * Queues :=
  match events q with
  | e :: r => (Some e, mkQ r (stream_events q) (error q) (ep_events q))
  | [] =>
      match stream_events q with
      | e :: r => (Some e, mkQ [] r (error q) (ep_events q))
      | [] =>
          match error q with
          | Some e => (Some e, mkQ [] [] None (ep_events q))
          | None => (None, q)
          end
      end
  end.
Definition poll_endpoint_events (q : Queues) : option Z * Queues :=
  match ep_events q with
  | e :: r => (Some e, mkQ (events q) (stream_events q) (error q) r)
  | [] => (None, q)
  end.

(** * Time translation *)
Definition shift_o (d : Z) (o : option Z) : option Z :=
  match o with Some t => Some (t + d) | None => None end.
Definition shift_table (d : Z) (tb : table) : table := map (shift_o d) tb.

Inductive Op :=
| OSet (i : nat) (t : Z) | OStop (i : nat) | OGet (i : nat) | ONext | OExpired (i : nat) (after : Z) | OAll.
Inductive Out := RUnit | RTime (o : option Z) | RBool (b : bool) | RAll (l : list (option Z)).

Definition step (tb : table) (op : Op) : table * Out :=
  match op with
  | OSet i t => (set tb i t, RUnit)
  | OStop i => (stop tb i, RUnit)
  | OGet i => (tb, RTime (get tb i))
  | ONext => (tb, RTime (next_timeout tb))
  | OExpired i a => (tb, RBool (is_expired tb i a))
  | OAll => (tb, RAll tb)
  end.

Definition shift_op (d : Z) (op : Op) : Op :=
  match op with
  | OSet i t => OSet i (t + d)
  | OExpired i a => OExpired i (a + d)
  | o => o
  end.
Definition shift_out (d : Z) (o : Out) : Out :=
  match o with
  | RTime t => RTime (shift_o d t)
  | RAll l => RAll (map (shift_o d) l)
  | o => o
  end.

Definition steps (tb : table) (l : list Op) : table * list Out :=
  fold_left (fun acc op => let '(tb', o) := step (fst acc) op in (tb', snd acc ++ [o])) l (tb, []).

(** * Integer interface *)
Definition optz (o : option Z) : Z := match o with Some x => x | None => -1 end.
Definition b2z (b : bool) : Z := if b then 1 else 0.
Definition TMAX : Z := 2 ^ 50.
Definition valid_timer (i : Z) : bool := (0 <=? i) && (i <? Z.of_nat NTIMERS).
Definition valid_time (t : Z) : bool := (0 <=? t) && (t <=? TMAX).

Definition decode_op (l : list Z) : option Op :=
  match l with
  | [0; i; t] => if valid_timer i && valid_time t then Some (OSet (Z.to_nat i) t) else None
  | [1; i] => if valid_timer i then Some (OStop (Z.to_nat i)) else None
  | [2; i] => if valid_timer i then Some (OGet (Z.to_nat i)) else None
  | [3] => Some ONext
  | [4; i; a] => if valid_timer i && valid_time a then Some (OExpired (Z.to_nat i) a) else None
  | [5] => Some OAll
  | _ => None
  end.

Definition encode_out (o : Out) : list Z :=
  match o with
  | RUnit => [0]
  | RTime t => [optz t]
  | RBool b => [b2z b]
  | RAll l => map optz l
  end.

Fixpoint run_from (tb : table) (i : ops) : outs :=
  match i with
  | [] => []
  | l :: r =>
      match decode_op l with
      | None => [-2] :: run_from tb r
      | Some op => let '(tb', o) := step tb op in encode_out o :: run_from tb' r
      end
  end.
Definition run (i : ops) : outs := run_from empty i.

(** * Oracle on the implementation's outputs, from the ops alone: the armed timers are kept as an
    association list (last [set] wins, [stop] removes); every [get] returns the last deadline set,
    [next_timeout] the MINIMUM over the armed timers (none armed: -1), [is_expired] holds iff
    the timer is armed at an instant <= after. *)
Fixpoint aremove (m : list (Z * Z)) (k : Z) : list (Z * Z) :=
  match m with
  | [] => []
  | (k', v) :: r => if k' =? k then aremove r k else (k', v) :: aremove r k
  end.
Fixpoint alookup (m : list (Z * Z)) (k : Z) : Z :=
  match m with
  | [] => -1
  | (k', v) :: r => if k' =? k then v else alookup r k
  end.
Fixpoint amin (m : list (Z * Z)) : Z :=
  match m with
  | [] => -1
  | (_, v) :: r => let m' := amin r in if m' <? 0 then v else Z.min v m'
  end.

Fixpoint oracle_from (m : list (Z * Z)) (i : ops) (o : outs) : bool :=
  match i, o with
  | [], [] => true
  | l :: i', out :: o' =>
      match decode_op l with
      | None => lz_eqb out [-2] && oracle_from m i' o'
      | Some (OSet k t) => lz_eqb out [0] && oracle_from ((Z.of_nat k, t) :: aremove m (Z.of_nat k)) i' o'
      | Some (OStop k) => lz_eqb out [0] && oracle_from (aremove m (Z.of_nat k)) i' o'
      | Some (OGet k) => lz_eqb out [alookup m (Z.of_nat k)] && oracle_from m i' o'
      | Some ONext => lz_eqb out [amin m] && oracle_from m i' o'
      | Some (OExpired k a) =>
          let v := alookup m (Z.of_nat k) in
          lz_eqb out [b2z ((0 <=? v) && (v <=? a))] && oracle_from m i' o'
      | Some OAll =>
          lz_eqb out (map (fun k => alookup m (Z.of_nat k)) (seq 0 NTIMERS)) && oracle_from m i' o'
      end
  | _, _ => false
  end.
Definition oracle (i : ops) (o : outs) : bool := oracle_from [] i o.
