(** Model of quinn-proto/src/range_set/btree_range_set.rs (RangeSet over BTreeMap<u64,u64>) —
    definitions only.

    The BTreeMap is a list of (start, end) pairs kept strictly ascending by key (that is the
    BTreeMap's own invariant, independent of what RangeSet stores in it).  The RangeSet methods are
    transcribed literally in terms of the map primitives [pred]/[succ]/[rm]/[put]; loops that
    repeatedly take the successor of a fixed key and remove it are written as one structural
    pass over the list (the successor after a removal is the next element).
    Only the methods compiled outside cfg(test) are modelled: insert, replace (+ the Replace
    iterator and its Drop), pop_min, peek_min, min, is_empty, iter. *)
From Coq Require Import ZArith List Bool.
From QV Require Import Lib.Corr Lib.RangeSpec.
Import ListNotations.
Open Scope Z_scope.

Definition rmap := list (Z * Z).

(** last entry with key <= x *)
Fixpoint pred (x : Z) (m : rmap) : option (Z * Z) :=
  match m with
  | [] => None
  | (s, e) :: r =>
      if s <=? x then
        match pred x r with
        | Some p => Some p
        | None => Some (s, e)
        end
      else None
  end.

(** first entry with key > x *)
Fixpoint succ (x : Z) (m : rmap) : option (Z * Z) :=
  match m with
  | [] => None
  | (s, e) :: r => if x <? s then Some (s, e) else succ x r
  end.

Fixpoint rm (k : Z) (m : rmap) : rmap :=
  match m with
  | [] => []
  | (s, e) :: r => if s =? k then r else (s, e) :: rm k r
  end.

Fixpoint put (k v : Z) (m : rmap) : rmap :=
  match m with
  | [] => [(k, v)]
  | (s, e) :: r =>
      if k <? s then (k, v) :: m
      else if k =? s then (k, v) :: r
      else (s, e) :: put k v r
  end.

(** [while let Some((next_start, next_end)) = self.succ(x.start) { if next_start > x.end { break }
    remove(next_start); x.end = max(next_end, x.end) }] — returns the map and the final x.end. *)
Fixpoint absorb (xs xe : Z) (m : rmap) : rmap * Z :=
  match m with
  | [] => ([], xe)
  | (s, e) :: r =>
      if xs <? s then
        if xe <? s then (m, xe) else absorb xs (Z.max e xe) r
      else
        let '(r', xe') := absorb xs xe r in ((s, e) :: r', xe')
  end.

Definition insert (xs xe : Z) (m : rmap) : bool * rmap :=
  if xe <=? xs then (false, m)
  else
    match pred xs m with
    | Some (s, e) =>
        if xe <=? e then (false, m)
        else
          let '(m1, xs1) := if xs <=? e then (rm s m, s) else (m, xs) in
          let '(m2, xe2) := absorb xs1 xe m1 in
          (true, put xs1 xe2 m2)
    | None =>
        let '(m2, xe2) := absorb xs xe m in
        (true, put xs xe2 m2)
    end.

(** [Replace::next] called until it first returns [None] (after the optional [pred] item):
    yields the items, the map and the extended [range.end].  Note the two ways of returning
    [None] — no overlapping successor, or a successor that only touches ([next_start ==
    replaced_end]); in the latter case the successor HAS been removed and merged. *)
Fixpoint drain (xs xe : Z) (m : rmap) : list (Z * Z) * rmap * Z :=
  match m with
  | [] => ([], [], xe)
  | (s, e) :: r =>
      if xs <? s then
        if xe <? s then ([], m, xe)
        else
          let rep_end := Z.min xe e in
          let xe' := Z.max xe e in
          if s =? rep_end then ([], r, xe')
          else
            let '(its, r', xe'') := drain xs xe' r in
            ((s, rep_end) :: its, r', xe'')
      else
        let '(its, r', xe') := drain xs xe r in
        (its, (s, e) :: r', xe')
  end.

(** [replace(range)] with the iterator consumed by a [for] loop and then dropped:
    items seen by the loop, and the resulting map. *)
Definition replace (xs xe : Z) (m : rmap) : list (Z * Z) * rmap :=
  let '(m1, xs1, xe1, pitem) :=
    match pred xs m with
    | Some (ps, pe) =>
        if xs <=? pe then
          let rs := xs in
          let re := Z.min xe pe in
          (rm ps m, Z.min xs ps, Z.max xe pe, if rs =? re then [] else [(rs, re)])
        else (m, xs, xe, [])
    | None => (m, xs, xe, [])
    end in
  let '(its, m2, xe2) := drain xs1 xe1 m1 in
  (* Drop: [for _ in &mut *self {}] runs to the next [None], then the aggregate is inserted *)
  let '(_, m3, xe3) := drain xs1 xe2 m2 in
  (pitem ++ its, put xs1 xe3 m3).

Definition pop_min (m : rmap) : option (Z * Z) * rmap :=
  match m with
  | [] => (None, [])
  | p :: r => (Some p, r)
  end.

Definition peek_min (m : rmap) : option (Z * Z) := hd_error m.
Definition min (m : rmap) : option Z := option_map fst (hd_error m).

(** Integer-encoded interface shared with the hook [verif_hooks::range_set] (component
    [range_set]). *)
Definition step (m : rmap) (op : list Z) : rmap * list Z :=
  match op with
  | [0; s; e] => let '(b, m') := insert s e m in (m', [b2z b])
  | [1; s; e] => let '(its, m') := replace s e m in (m', flat its)
  | [3] => match pop_min m with
           | (Some (s, e), m') => (m', [1; s; e])
           | (None, m') => (m', [0])
           end
  | [4] => match peek_min m with Some (s, e) => (m, [1; s; e]) | None => (m, [0]) end
  | [5] => match min m with Some x => (m, [1; x]) | None => (m, [0]) end
  | [6] => (m, [b2z match m with [] => true | _ => false end])
  | [7] => (m, flat m)
  | _ => (m, [-1])
  end.

Fixpoint run_from (m : rmap) (i : ops) : outs :=
  match i with
  | [] => []
  | op :: r => let '(m', o) := step m op in o :: run_from m' r
  end.

Definition run (i : ops) : outs := run_from [] i.

(** Property oracle on the implementation's outputs, against the reference specification
    [Lib.RangeSpec] (a log of additions/removals, canonical form by brute force):
    [insert] returns true iff some integer of the range was not yet in the set; [replace] of a
    non-empty range reports exactly the intersections with the present set, ascending, and adds the
    range; [iter] lists exactly the canonical form (ascending, non-empty, non-adjacent maximal runs);
    pop_min/peek_min/min/is_empty agree with it.  [replace] of an EMPTY range is not a set operation
    (it can plant an empty range): the oracle stops (true) there. *)
Fixpoint oracle_from (l : log) (i : ops) (o : outs) : bool :=
  match i, o with
  | [], [] => true
  | op :: i', out :: o' =>
      let c := canon l in
      match op with
      | [0; s; e] =>
          lz_eqb out [b2z ((s <? e) && negb (contains_range c s e))] &&
          oracle_from (if s <? e then (true, s, e) :: l else l) i' o'
      | [1; s; e] =>
          if s <? e then
            lz_eqb out (flat (intersections c s e)) && oracle_from ((true, s, e) :: l) i' o'
          else true
      | [3] =>
          match c with
          | [] => lz_eqb out [0] && oracle_from l i' o'
          | (s, e) :: _ => lz_eqb out [1; s; e] && oracle_from ((false, s, e) :: l) i' o'
          end
      | [4] =>
          lz_eqb out match c with [] => [0] | (s, e) :: _ => [1; s; e] end && oracle_from l i' o'
      | [5] =>
          lz_eqb out match c with [] => [0] | (s, e) :: _ => [1; s] end && oracle_from l i' o'
      | [6] => lz_eqb out [b2z match c with [] => true | _ => false end] && oracle_from l i' o'
      | [7] => lz_eqb out (flat c) && oracle_from l i' o'
      | _ => oracle_from l i' o'
      end
  | _, _ => false
  end.

Definition oracle (i : ops) (o : outs) : bool := oracle_from [] i o.
