(** Model of [SentPackets] (quinn-proto/src/connection/sent_packets.rs) — definitions only.

    The ring buffer is abstracted to a finite map: an association list of
    (packet number, (size, ack_eliciting, path_generation)) in strictly increasing packet-number
    order. What remains observable of the ring: the packet number just past the last slot
    ([last + 1], trailing vacated slots are never trimmed), below which an insert into a non-empty
    map trips the debug assertion (PANIC). [last] is also what the hook uses to refuse absurd
    gaps (not executed, [-3]). *)
From Coq Require Import ZArith List Bool.
From QV Require Import Lib.Corr Lib.Chk.
Import ListNotations.
Open Scope Z_scope.

Definition pkt := (Z * Z * Z)%type.           (* size, ack_eliciting, generation *)
Definition p_size (p : pkt) : Z := fst (fst p).
Definition p_ae (p : pkt) : Z := snd (fst p).
Definition p_gen (p : pkt) : Z := snd p.

Definition entries := list (Z * pkt).

Record st := mk { ents : entries; last : option Z }.
Definition empty : st := mk [] None.

Fixpoint lookup (pn : Z) (l : entries) : option pkt :=
  match l with
  | [] => None
  | (k, p) :: l' => if k =? pn then Some p else lookup pn l'
  end.

Fixpoint delete (pn : Z) (l : entries) : entries :=
  match l with
  | [] => []
  | (k, p) :: l' => if k =? pn then l' else (k, p) :: delete pn l'
  end.

Definition has_in_flight (l : entries) : bool := existsb (fun e => negb (p_size (snd e) =? 0)) l.

(** [insert]: [None] = the debug assertion fires. *)
Definition insert (s : st) (pn : Z) (p : pkt) : option st :=
  match ents s with
  | [] => Some (mk [(pn, p)] (Some pn))
  | _ :: _ =>
      match last s with
      | Some l => if pn <=? l then None else Some (mk (ents s ++ [(pn, p)]) (Some pn))
      | None => Some (mk (ents s ++ [(pn, p)]) (Some pn))
      end
  end.

Definition remove (s : st) (pn : Z) : option pkt * st :=
  match lookup pn (ents s) with
  | Some p => (Some p, mk (delete pn (ents s)) (last s))
  | None => (None, s)
  end.

(** [range]: bound kind 0 = Included, 1 = Excluded, 2 = Unbounded. *)
Definition range (s : st) (lk lo hk hi : Z) : entries :=
  match ents s, last s with
  | (off, _) :: _, Some l =>
      let e := l + 1 in
      let lo' := Z.max (if lk =? 0 then lo else if lk =? 1 then sat_add lo 1 else off) off in
      let hi' := Z.min (if hk =? 0 then sat_add hi 1 else if hk =? 1 then hi else e) e in
      filter (fun x => (lo' <=? fst x) && (fst x <? hi')) (ents s)
  | _, _ => []
  end.

Definition first_after (s : st) (n : Z) : option Z :=
  match range s 1 n 2 0 with (k, _) :: _ => Some k | [] => None end.

(** ---- the [sent_packets] component ---- *)
Definition GAP : Z := 4096.

Definition flat (l : entries) : list Z := flat_map (fun e => [fst e; p_size (snd e)]) l.

Definition step (s : st) (op : list Z) : option (st * list Z) :=
  match op with
  | [0; pn; size; ae] =>
      match last s with
      | Some l => if (l <? pn) && (GAP <? pn - l) then Some (s, [-3]) else
                    do s' <- insert s pn (size, b2z (nz ae), 0);
                    Some (s', [0; b2z (has_in_flight (ents s'))])
      | None => do s' <- insert s pn (size, b2z (nz ae), 0);
                Some (s', [0; b2z (has_in_flight (ents s'))])
      end
  | [1; pn] =>
      match remove s pn with
      | (Some p, s') => Some (s', [1; p_size p; p_ae p; b2z (has_in_flight (ents s'))])
      | (None, s') => Some (s', [0; b2z (has_in_flight (ents s'))])
      end
  | [2; pn] =>
      match lookup pn (ents s) with
      | Some p => Some (s, [1; p_size p; p_ae p])
      | None => Some (s, [0])
      end
  | [3; lk; lo; hk; hi] =>
      let r := range s lk lo hk hi in Some (s, Z.of_nat (length r) :: flat r)
  | [4] => Some (empty, Z.of_nat (length (ents s)) :: map (fun e => p_size (snd e)) (ents s))
  | [5; d] =>
      Some (mk (map (fun e => (fst e, (if p_size (snd e) =? 0 then 0 else p_size (snd e) + d,
                                       p_ae (snd e), p_gen (snd e)))) (ents s)) (last s),
            [Z.of_nat (length (ents s))])
  | _ => Some (s, [-1])
  end.

Fixpoint go (s : st) (i : ops) : option outs :=
  match i with
  | [] => Some []
  | op :: i' => do r <- step s op; do rest <- go (fst r) i'; Some (snd r :: rest)
  end.

Definition run (i : ops) : outs := match go empty i with Some r => r | None => [PANIC] end.

(** Oracle on the implementation's outputs, against a plain ledger (no ring details): every
    inserted packet is returned by [remove] exactly once with its size, [get]/[range]/[take] show
    exactly the ledger, and [has_in_flight] holds iff the ledger holds a packet of nonzero size. *)
Fixpoint ledger_ok (l : entries) (i : ops) (o : outs) : bool :=
  match i, o with
  | [], [] => true
  | op :: i', out :: o' =>
      match op with
      | [0; pn; size; ae] =>
          if lz_eqb out [-3] then ledger_ok l i' o'
          else let l' := l ++ [(pn, (size, b2z (nz ae), 0))] in
               lz_eqb out [0; b2z (has_in_flight l')] && ledger_ok l' i' o'
      | [1; pn] =>
          match lookup pn l with
          | Some p => let l' := delete pn l in
                      lz_eqb out [1; p_size p; p_ae p; b2z (has_in_flight l')] && ledger_ok l' i' o'
          | None => lz_eqb out [0; b2z (has_in_flight l)] && ledger_ok l i' o'
          end
      | [2; pn] =>
          match lookup pn l with
          | Some p => lz_eqb out [1; p_size p; p_ae p] && ledger_ok l i' o'
          | None => lz_eqb out [0] && ledger_ok l i' o'
          end
      | [3; lk; lo; hk; hi] =>
          let lo' := if lk =? 0 then lo else if lk =? 1 then lo + 1 else 0 in
          let r := filter (fun x => (lo' <=? fst x) &&
                                    (if hk =? 0 then fst x <=? hi else if hk =? 1 then fst x <? hi else true)) l in
          lz_eqb out (Z.of_nat (length r) :: flat r) && ledger_ok l i' o'
      | [4] => lz_eqb out (Z.of_nat (length l) :: map (fun e => p_size (snd e)) l) && ledger_ok [] i' o'
      | [5; d] =>
          ledger_ok (map (fun e => (fst e, (if p_size (snd e) =? 0 then 0 else p_size (snd e) + d,
                                            p_ae (snd e), p_gen (snd e)))) l) i' o'
      | _ => ledger_ok l i' o'
      end
  | _, _ => false
  end.

Definition oracle (i : ops) (o : outs) : bool :=
  if llz_eqb o [PANIC] then true else ledger_ok [] i o.
