(** Model of the SEND side of [StreamsState] (quinn-proto/src/connection/streams/{state,mod,send}.rs
    and the length/offset behaviour of connection/send_buffer.rs) — definitions only.

    Scope: flow-control credit ([max_data], [data_sent], per-stream [Send.max_data]/offset),
    stream-count credit ([next], [max]), the send window ([unacked_data], [send_window]),
    the pending / connection-blocked / event queues, STREAM frame scheduling
    ([write_stream_frames] with [fair = true], all priorities 0) and the sent-frame log through which
    acknowledgements and losses are delivered.  Stream byte CONTENT is abstracted (lengths only).
    Receive halves are not modelled: remote bidirectional streams [0 .. max_remote_bi) exist from
    the start and their receive half is never freed.

    Rust [u64]/[usize] subtractions that can underflow are checked: [None] = panic (debug build).
    Encoding of operations / observations: see quinn-proto/src/connection/streams/verif_hooks/flow_send.rs. *)
From Coq Require Import ZArith List Bool.
From QV Require Import Lib.Corr.
Import ListNotations.
Open Scope Z_scope.

(** A sent STREAM frame: id, start, end, fin. *)
Definition Frame : Type := (Z * Z * Z * bool)%type.

(** [Send] + the numeric part of its [SendBuffer]: [s_ulen] = [unacked_len],
    [s_acks]/[s_retx] = the two [RangeSet]s as sorted lists of disjoint non-adjacent [start, end).
    [s_state]: 0 Ready, 1 DataSent{finish_acked: false}, 2 DataSent{finish_acked: true}, 3 ResetSent. *)
Record Send := mkSend {
  s_max_data : Z;
  s_offset : Z;
  s_unsent : Z;
  s_ulen : Z;
  s_acks : list (Z * Z);
  s_retx : list (Z * Z);
  s_state : Z;
  s_fin_pending : bool;
  s_cb : bool;
  s_stop : option Z
}.

Definition set_s_max_data (v : Z) (x : Send) : Send :=
  mkSend v (x.(s_offset)) (x.(s_unsent)) (x.(s_ulen)) (x.(s_acks)) (x.(s_retx)) (x.(s_state)) (x.(s_fin_pending)) (x.(s_cb)) (x.(s_stop)).
Definition set_s_offset (v : Z) (x : Send) : Send :=
  mkSend (x.(s_max_data)) v (x.(s_unsent)) (x.(s_ulen)) (x.(s_acks)) (x.(s_retx)) (x.(s_state)) (x.(s_fin_pending)) (x.(s_cb)) (x.(s_stop)).
Definition set_s_unsent (v : Z) (x : Send) : Send :=
  mkSend (x.(s_max_data)) (x.(s_offset)) v (x.(s_ulen)) (x.(s_acks)) (x.(s_retx)) (x.(s_state)) (x.(s_fin_pending)) (x.(s_cb)) (x.(s_stop)).
Definition set_s_ulen (v : Z) (x : Send) : Send :=
  mkSend (x.(s_max_data)) (x.(s_offset)) (x.(s_unsent)) v (x.(s_acks)) (x.(s_retx)) (x.(s_state)) (x.(s_fin_pending)) (x.(s_cb)) (x.(s_stop)).
Definition set_s_acks (v : list (Z * Z)) (x : Send) : Send :=
  mkSend (x.(s_max_data)) (x.(s_offset)) (x.(s_unsent)) (x.(s_ulen)) v (x.(s_retx)) (x.(s_state)) (x.(s_fin_pending)) (x.(s_cb)) (x.(s_stop)).
Definition set_s_retx (v : list (Z * Z)) (x : Send) : Send :=
  mkSend (x.(s_max_data)) (x.(s_offset)) (x.(s_unsent)) (x.(s_ulen)) (x.(s_acks)) v (x.(s_state)) (x.(s_fin_pending)) (x.(s_cb)) (x.(s_stop)).
Definition set_s_state (v : Z) (x : Send) : Send :=
  mkSend (x.(s_max_data)) (x.(s_offset)) (x.(s_unsent)) (x.(s_ulen)) (x.(s_acks)) (x.(s_retx)) v (x.(s_fin_pending)) (x.(s_cb)) (x.(s_stop)).
Definition set_s_fin_pending (v : bool) (x : Send) : Send :=
  mkSend (x.(s_max_data)) (x.(s_offset)) (x.(s_unsent)) (x.(s_ulen)) (x.(s_acks)) (x.(s_retx)) (x.(s_state)) v (x.(s_cb)) (x.(s_stop)).
Definition set_s_cb (v : bool) (x : Send) : Send :=
  mkSend (x.(s_max_data)) (x.(s_offset)) (x.(s_unsent)) (x.(s_ulen)) (x.(s_acks)) (x.(s_retx)) (x.(s_state)) (x.(s_fin_pending)) v (x.(s_stop)).
Definition set_s_stop (v : option Z) (x : Send) : Send :=
  mkSend (x.(s_max_data)) (x.(s_offset)) (x.(s_unsent)) (x.(s_ulen)) (x.(s_acks)) (x.(s_retx)) (x.(s_state)) (x.(s_fin_pending)) (x.(s_cb)) v.

(** [connection_blocked] is kept as a stack (head = last pushed, [Vec::pop] takes the head);
    [pendq] is the pending queue in pop order (all priorities equal: FIFO by recency);
    [events] holds encoded [StreamEvent]s ([2;id] Writable, [3;id] Finished, [4;id;code] Stopped,
    [5;dir] Available); [log] is the sent-frame log of the harness (live entries are [Some]). *)
Record State := mkState {
  side : Z;
  max_remote_bi : Z;
  next_bi : Z;
  next_uni : Z;
  max_bi : Z;
  max_uni : Z;
  max_data : Z;
  data_sent : Z;
  unacked_data : Z;
  send_window : Z;
  send_streams : Z;
  sd_uni : Z;
  sd_bidi_local : Z;
  sd_bidi_remote : Z;
  blocked_bi : bool;
  blocked_uni : bool;
  send : list (Z * option Send);
  conn_blocked : list Z;
  pendq : list Z;
  events : list (list Z);
  opened_bi : bool;
  next_remote_bi : Z;
  next_reported_bi : Z;
  log : list (option Frame)
}.

Definition set_side (v : Z) (s : State) : State :=
  mkState v (s.(max_remote_bi)) (s.(next_bi)) (s.(next_uni)) (s.(max_bi)) (s.(max_uni)) (s.(max_data)) (s.(data_sent)) (s.(unacked_data)) (s.(send_window)) (s.(send_streams)) (s.(sd_uni)) (s.(sd_bidi_local)) (s.(sd_bidi_remote)) (s.(blocked_bi)) (s.(blocked_uni)) (s.(send)) (s.(conn_blocked)) (s.(pendq)) (s.(events)) (s.(opened_bi)) (s.(next_remote_bi)) (s.(next_reported_bi)) (s.(log)).
Definition set_max_remote_bi (v : Z) (s : State) : State :=
  mkState (s.(side)) v (s.(next_bi)) (s.(next_uni)) (s.(max_bi)) (s.(max_uni)) (s.(max_data)) (s.(data_sent)) (s.(unacked_data)) (s.(send_window)) (s.(send_streams)) (s.(sd_uni)) (s.(sd_bidi_local)) (s.(sd_bidi_remote)) (s.(blocked_bi)) (s.(blocked_uni)) (s.(send)) (s.(conn_blocked)) (s.(pendq)) (s.(events)) (s.(opened_bi)) (s.(next_remote_bi)) (s.(next_reported_bi)) (s.(log)).
Definition set_next_bi (v : Z) (s : State) : State :=
  mkState (s.(side)) (s.(max_remote_bi)) v (s.(next_uni)) (s.(max_bi)) (s.(max_uni)) (s.(max_data)) (s.(data_sent)) (s.(unacked_data)) (s.(send_window)) (s.(send_streams)) (s.(sd_uni)) (s.(sd_bidi_local)) (s.(sd_bidi_remote)) (s.(blocked_bi)) (s.(blocked_uni)) (s.(send)) (s.(conn_blocked)) (s.(pendq)) (s.(events)) (s.(opened_bi)) (s.(next_remote_bi)) (s.(next_reported_bi)) (s.(log)).
Definition set_next_uni (v : Z) (s : State) : State :=
  mkState (s.(side)) (s.(max_remote_bi)) (s.(next_bi)) v (s.(max_bi)) (s.(max_uni)) (s.(max_data)) (s.(data_sent)) (s.(unacked_data)) (s.(send_window)) (s.(send_streams)) (s.(sd_uni)) (s.(sd_bidi_local)) (s.(sd_bidi_remote)) (s.(blocked_bi)) (s.(blocked_uni)) (s.(send)) (s.(conn_blocked)) (s.(pendq)) (s.(events)) (s.(opened_bi)) (s.(next_remote_bi)) (s.(next_reported_bi)) (s.(log)).
Definition set_max_bi (v : Z) (s : State) : State :=
  mkState (s.(side)) (s.(max_remote_bi)) (s.(next_bi)) (s.(next_uni)) v (s.(max_uni)) (s.(max_data)) (s.(data_sent)) (s.(unacked_data)) (s.(send_window)) (s.(send_streams)) (s.(sd_uni)) (s.(sd_bidi_local)) (s.(sd_bidi_remote)) (s.(blocked_bi)) (s.(blocked_uni)) (s.(send)) (s.(conn_blocked)) (s.(pendq)) (s.(events)) (s.(opened_bi)) (s.(next_remote_bi)) (s.(next_reported_bi)) (s.(log)).
Definition set_max_uni (v : Z) (s : State) : State :=
  mkState (s.(side)) (s.(max_remote_bi)) (s.(next_bi)) (s.(next_uni)) (s.(max_bi)) v (s.(max_data)) (s.(data_sent)) (s.(unacked_data)) (s.(send_window)) (s.(send_streams)) (s.(sd_uni)) (s.(sd_bidi_local)) (s.(sd_bidi_remote)) (s.(blocked_bi)) (s.(blocked_uni)) (s.(send)) (s.(conn_blocked)) (s.(pendq)) (s.(events)) (s.(opened_bi)) (s.(next_remote_bi)) (s.(next_reported_bi)) (s.(log)).
Definition set_max_data (v : Z) (s : State) : State :=
  mkState (s.(side)) (s.(max_remote_bi)) (s.(next_bi)) (s.(next_uni)) (s.(max_bi)) (s.(max_uni)) v (s.(data_sent)) (s.(unacked_data)) (s.(send_window)) (s.(send_streams)) (s.(sd_uni)) (s.(sd_bidi_local)) (s.(sd_bidi_remote)) (s.(blocked_bi)) (s.(blocked_uni)) (s.(send)) (s.(conn_blocked)) (s.(pendq)) (s.(events)) (s.(opened_bi)) (s.(next_remote_bi)) (s.(next_reported_bi)) (s.(log)).
Definition set_data_sent (v : Z) (s : State) : State :=
  mkState (s.(side)) (s.(max_remote_bi)) (s.(next_bi)) (s.(next_uni)) (s.(max_bi)) (s.(max_uni)) (s.(max_data)) v (s.(unacked_data)) (s.(send_window)) (s.(send_streams)) (s.(sd_uni)) (s.(sd_bidi_local)) (s.(sd_bidi_remote)) (s.(blocked_bi)) (s.(blocked_uni)) (s.(send)) (s.(conn_blocked)) (s.(pendq)) (s.(events)) (s.(opened_bi)) (s.(next_remote_bi)) (s.(next_reported_bi)) (s.(log)).
Definition set_unacked_data (v : Z) (s : State) : State :=
  mkState (s.(side)) (s.(max_remote_bi)) (s.(next_bi)) (s.(next_uni)) (s.(max_bi)) (s.(max_uni)) (s.(max_data)) (s.(data_sent)) v (s.(send_window)) (s.(send_streams)) (s.(sd_uni)) (s.(sd_bidi_local)) (s.(sd_bidi_remote)) (s.(blocked_bi)) (s.(blocked_uni)) (s.(send)) (s.(conn_blocked)) (s.(pendq)) (s.(events)) (s.(opened_bi)) (s.(next_remote_bi)) (s.(next_reported_bi)) (s.(log)).
Definition set_send_window (v : Z) (s : State) : State :=
  mkState (s.(side)) (s.(max_remote_bi)) (s.(next_bi)) (s.(next_uni)) (s.(max_bi)) (s.(max_uni)) (s.(max_data)) (s.(data_sent)) (s.(unacked_data)) v (s.(send_streams)) (s.(sd_uni)) (s.(sd_bidi_local)) (s.(sd_bidi_remote)) (s.(blocked_bi)) (s.(blocked_uni)) (s.(send)) (s.(conn_blocked)) (s.(pendq)) (s.(events)) (s.(opened_bi)) (s.(next_remote_bi)) (s.(next_reported_bi)) (s.(log)).
Definition set_send_streams (v : Z) (s : State) : State :=
  mkState (s.(side)) (s.(max_remote_bi)) (s.(next_bi)) (s.(next_uni)) (s.(max_bi)) (s.(max_uni)) (s.(max_data)) (s.(data_sent)) (s.(unacked_data)) (s.(send_window)) v (s.(sd_uni)) (s.(sd_bidi_local)) (s.(sd_bidi_remote)) (s.(blocked_bi)) (s.(blocked_uni)) (s.(send)) (s.(conn_blocked)) (s.(pendq)) (s.(events)) (s.(opened_bi)) (s.(next_remote_bi)) (s.(next_reported_bi)) (s.(log)).
Definition set_sd_uni (v : Z) (s : State) : State :=
  mkState (s.(side)) (s.(max_remote_bi)) (s.(next_bi)) (s.(next_uni)) (s.(max_bi)) (s.(max_uni)) (s.(max_data)) (s.(data_sent)) (s.(unacked_data)) (s.(send_window)) (s.(send_streams)) v (s.(sd_bidi_local)) (s.(sd_bidi_remote)) (s.(blocked_bi)) (s.(blocked_uni)) (s.(send)) (s.(conn_blocked)) (s.(pendq)) (s.(events)) (s.(opened_bi)) (s.(next_remote_bi)) (s.(next_reported_bi)) (s.(log)).
Definition set_sd_bidi_local (v : Z) (s : State) : State :=
  mkState (s.(side)) (s.(max_remote_bi)) (s.(next_bi)) (s.(next_uni)) (s.(max_bi)) (s.(max_uni)) (s.(max_data)) (s.(data_sent)) (s.(unacked_data)) (s.(send_window)) (s.(send_streams)) (s.(sd_uni)) v (s.(sd_bidi_remote)) (s.(blocked_bi)) (s.(blocked_uni)) (s.(send)) (s.(conn_blocked)) (s.(pendq)) (s.(events)) (s.(opened_bi)) (s.(next_remote_bi)) (s.(next_reported_bi)) (s.(log)).
Definition set_sd_bidi_remote (v : Z) (s : State) : State :=
  mkState (s.(side)) (s.(max_remote_bi)) (s.(next_bi)) (s.(next_uni)) (s.(max_bi)) (s.(max_uni)) (s.(max_data)) (s.(data_sent)) (s.(unacked_data)) (s.(send_window)) (s.(send_streams)) (s.(sd_uni)) (s.(sd_bidi_local)) v (s.(blocked_bi)) (s.(blocked_uni)) (s.(send)) (s.(conn_blocked)) (s.(pendq)) (s.(events)) (s.(opened_bi)) (s.(next_remote_bi)) (s.(next_reported_bi)) (s.(log)).
Definition set_blocked_bi (v : bool) (s : State) : State :=
  mkState (s.(side)) (s.(max_remote_bi)) (s.(next_bi)) (s.(next_uni)) (s.(max_bi)) (s.(max_uni)) (s.(max_data)) (s.(data_sent)) (s.(unacked_data)) (s.(send_window)) (s.(send_streams)) (s.(sd_uni)) (s.(sd_bidi_local)) (s.(sd_bidi_remote)) v (s.(blocked_uni)) (s.(send)) (s.(conn_blocked)) (s.(pendq)) (s.(events)) (s.(opened_bi)) (s.(next_remote_bi)) (s.(next_reported_bi)) (s.(log)).
Definition set_blocked_uni (v : bool) (s : State) : State :=
  mkState (s.(side)) (s.(max_remote_bi)) (s.(next_bi)) (s.(next_uni)) (s.(max_bi)) (s.(max_uni)) (s.(max_data)) (s.(data_sent)) (s.(unacked_data)) (s.(send_window)) (s.(send_streams)) (s.(sd_uni)) (s.(sd_bidi_local)) (s.(sd_bidi_remote)) (s.(blocked_bi)) v (s.(send)) (s.(conn_blocked)) (s.(pendq)) (s.(events)) (s.(opened_bi)) (s.(next_remote_bi)) (s.(next_reported_bi)) (s.(log)).
Definition set_send (v : list (Z * option Send)) (s : State) : State :=
  mkState (s.(side)) (s.(max_remote_bi)) (s.(next_bi)) (s.(next_uni)) (s.(max_bi)) (s.(max_uni)) (s.(max_data)) (s.(data_sent)) (s.(unacked_data)) (s.(send_window)) (s.(send_streams)) (s.(sd_uni)) (s.(sd_bidi_local)) (s.(sd_bidi_remote)) (s.(blocked_bi)) (s.(blocked_uni)) v (s.(conn_blocked)) (s.(pendq)) (s.(events)) (s.(opened_bi)) (s.(next_remote_bi)) (s.(next_reported_bi)) (s.(log)).
Definition set_conn_blocked (v : list Z) (s : State) : State :=
  mkState (s.(side)) (s.(max_remote_bi)) (s.(next_bi)) (s.(next_uni)) (s.(max_bi)) (s.(max_uni)) (s.(max_data)) (s.(data_sent)) (s.(unacked_data)) (s.(send_window)) (s.(send_streams)) (s.(sd_uni)) (s.(sd_bidi_local)) (s.(sd_bidi_remote)) (s.(blocked_bi)) (s.(blocked_uni)) (s.(send)) v (s.(pendq)) (s.(events)) (s.(opened_bi)) (s.(next_remote_bi)) (s.(next_reported_bi)) (s.(log)).
Definition set_pendq (v : list Z) (s : State) : State :=
  mkState (s.(side)) (s.(max_remote_bi)) (s.(next_bi)) (s.(next_uni)) (s.(max_bi)) (s.(max_uni)) (s.(max_data)) (s.(data_sent)) (s.(unacked_data)) (s.(send_window)) (s.(send_streams)) (s.(sd_uni)) (s.(sd_bidi_local)) (s.(sd_bidi_remote)) (s.(blocked_bi)) (s.(blocked_uni)) (s.(send)) (s.(conn_blocked)) v (s.(events)) (s.(opened_bi)) (s.(next_remote_bi)) (s.(next_reported_bi)) (s.(log)).
Definition set_events (v : list (list Z)) (s : State) : State :=
  mkState (s.(side)) (s.(max_remote_bi)) (s.(next_bi)) (s.(next_uni)) (s.(max_bi)) (s.(max_uni)) (s.(max_data)) (s.(data_sent)) (s.(unacked_data)) (s.(send_window)) (s.(send_streams)) (s.(sd_uni)) (s.(sd_bidi_local)) (s.(sd_bidi_remote)) (s.(blocked_bi)) (s.(blocked_uni)) (s.(send)) (s.(conn_blocked)) (s.(pendq)) v (s.(opened_bi)) (s.(next_remote_bi)) (s.(next_reported_bi)) (s.(log)).
Definition set_opened_bi (v : bool) (s : State) : State :=
  mkState (s.(side)) (s.(max_remote_bi)) (s.(next_bi)) (s.(next_uni)) (s.(max_bi)) (s.(max_uni)) (s.(max_data)) (s.(data_sent)) (s.(unacked_data)) (s.(send_window)) (s.(send_streams)) (s.(sd_uni)) (s.(sd_bidi_local)) (s.(sd_bidi_remote)) (s.(blocked_bi)) (s.(blocked_uni)) (s.(send)) (s.(conn_blocked)) (s.(pendq)) (s.(events)) v (s.(next_remote_bi)) (s.(next_reported_bi)) (s.(log)).
Definition set_next_remote_bi (v : Z) (s : State) : State :=
  mkState (s.(side)) (s.(max_remote_bi)) (s.(next_bi)) (s.(next_uni)) (s.(max_bi)) (s.(max_uni)) (s.(max_data)) (s.(data_sent)) (s.(unacked_data)) (s.(send_window)) (s.(send_streams)) (s.(sd_uni)) (s.(sd_bidi_local)) (s.(sd_bidi_remote)) (s.(blocked_bi)) (s.(blocked_uni)) (s.(send)) (s.(conn_blocked)) (s.(pendq)) (s.(events)) (s.(opened_bi)) v (s.(next_reported_bi)) (s.(log)).
Definition set_next_reported_bi (v : Z) (s : State) : State :=
  mkState (s.(side)) (s.(max_remote_bi)) (s.(next_bi)) (s.(next_uni)) (s.(max_bi)) (s.(max_uni)) (s.(max_data)) (s.(data_sent)) (s.(unacked_data)) (s.(send_window)) (s.(send_streams)) (s.(sd_uni)) (s.(sd_bidi_local)) (s.(sd_bidi_remote)) (s.(blocked_bi)) (s.(blocked_uni)) (s.(send)) (s.(conn_blocked)) (s.(pendq)) (s.(events)) (s.(opened_bi)) (s.(next_remote_bi)) v (s.(log)).
Definition set_log (v : list (option Frame)) (s : State) : State :=
  mkState (s.(side)) (s.(max_remote_bi)) (s.(next_bi)) (s.(next_uni)) (s.(max_bi)) (s.(max_uni)) (s.(max_data)) (s.(data_sent)) (s.(unacked_data)) (s.(send_window)) (s.(send_streams)) (s.(sd_uni)) (s.(sd_bidi_local)) (s.(sd_bidi_remote)) (s.(blocked_bi)) (s.(blocked_uni)) (s.(send)) (s.(conn_blocked)) (s.(pendq)) (s.(events)) (s.(opened_bi)) (s.(next_remote_bi)) (s.(next_reported_bi)) v.

(* ------------------------------------------------------------------------------------------ *)
(** ** Small helpers *)

Definition is_varint (x : Z) : bool := (0 <=? x) && (x <? 2 ^ 62).

(** [VarInt::size] *)
Definition vsize (x : Z) : Z :=
  if x <? 2 ^ 6 then 1 else if x <? 2 ^ 14 then 2 else if x <? 2 ^ 30 then 4 else 8.

(** [StreamId::new(initiator, dir, index)]; [Dir::Bi = 0], [Dir::Uni = 1]; [Side::Client = 0]. *)
Definition sid (init dir idx : Z) : Z := idx * 4 + dir * 2 + init.
Definition id_init (id : Z) : Z := id mod 2.
Definition id_dir (id : Z) : Z := (id / 2) mod 2.
Definition id_index (id : Z) : Z := id / 4.
Definition norm_dir (d : Z) : Z := if d =? 0 then 0 else 1.
Definition norm_side (x : Z) : Z := if x =? 0 then 0 else 1.

(** ** [RangeSet] as a sorted list of disjoint, non-adjacent ranges *)
Fixpoint rs_insert (a b : Z) (l : list (Z * Z)) : list (Z * Z) :=
  match l with
  | [] => [(a, b)]
  | (s, e) :: t =>
      if e <? a then (s, e) :: rs_insert a b t
      else if b <? s then (a, b) :: l
      else rs_insert (Z.min a s) (Z.max b e) t
  end.
(** [RangeSet::insert]: empty ranges are ignored. *)
Definition rs_add (a b : Z) (l : list (Z * Z)) : list (Z * Z) :=
  if a <? b then rs_insert a b l else l.
Fixpoint rs_total (l : list (Z * Z)) : Z :=
  match l with [] => 0 | (s, e) :: t => (e - s) + rs_total t end.

(** ** The stream map (sorted by id) *)
Definition SMap := list (Z * option Send).
Fixpoint lookup (id : Z) (m : SMap) : option (option Send) :=
  match m with
  | [] => None
  | (k, v) :: t => if k =? id then Some v else lookup id t
  end.
Fixpoint update (id : Z) (v : option Send) (m : SMap) : SMap :=
  match m with
  | [] => []
  | (k, w) :: t => if k =? id then (k, v) :: t else (k, w) :: update id v t
  end.
Fixpoint remove (id : Z) (m : SMap) : SMap :=
  match m with
  | [] => []
  | (k, w) :: t => if k =? id then t else (k, w) :: remove id t
  end.
Fixpoint insert (id : Z) (v : option Send) (m : SMap) : SMap :=
  match m with
  | [] => [(id, v)]
  | (k, w) :: t => if id <? k then (id, v) :: m else (k, w) :: insert id v t
  end.

Definition new_send (md : Z) : Send := mkSend md 0 0 0 [] [] 0 false false None.

Definition is_nil {A} (l : list A) : bool := match l with [] => true | _ => false end.

(** [Send::is_pending] = [pending.has_unsent_data() || fin_pending] *)
Definition is_pending (x : Send) : bool :=
  negb (x.(s_unsent) =? x.(s_offset)) || negb (is_nil x.(s_retx)) || x.(s_fin_pending).

(** [SendBuffer::unacked]: checked subtraction. *)
Definition sb_unacked (x : Send) : option Z :=
  let a := rs_total x.(s_acks) in
  if x.(s_ulen) <? a then None else Some (x.(s_ulen) - a).

(** Pop acknowledged prefixes: [while acks.min() == Some(base)]. *)
Fixpoint pop_acked (base ulen : Z) (acks : list (Z * Z)) : option (Z * list (Z * Z)) :=
  match acks with
  | (s, e) :: t =>
      if s =? base then
        (if e - s <=? ulen then pop_acked e (ulen - (e - s)) t else None)
      else Some (ulen, acks)
  | [] => Some (ulen, [])
  end.

(** [SendBuffer::ack(a..b)] *)
Definition sb_ack (a b : Z) (x : Send) : option Send :=
  let base := x.(s_offset) - x.(s_ulen) in
  let a' := Z.max base a in
  let b' := Z.max base b in
  match pop_acked base x.(s_ulen) (rs_add a' b' x.(s_acks)) with
  | Some (ulen, acks) => Some (set_s_acks acks (set_s_ulen ulen x))
  | None => None
  end.

(** [SendBuffer::poll_transmit(max_len)] -> (start, end, encode_length, buffer') *)
Definition poll_transmit (max_len : Z) (x : Send) : Z * Z * bool * Send :=
  match x.(s_retx) with
  | (rs, re) :: t =>
      let m1 := if rs =? 0 then max_len else max_len - vsize rs in
      let enc := re - rs <? m1 in
      let m2 := if enc then m1 - 8 else m1 in
      let e := Z.min re (m2 + rs) in
      let retx := if e =? re then t else rs_add e re t in
      (rs, e, enc, set_s_retx retx x)
  | [] =>
      let u := x.(s_unsent) in
      let m1 := if u =? 0 then max_len else max_len - vsize u in
      let enc := x.(s_offset) - u <? m1 in
      let m2 := if enc then m1 - 8 else m1 in
      let e := Z.min x.(s_offset) (m2 + u) in
      (u, e, enc, set_s_unsent e x)
  end.

(* ------------------------------------------------------------------------------------------ *)
(** ** State helpers *)

Definition get_next (d : Z) (s : State) : Z := if d =? 0 then s.(next_bi) else s.(next_uni).
Definition get_max (d : Z) (s : State) : Z := if d =? 0 then s.(max_bi) else s.(max_uni).
Definition set_next (d v : Z) (s : State) : State := if d =? 0 then set_next_bi v s else set_next_uni v s.
Definition set_max (d v : Z) (s : State) : State := if d =? 0 then set_max_bi v s else set_max_uni v s.
Definition set_blocked (d : Z) (v : bool) (s : State) : State :=
  if d =? 0 then set_blocked_bi v s else set_blocked_uni v s.

(** [StreamsState::max_send_data] *)
Definition max_send_data (s : State) (id : Z) : Z :=
  if id_dir id =? 1 then s.(sd_uni)
  else if id_init id =? s.(side) then s.(sd_bidi_remote)
  else s.(sd_bidi_local).

(** [StreamsState::write_limit]; [None] = underflow of [max_data - data_sent]. *)
Definition write_limit (s : State) : option Z :=
  if s.(max_data) <? s.(data_sent) then None
  else Some (Z.min (s.(max_data) - s.(data_sent)) (Z.max 0 (s.(send_window) - s.(unacked_data)))).

(** [send.get_mut(&id).map(get_or_insert_send(max_send_data))] *)
Definition touch (id : Z) (s : State) : option (Send * State) :=
  match lookup id s.(send) with
  | None => None
  | Some (Some x) => Some (x, s)
  | Some None =>
      let x := new_send (max_send_data s id) in
      Some (x, set_send (update id (Some x) s.(send)) s)
  end.
Definition put (id : Z) (x : Send) (s : State) : State :=
  set_send (update id (Some x) s.(send)) s.
Definition push_pending (id : Z) (s : State) : State := set_pendq (s.(pendq) ++ [id]) s.

(** Remote bidirectional streams [0 .. n) of the peer of [side]. *)
Fixpoint remote_bi (side : Z) (n : nat) (m : SMap) : SMap :=
  match n with
  | O => m
  | S k => insert (sid (1 - side) 0 (Z.of_nat k)) None (remote_bi side k m)
  end.

(** [StreamsState::new(side, max_remote_uni, max_remote_bi, send_window, ..)] *)
Definition init (sd mrb sw : Z) : State :=
  mkState sd mrb 0 0 0 0 0 0 0 sw 0 0 0 0 false false
          (remote_bi sd (Z.to_nat mrb) []) [] [] [] false 0 0 [].

Definition summary (s : State) : list Z :=
  [s.(next_bi); s.(next_uni); s.(max_bi); s.(max_uni); s.(max_data); s.(data_sent);
   s.(unacked_data); s.(send_streams)].

Definition b2z (b : bool) : Z := if b then 1 else 0.

Definition obs_send (kv : Z * option Send) : option (list Z) :=
  let '(id, v) := kv in
  match v with
  | None => Some [id; 0; 0; 0; 0; 0; 0; 0; 0; 0; 0]
  | Some x =>
      match sb_unacked x with
      | None => None
      | Some u =>
          Some [id; 1; x.(s_max_data); x.(s_offset);
                x.(s_state); b2z x.(s_fin_pending); b2z x.(s_cb);
                match x.(s_stop) with None => -1 | Some c => c end;
                u; b2z (negb (x.(s_unsent) =? x.(s_offset)) || negb (is_nil x.(s_retx)));
                b2z (x.(s_ulen) =? 0)]
      end
  end.

Fixpoint obs_sends (m : SMap) : option (list Z) :=
  match m with
  | [] => Some []
  | kv :: t =>
      match obs_send kv, obs_sends t with
      | Some a, Some b => Some (a ++ b)
      | _, _ => None
      end
  end.

(** The full projection (op 19); [None] = one of the real accessors panics. *)
Definition observe (s : State) : option (list Z) :=
  match write_limit s, obs_sends s.(send) with
  | Some wl, Some ss =>
      Some ([s.(send_window); wl; b2z s.(blocked_bi); b2z s.(blocked_uni);
             Z.of_nat (length s.(events)); b2z s.(opened_bi); 0;
             s.(next_remote_bi); s.(next_reported_bi);
             s.(sd_uni); s.(sd_bidi_local); s.(sd_bidi_remote)]
            ++ [Z.of_nat (length s.(conn_blocked))] ++ rev s.(conn_blocked)
            ++ [Z.of_nat (length s.(pendq))] ++ s.(pendq)
            ++ [Z.of_nat (length s.(send))] ++ ss)
  | _, _ => None
  end.

(* ------------------------------------------------------------------------------------------ *)
(** ** Operations.  Result: [None] = panic, [Some (s', result)]. *)
Definition R : Type := option (State * list Z).
Definition ok (s : State) (r : list Z) : R := Some (s, r).

Record Params := mkParams {
  p_max_data : Z; p_streams_bidi : Z; p_streams_uni : Z;
  p_sd_bidi_local : Z; p_sd_bidi_remote : Z; p_sd_uni : Z }.

Definition params_valid (p : Params) : bool :=
  is_varint p.(p_max_data) && is_varint p.(p_streams_bidi) && is_varint p.(p_streams_uni)
  && is_varint p.(p_sd_bidi_local) && is_varint p.(p_sd_bidi_remote) && is_varint p.(p_sd_uni).

(** [set_params]: the loop over remote bidirectional streams SETS the limit of every existing
    [Send] to [initial_max_stream_data_bidi_local]. *)
Definition set_remote_limits (sd lim : Z) (m : SMap) : SMap :=
  map (fun kv : Z * option Send =>
         let '(id, v) := kv in
         match v with
         | Some x =>
             if (id_dir id =? 0) && negb (id_init id =? sd) then (id, Some (set_s_max_data lim x))
             else kv
         | None => kv
         end) m.

Definition do_set_params (p : Params) (s : State) : State :=
  let s := set_sd_uni p.(p_sd_uni) s in
  let s := set_sd_bidi_local p.(p_sd_bidi_local) s in
  let s := set_sd_bidi_remote p.(p_sd_bidi_remote) s in
  let s := set_max_bi p.(p_streams_bidi) s in
  let s := set_max_uni p.(p_streams_uni) s in
  let s := set_max_data (Z.max s.(max_data) p.(p_max_data)) s in
  set_send (set_remote_limits s.(side) p.(p_sd_bidi_local) s.(send)) s.

(** [Streams::open] *)
Definition do_open (d : Z) (s : State) : R :=
  let d := norm_dir d in
  if get_max d s <=? get_next d s then ok (set_blocked d true s) [1]
  else
    let id := sid s.(side) d (get_next d s) in
    match lookup id s.(send) with
    | Some _ => None (* assert!(self.send.insert(id, None).is_none()) *)
    | None =>
        let s := set_next d (get_next d s + 1) s in
        let s := set_send (insert id None s.(send)) s in
        ok (set_send_streams (s.(send_streams) + 1) s) [0; id]
    end.

(** [Streams::accept] (only bidirectional remote streams can have been opened in this model). *)
Definition do_accept (d : Z) (s : State) : R :=
  if norm_dir d =? 0 then
    if s.(next_remote_bi) =? s.(next_reported_bi) then ok s [1]
    else
      let x := s.(next_reported_bi) in
      let s := set_next_reported_bi (x + 1) s in
      ok (set_send_streams (s.(send_streams) + 1) s) [0; sid (1 - s.(side)) 0 x]
  else ok s [1].

(** [SendStream::write] of [n] bytes *)
Definition do_write (id n : Z) (s : State) : R :=
  match write_limit s with
  | None => None
  | Some limit =>
      match touch id s with
      | None => ok s [3]
      | Some (x, s) =>
          if limit =? 0 then
            if x.(s_cb) then ok s [1]
            else ok (set_conn_blocked (id :: s.(conn_blocked)) (put id (set_s_cb true x) s)) [1]
          else if negb (x.(s_state) =? 0) then ok s [3]
          else match x.(s_stop) with
          | Some c => ok s [2; c]
          | None =>
              if x.(s_max_data) <? x.(s_offset) then None
              else
                let budget := x.(s_max_data) - x.(s_offset) in
                if budget =? 0 then ok s [1]
                else
                  let w := Z.min n (Z.min limit budget) in
                  let x' := set_s_ulen (x.(s_ulen) + w) (set_s_offset (x.(s_offset) + w) x) in
                  let s := put id x' s in
                  let s := set_data_sent (s.(data_sent) + w) s in
                  let s := set_unacked_data (s.(unacked_data) + w) s in
                  let s := if is_pending x then s else push_pending id s in
                  ok s [0; w]
          end
      end
  end.

(** [SendStream::finish] *)
Definition do_finish (id : Z) (s : State) : R :=
  match touch id s with
  | None => ok s [2]
  | Some (x, s) =>
      match x.(s_stop) with
      | Some c => ok s [1; c]
      | None =>
          if x.(s_state) =? 0 then
            let x' := set_s_fin_pending true (set_s_state 1 x) in
            let s := put id x' s in
            ok (if is_pending x then s else push_pending id s) [0]
          else ok s [2]
      end
  end.

(** [SendStream::reset] *)
Definition do_reset (id : Z) (s : State) : R :=
  match touch id s with
  | None => ok s [1]
  | Some (x, s) =>
      if x.(s_state) =? 3 then ok s [1]
      else
        match sb_unacked x with
        | None => None
        | Some u =>
            if s.(unacked_data) <? u then None
            else
              let s := set_unacked_data (s.(unacked_data) - u) s in
              ok (put id (set_s_state 3 x) s) [0]
        end
  end.

(** [received_max_data] *)
Definition do_max_data (v : Z) (s : State) : State := set_max_data (Z.max s.(max_data) v) s.

(** [on_stream_frame(false, id)] *)
Definition on_stream_frame (id : Z) (s : State) : State :=
  if id_init id =? s.(side) then s
  else if id_dir id =? 0 then
    if s.(next_remote_bi) <=? id_index id then
      set_opened_bi true (set_next_remote_bi (id_index id + 1) s)
    else s
  else s.

(** [received_max_stream_data] *)
Definition do_max_stream_data (id v : Z) (s : State) : R :=
  if negb (id_init id =? s.(side)) && (id_dir id =? 1) then ok s [1]
  else
    match write_limit s with
    | None => None
    | Some wl =>
        match touch id s with
        | Some (x, s) =>
            let s :=
              if (x.(s_max_data) <? v) && (x.(s_state) =? 0) then
                let was_blocked := x.(s_offset) =? x.(s_max_data) in
                let x := set_s_max_data v x in
                if was_blocked then
                  if 0 <? wl then set_events (s.(events) ++ [[2; id]]) (put id x s)
                  else if x.(s_cb) then put id x s
                  else set_conn_blocked (id :: s.(conn_blocked)) (put id (set_s_cb true x) s)
                else put id x s
              else s in
            ok (on_stream_frame id s) [0]
        | None =>
            if (id_init id =? s.(side)) && (get_next (id_dir id) s <=? id_index id) then ok s [2]
            else ok (on_stream_frame id s) [0]
        end
    end.

(** [received_max_streams]; [msc] = [MAX_STREAM_COUNT]. *)
Definition do_max_streams (msc d count : Z) (s : State) : R :=
  let d := norm_dir d in
  if msc <? count then ok s [1]
  else if get_max d s <? count then
    ok (set_events (s.(events) ++ [[5; d]]) (set_blocked d false (set_max d count s))) [0]
  else ok s [0].

(** [received_stop_sending] *)
Definition do_stop_sending (id code : Z) (s : State) : State :=
  match touch id s with
  | None => s
  | Some (x, s) =>
      match x.(s_stop) with
      | Some _ => s
      | None =>
          on_stream_frame id
            (set_events (s.(events) ++ [[4; id; code]]) (put id (set_s_stop (Some code) x) s))
      end
  end.

(** [stream_freed(id, StreamHalf::Send)]: the receive half of a remote stream is never freed
    here, so only [send_streams] changes (checked). *)
Definition stream_freed (s : State) : option State :=
  if s.(send_streams) <? 1 then None else Some (set_send_streams (s.(send_streams) - 1) s).

(** [reset_acked] *)
Definition do_reset_acked (id : Z) (s : State) : R :=
  match lookup id s.(send) with
  | Some (Some x) =>
      if x.(s_state) =? 3 then
        match stream_freed (set_send (remove id s.(send)) s) with
        | Some s => ok s [0]
        | None => None
        end
      else ok s [0]
  | _ => ok s [0]
  end.

(** [received_ack_of] *)
Definition do_ack (f : Frame) (s : State) : R :=
  let '(id, a, b, fin) := f in
  match lookup id s.(send) with
  | Some (Some x) =>
      if x.(s_state) =? 3 then ok s [0]
      else if b <? a then None
      else if s.(unacked_data) <? b - a then None
      else
        let s := set_unacked_data (s.(unacked_data) - (b - a)) s in
        match sb_ack a b x with
        | None => None
        | Some x =>
            if (x.(s_state) =? 1) || (x.(s_state) =? 2) then
              let fa := (x.(s_state) =? 2) || fin in
              let x := set_s_state (if fa then 2 else 1) x in
              if fa && (x.(s_ulen) =? 0) then
                match stream_freed (set_send (remove id s.(send)) s) with
                | Some s => ok (set_events (s.(events) ++ [[3; id]]) s) [0]
                | None => None
                end
              else ok (put id x s) [0]
            else ok (put id x s) [0]
        end
  | _ => ok s [0]
  end.

(** [retransmit] (a sent frame was declared lost) *)
Definition do_lost (f : Frame) (s : State) : R :=
  let '(id, a, b, fin) := f in
  match lookup id s.(send) with
  | Some (Some x) =>
      if x.(s_unsent) <? b then None (* debug_assert!(range.end <= self.unsent) *)
      else
        let s := if is_pending x then s else push_pending id s in
        let x := set_s_retx (rs_add a b x.(s_retx)) (set_s_fin_pending (x.(s_fin_pending) || fin) x) in
        ok (put id x s) [0]
  | _ => ok s [0]
  end.

Fixpoint log_get (k : nat) (l : list (option Frame)) : option (Frame * list (option Frame)) :=
  match l, k with
  | [], _ => None
  | Some f :: t, O => Some (f, None :: t)
  | None :: _, O => None
  | e :: t, S k' =>
      match log_get k' t with
      | Some (f, t') => Some (f, e :: t')
      | None => None
      end
  end.

Definition do_log (ack : bool) (k : Z) (s : State) : R :=
  if k <? 0 then ok s [1]
  else
    match log_get (Z.to_nat k) s.(log) with
    | None => ok s [1]
    | Some (f, l) => (if ack then do_ack else do_lost) f (set_log l s)
    end.

(** [write_stream_frames(buf, maxb, fair = true)] *)
Fixpoint tx_loop (fuel : nat) (maxb buf : Z) (s : State) (acc : list Frame)
  : State * Z * list Frame * bool :=
  match fuel with
  | O => (s, buf, acc, false)
  | S fuel' =>
      if buf + 25 <? maxb then
        match s.(pendq) with
        | [] => (s, buf, acc, true)
        | id :: q =>
            let s1 := set_pendq q s in
            match lookup id s1.(send) with
            | Some (Some x) =>
                if x.(s_state) =? 3 then tx_loop fuel' maxb buf s1 acc
                else
                  let m := maxb - buf - 1 - vsize id in
                  let '(a, b, enc, x1) := poll_transmit m x in
                  let fin := (b =? x1.(s_offset)) && ((x1.(s_state) =? 1) || (x1.(s_state) =? 2)) in
                  let x2 := if fin then set_s_fin_pending false x1 else x1 in
                  let s2 := put id x2 s1 in
                  let s3 := if is_pending x2 then push_pending id s2 else s2 in
                  let hdr := 1 + vsize id + (if a =? 0 then 0 else vsize a)
                             + (if enc then vsize (b - a) else 0) in
                  tx_loop fuel' maxb (buf + hdr + (b - a)) s3 (acc ++ [(id, a, b, fin)])
            | _ => tx_loop fuel' maxb buf s1 acc
            end
        end
      else (s, buf, acc, true)
  end.

Definition frame_out (f : Frame) : list Z :=
  let '(id, a, b, fin) := f in [id; a; b; b2z fin].

Definition do_transmit (maxb : Z) (s : State) : R :=
  let fuel := (Z.to_nat (Z.min maxb 65536) + length s.(pendq) + 1)%nat in
  let '(s', buf, fs, okf) := tx_loop fuel maxb 0 s [] in
  ok (set_log (s'.(log) ++ map (@Some Frame) fs) s')
     (if okf then [Z.of_nat (length fs); buf] ++ flat_map frame_out fs else [-3]).

(** [poll]: connection-blocked streams first (while credit is available), then queued events. *)
Fixpoint cb_loop (st : list Z) (s : State) : State * option Z :=
  match st with
  | [] => (set_conn_blocked [] s, None)
  | id :: t =>
      match lookup id s.(send) with
      | Some (Some x) =>
          let s1 := put id (set_s_cb false x) s in
          if (x.(s_state) =? 0) && (x.(s_offset) <? x.(s_max_data)) then (set_conn_blocked t s1, Some id)
          else cb_loop t s1
      | _ => cb_loop t s
      end
  end.

Definition pop_event (s : State) : R :=
  match s.(events) with
  | [] => ok s [0]
  | e :: t => ok (set_events t s) e
  end.

Definition do_poll (s : State) : R :=
  if s.(opened_bi) then ok (set_opened_bi false s) [1; 0]
  else
    match write_limit s with
    | None => None
    | Some wl =>
        if 0 <? wl then
          match cb_loop s.(conn_blocked) s with
          | (s', Some id) => ok s' [2; id]
          | (s', None) => pop_event s'
          end
        else pop_event s
    end.

(** [zero_rtt_rejected]: remove the locally initiated streams [0 .. next) of one direction;
    [None] = [.unwrap()] on a stream that is no longer in the map. *)
Fixpoint remove_locals (sd d : Z) (n : nat) (m : SMap) : option SMap :=
  match n with
  | O => Some m
  | S k =>
      match remove_locals sd d k m with
      | None => None
      | Some m' =>
          let id := sid sd d (Z.of_nat k) in
          match lookup id m' with
          | Some _ => Some (remove id m')
          | None => None
          end
      end
  end.

(** [fixed = false]: the code as found (F3: [unacked_data] kept, F6: [max_data] kept, and the
    [streams_blocked] flags kept); [fixed = true]: the repaired code. *)
Definition reject_with (fixed : bool) (s : State) : option State :=
  match remove_locals s.(side) 0 (Z.to_nat s.(next_bi)) s.(send) with
  | None => None
  | Some m1 =>
      match remove_locals s.(side) 1 (Z.to_nat s.(next_uni)) m1 with
      | None => None
      | Some m2 =>
          let s := set_send m2 s in
          let s := set_next_bi 0 (set_next_uni 0 s) in
          let s := set_pendq [] s in
          let s := set_send_streams 0 s in
          let s := set_data_sent 0 s in
          let s := set_conn_blocked [] s in
          let s := if fixed then
                     set_blocked_bi false (set_blocked_uni false (set_max_data 0 (set_unacked_data 0 s)))
                   else s in
          Some (set_log (map (fun _ => None) s.(log)) s)
      end
  end.

(** [retransmit_all_for_0rtt] (a Retry arrived): the streams [StreamId::new(Side::Client, dir, i)],
    [i < next[dir]], in ascending order.  A stream on which nothing was sent is skipped; a stream
    finished without data gets [fin_pending] again ([fixed = true]; the code as found skipped it);
    everything else is marked unsent.  [None] = [debug_assert_eq!(offset, unacked_len)]. *)
Definition retry_stream (fixed : bool) (id : Z) (s : State) : option State :=
  match lookup id s.(send) with
  | Some (Some x) =>
      let was := is_pending x in
      let quiet := (x.(s_ulen) =? 0) && negb x.(s_fin_pending) in
      let finished := (x.(s_state) =? 1) || (x.(s_state) =? 2) in
      if quiet && negb (fixed && finished) then Some s
      else
        let x1 := if quiet then set_s_fin_pending true x else x in
        let was := if fixed then was else is_pending x1 in
        if x1.(s_offset) =? x1.(s_ulen) then
          let s := if was then s else push_pending id s in
          Some (put id (set_s_unsent 0 x1) s)
        else None
  | _ => Some s
  end.

Fixpoint retry_dir (fixed : bool) (d : Z) (n : nat) (s : State) : option State :=
  match n with
  | O => Some s
  | S k =>
      match retry_dir fixed d k s with
      | Some s' => retry_stream fixed (sid 0 d (Z.of_nat k)) s'
      | None => None
      end
  end.

Definition retry_with (fixed : bool) (s : State) : option State :=
  match retry_dir fixed 0 (Z.to_nat s.(next_bi)) s with
  | Some s1 =>
      match retry_dir fixed 1 (Z.to_nat s1.(next_uni)) s1 with
      | Some s2 => Some (set_log (map (fun _ => None) s2.(log)) s2)
      | None => None
      end
  | None => None
  end.

(** The model follows the code of the working tree (see Props/C17.v for the history). *)
Definition RETRY_FIXED : bool := true.
Definition do_retry (s : State) : option State := retry_with RETRY_FIXED s.

Definition CODE_FIXED : bool := true.
Definition do_reject (s : State) : option State := reject_with CODE_FIXED s.

(* ------------------------------------------------------------------------------------------ *)
(** ** Interpreter *)

Definition arg (op : list Z) (i : nat) : Z := nth i op 0.

Definition params_of (op : list Z) : Params :=
  mkParams (arg op 1) (arg op 2) (arg op 3) (arg op 4) (arg op 5) (arg op 6).

Definition MAX_STREAM_COUNT_MODEL : Z := 2 ^ 60.

Definition apply (op : list Z) (s : State) : R :=
  match arg op 0 with
  | 0 => ok (init (norm_side (arg op 1)) (arg op 3) (arg op 4)) [0]
  | 1 => let p := params_of op in
         if params_valid p then ok (do_set_params p s) [0] else ok s [-2]
  | 2 => do_open (arg op 1) s
  | 3 => do_write (arg op 1) (arg op 2) s
  | 4 => do_finish (arg op 1) s
  | 5 => do_reset (arg op 1) s
  | 6 => if is_varint (arg op 1) then ok (do_max_data (arg op 1) s) [0] else ok s [-2]
  | 7 => do_max_stream_data (arg op 1) (arg op 2) s
  | 8 => do_max_streams MAX_STREAM_COUNT_MODEL (arg op 1) (arg op 2) s
  | 9 => do_transmit (arg op 1) s
  | 10 => do_log true (arg op 1) s
  | 11 => do_log false (arg op 1) s
  | 13 => ok (set_send_window (arg op 1) s) [0]
  | 14 => match do_reject s with Some s' => ok s' [0] | None => None end
  | 15 => do_poll s
  | 16 => if is_varint (arg op 2) then ok (do_stop_sending (arg op 1) (arg op 2) s) [0] else ok s [-2]
  | 17 => do_reset_acked (arg op 1) s
  | 18 => do_accept (arg op 1) s
  | 19 => match observe s with Some o => ok s o | None => None end
  | 21 => match do_retry s with Some s' => ok s' [0] | None => None end
  | _ => ok s [-1]
  end.

(** One op with its observation [result ++ summary]. *)
Definition step (op : list Z) (s : State) : R :=
  match apply op s with
  | Some (s', r) => Some (s', r ++ summary s')
  | None => None
  end.

Definition init0 : State := init 0 0 (2 ^ 20).

Fixpoint run_from (s : State) (i : ops) : option outs :=
  match i with
  | [] => Some []
  | op :: t =>
      match step op s with
      | None => None
      | Some (s', o) =>
          match run_from s' t with
          | None => None
          | Some os => Some (o :: os)
          end
      end
  end.

Definition run (i : ops) : outs :=
  match run_from init0 i with Some o => o | None => [PANIC] end.

(* ------------------------------------------------------------------------------------------ *)
(** ** The property oracle: an independent credit ledger.

    It looks only at the operations and at the IMPLEMENTATION's observations.  From the limits
    that were delivered (transport parameters, MAX_DATA, MAX_STREAM_DATA, MAX_STREAMS), the
    lengths the implementation reported as accepted, the frames it reported as sent and the
    acknowledgements delivered, it recomputes the credit and checks that
    - no [open] succeeded beyond the delivered stream-count limit and [open] returned [None]
      only without credit; stream ids are handed out consecutively;
    - every accepted [write] fits the connection credit, the stream credit and the send-window
      room, and (for a writable stream whose limit is unambiguous) returned exactly
      [min n available], [Blocked] iff nothing was available;
    - no STREAM frame ends beyond the stream limit;
    - the unacknowledged total never underflows, and a disciplined case never panics.
    After a 0-RTT rejection the ledger restarts from nothing (limits from the new parameters only).

    The ledger applies to DISCIPLINED cases ([wf_static], a syntactic check of the op list that
    mirrors how [Connection] drives [StreamsState]):
      [new] ; [set_params p0] ; early ops (no peer frames, no acknowledgements, no losses, local
      streams only; a client may see Retries: [retransmit_all_for_0rtt]) ;
      optionally [set_params p1] with [p1 >= p0] (0-RTT accepted) or [zero_rtt_rejected ; set_params p1] ;
      then any mix of application ops, credit frames, transmissions, acknowledgements and losses,
      where the application uses a remote bidirectional stream only after [accept] returned it.
    On undisciplined cases the oracle is vacuous (the model comparison still applies). *)

Definition id_local (side id : Z) : bool := id_init id =? side.
Definition id_remote_bi (side id : Z) : bool := negb (id_init id =? side) && (id_dir id =? 0).

Definition pge (p q : list Z) : bool :=      (* fieldwise p >= q on the six parameters *)
  forallb (fun i => nth i q 0 <=? nth i p 0) [1; 2; 3; 4; 5; 6]%nat.
Definition pvalid (op : list Z) : bool := params_valid (params_of op).

(** Static discipline. [ph]: 0 early, 1 awaiting the post-rejection parameters, 2 main.
    [nr]/[rep]: static under-approximation of [next_remote]/[next_reported_remote] (Bi). *)
Fixpoint wf_scan (side mrb : Z) (p0 : list Z) (ph nr rep : Z) (i : ops) : bool :=
  match i with
  | [] => negb (ph =? 1)
  | op :: t =>
      let c := arg op 0 in
      let id := arg op 1 in
      let app_ok (rep : Z) :=
        negb (id_remote_bi side id && (id_index id <? mrb) && (rep <=? id_index id)) in
      if ph =? 1 then (c =? 1) && pvalid op && wf_scan side mrb op 2 nr rep t
      else if (c =? 2) || (c =? 9) || (c =? 13) || (c =? 15) || (c =? 19) then
        wf_scan side mrb p0 ph nr rep t
      else if c =? 21 then (ph =? 0) && (side =? 0) && wf_scan side mrb p0 ph nr rep t
      else if (c =? 3) || (c =? 4) || (c =? 5) then
        if id_local side id then (0 <=? id) && wf_scan side mrb p0 ph nr rep t
        else (0 <=? id) && app_ok rep && wf_scan side mrb p0 2 nr rep t
      else if c =? 1 then (ph =? 0) && pvalid op && pge op p0 && wf_scan side mrb op 2 nr rep t
      else if c =? 14 then (ph =? 0) && wf_scan side mrb p0 1 nr rep t
      else if c =? 6 then is_varint id && wf_scan side mrb p0 2 nr rep t
      else if c =? 7 then
        let nr' := if id_remote_bi side id then Z.max nr (id_index id + 1) else nr in
        (0 <=? id) && (0 <=? arg op 2) && wf_scan side mrb p0 2 nr' rep t
      else if c =? 18 then
        let rep' := if (norm_dir id =? 0) && (rep <? nr) then rep + 1 else rep in
        wf_scan side mrb p0 2 nr rep' t
      else if c =? 16 then (0 <=? id) && is_varint (arg op 2) && wf_scan side mrb p0 2 nr rep t
      else if (c =? 8) || (c =? 10) || (c =? 11) || (c =? 17) then (0 <=? id) && wf_scan side mrb p0 2 nr rep t
      else false
  end.

Definition wf_static (i : ops) : bool :=
  match i with
  | cfg :: setp :: t =>
      (arg cfg 0 =? 0) && ((arg cfg 1 =? 0) || (arg cfg 1 =? 1))
      && (0 <=? arg cfg 2) && (arg cfg 2 <=? 8) && (0 <=? arg cfg 3) && (arg cfg 3 <=? 8)
      && (0 <=? arg cfg 4)
      && (arg setp 0 =? 1) && pvalid setp
      && wf_scan (arg cfg 1) (arg cfg 3) setp 0 0 0 t
  | _ => false
  end.

(** Per-stream ledger entry. *)
Record SL := mkSL {
  u_used : Z; u_lim : Z; u_acked : Z; u_wr : bool; u_reset : bool; u_touched : bool; u_exact : bool }.
Definition sl0 : SL := mkSL 0 0 0 true false false true.

Record Led := mkLed {
  l_side : Z; l_mrb : Z; l_sw : Z; l_par : list Z;
  l_conn_lim : Z; l_conn_used : Z; l_unacked : Z;
  l_open_bi : Z; l_open_uni : Z; l_ms_bi : Z; l_ms_uni : Z; l_rep : Z;
  l_tab : list (Z * SL); l_flog : list (option (Z * Z)); l_early : bool }.

Fixpoint tab_get (id : Z) (t : list (Z * SL)) : SL :=
  match t with [] => sl0 | (k, v) :: r => if k =? id then v else tab_get id r end.
Fixpoint tab_set (id : Z) (v : SL) (t : list (Z * SL)) : list (Z * SL) :=
  match t with
  | [] => [(id, v)]
  | (k, w) :: r => if k =? id then (k, v) :: r else (k, w) :: tab_set id v r
  end.

Definition led_with_tab (t : list (Z * SL)) (l : Led) : Led :=
  mkLed l.(l_side) l.(l_mrb) l.(l_sw) l.(l_par) l.(l_conn_lim) l.(l_conn_used) l.(l_unacked)
        l.(l_open_bi) l.(l_open_uni) l.(l_ms_bi) l.(l_ms_uni) l.(l_rep) t l.(l_flog) l.(l_early).
Definition led_with_flog (f : list (option (Z * Z))) (l : Led) : Led :=
  mkLed l.(l_side) l.(l_mrb) l.(l_sw) l.(l_par) l.(l_conn_lim) l.(l_conn_used) l.(l_unacked)
        l.(l_open_bi) l.(l_open_uni) l.(l_ms_bi) l.(l_ms_uni) l.(l_rep) l.(l_tab) f l.(l_early).
Definition led_with_counts (cl cu un : Z) (l : Led) : Led :=
  mkLed l.(l_side) l.(l_mrb) l.(l_sw) l.(l_par) cl cu un
        l.(l_open_bi) l.(l_open_uni) l.(l_ms_bi) l.(l_ms_uni) l.(l_rep) l.(l_tab) l.(l_flog) l.(l_early).
Definition led_with_streams (ob ou mb mu rep : Z) (l : Led) : Led :=
  mkLed l.(l_side) l.(l_mrb) l.(l_sw) l.(l_par) l.(l_conn_lim) l.(l_conn_used) l.(l_unacked)
        ob ou mb mu rep l.(l_tab) l.(l_flog) l.(l_early).

Definition led_init (side mrb sw : Z) : Led :=
  mkLed side mrb sw [1; 0; 0; 0; 0; 0; 0] 0 0 0 0 0 0 0 0 [] [] true.

(** The transport parameter that applies to stream [id]. *)
Definition kind_par (l : Led) (id : Z) : Z :=
  if id_dir id =? 1 then nth 6 l.(l_par) 0
  else if id_init id =? l.(l_side) then nth 5 l.(l_par) 0
  else nth 4 l.(l_par) 0.

(** Is [id] a stream the application legitimately holds? *)
Definition led_known (l : Led) (id : Z) : bool :=
  (0 <=? id) &&
  (if id_init id =? l.(l_side) then
     id_index id <? (if id_dir id =? 0 then l.(l_open_bi) else l.(l_open_uni))
   else (id_dir id =? 0) && (id_index id <? Z.min l.(l_rep) l.(l_mrb))).

Definition stream_limit (l : Led) (id : Z) : Z := Z.max (kind_par l id) (tab_get id l.(l_tab)).(u_lim).

Definition led_avail (l : Led) (id : Z) : Z :=
  Z.max 0 (Z.min (l.(l_conn_lim) - l.(l_conn_used))
                 (Z.min (l.(l_sw) - l.(l_unacked))
                        (stream_limit l id - (tab_get id l.(l_tab)).(u_used)))).

Definition pmax (p q : list Z) : list Z :=
  1 :: map (fun i => Z.max (nth i p 0) (nth i q 0)) [1; 2; 3; 4; 5; 6]%nat.

Fixpoint frames_of (l : list Z) : list (Z * Z * Z) :=
  match l with
  | id :: a :: b :: _ :: t => (id, a, b) :: frames_of t
  | _ => []
  end.

Fixpoint flog_take (k : nat) (l : list (option (Z * Z))) : option ((Z * Z) * list (option (Z * Z))) :=
  match l, k with
  | [], _ => None
  | Some f :: t, O => Some (f, None :: t)
  | None :: _, O => None
  | e :: t, S k' =>
      match flog_take k' t with
      | Some (f, t') => Some (f, e :: t')
      | None => None
      end
  end.

(** One ledger step: [None] = the property fails on this observation. *)
Definition led_step (op o : list Z) (l : Led) : option Led :=
  let c := arg op 0 in
  let id := arg op 1 in
  let r0 := arg o 0 in
  let r1 := arg o 1 in
  let e := tab_get id l.(l_tab) in
  if c =? 0 then Some (led_init (norm_side (arg op 1)) (arg op 3) (arg op 4))
  else if c =? 1 then
    let par' := pmax l.(l_par) op in
    (* streams touched under the remembered parameters keep the remembered per-stream limit *)
    let tab' := map (fun kv : Z * SL =>
                       let '(k, v) := kv in
                       if v.(u_touched) && negb (kind_par l k =? kind_par (mkLed l.(l_side) l.(l_mrb) l.(l_sw) par' 0 0 0 0 0 0 0 0 [] [] true) k)
                       then (k, mkSL v.(u_used) v.(u_lim) v.(u_acked) v.(u_wr) v.(u_reset) v.(u_touched) false)
                       else kv) l.(l_tab) in
    Some (mkLed l.(l_side) l.(l_mrb) l.(l_sw) par'
                (Z.max l.(l_conn_lim) (arg op 1)) l.(l_conn_used) l.(l_unacked)
                l.(l_open_bi) l.(l_open_uni) (Z.max l.(l_ms_bi) (arg op 2)) (Z.max l.(l_ms_uni) (arg op 3))
                l.(l_rep) tab' l.(l_flog) false)
  else if c =? 2 then
    let d := norm_dir id in
    let opened := if d =? 0 then l.(l_open_bi) else l.(l_open_uni) in
    let ms := if d =? 0 then l.(l_ms_bi) else l.(l_ms_uni) in
    if r0 =? 0 then
      if (opened <? ms) && (r1 =? sid l.(l_side) d opened) then
        Some (if d =? 0 then led_with_streams (opened + 1) l.(l_open_uni) l.(l_ms_bi) l.(l_ms_uni) l.(l_rep) l
              else led_with_streams l.(l_open_bi) (opened + 1) l.(l_ms_bi) l.(l_ms_uni) l.(l_rep) l)
      else None
    else if ms <=? opened then Some l else None
  else if c =? 3 then
    let n := arg op 2 in
    let av := led_avail l id in
    let known := led_known l id in
    let touched := mkSL e.(u_used) e.(u_lim) e.(u_acked) e.(u_wr) e.(u_reset) (e.(u_touched) || known) e.(u_exact) in
    if r0 =? 0 then
      (* accepted r1 bytes *)
      if (0 <=? r1) && (r1 <=? n) && (r1 <=? (if known && e.(u_wr) then av else 0))
         && (if e.(u_exact) then r1 =? Z.min n av else true) && ((0 <? av) || negb e.(u_exact)) then
        let e' := mkSL (e.(u_used) + r1) e.(u_lim) e.(u_acked) e.(u_wr) e.(u_reset) touched.(u_touched) e.(u_exact) in
        Some (led_with_tab (tab_set id e' l.(l_tab))
                (led_with_counts l.(l_conn_lim) (l.(l_conn_used) + r1) (l.(l_unacked) + r1) l))
      else None
    else if (r0 =? 1) && known && e.(u_wr) && e.(u_exact) && (0 <? av) then None (* blocked with credit *)
    else Some (led_with_tab (tab_set id touched l.(l_tab)) l)
  else if c =? 4 then
    if (r0 =? 0) then
      Some (led_with_tab (tab_set id (mkSL e.(u_used) e.(u_lim) e.(u_acked) false e.(u_reset) true e.(u_exact)) l.(l_tab)) l)
    else Some l
  else if c =? 5 then
    if r0 =? 0 then
      let rem := e.(u_used) - e.(u_acked) in
      if l.(l_unacked) <? rem then None
      else Some (led_with_tab (tab_set id (mkSL e.(u_used) e.(u_lim) e.(u_acked) false true true e.(u_exact)) l.(l_tab))
                   (led_with_counts l.(l_conn_lim) l.(l_conn_used) (l.(l_unacked) - rem) l))
    else Some l
  else if c =? 6 then
    if r0 =? 0 then Some (led_with_counts (Z.max l.(l_conn_lim) id) l.(l_conn_used) l.(l_unacked) l) else Some l
  else if c =? 7 then
    if r0 =? 0 then
      Some (led_with_tab (tab_set id (mkSL e.(u_used) (Z.max e.(u_lim) (arg op 2)) e.(u_acked) e.(u_wr) e.(u_reset) e.(u_touched) e.(u_exact)) l.(l_tab)) l)
    else Some l
  else if c =? 8 then
    if r0 =? 0 then
      Some (if norm_dir id =? 0
            then led_with_streams l.(l_open_bi) l.(l_open_uni) (Z.max l.(l_ms_bi) (arg op 2)) l.(l_ms_uni) l.(l_rep) l
            else led_with_streams l.(l_open_bi) l.(l_open_uni) l.(l_ms_bi) (Z.max l.(l_ms_uni) (arg op 2)) l.(l_rep) l)
    else Some l
  else if c =? 9 then
    if r0 <? 0 then None
    else
      let fs := frames_of (skipn 2 (firstn (2 + 4 * Z.to_nat r0) o)) in
      if forallb (fun f : Z * Z * Z => let '(fid, a, b) := f in
                    (0 <=? a) && (a <=? b) && (b <=? (tab_get fid l.(l_tab)).(u_used))
                    && (b <=? stream_limit l fid)) fs
      then Some (led_with_flog (l.(l_flog) ++ map (fun f : Z * Z * Z => let '(fid, a, b) := f in Some (fid, b - a)) fs) l)
      else None
  else if c =? 10 then
    if r0 =? 0 then
      match (if id <? 0 then None else flog_take (Z.to_nat id) l.(l_flog)) with
      | None => None (* the implementation acknowledged a frame the ledger never saw *)
      | Some ((fid, len), fl) =>
          let fe := tab_get fid l.(l_tab) in
          let l := led_with_flog fl l in
          if fe.(u_reset) then Some l
          else if l.(l_unacked) <? len then None
          else Some (led_with_tab (tab_set fid (mkSL fe.(u_used) fe.(u_lim) (fe.(u_acked) + len) fe.(u_wr) fe.(u_reset) fe.(u_touched) fe.(u_exact)) l.(l_tab))
                       (led_with_counts l.(l_conn_lim) l.(l_conn_used) (l.(l_unacked) - len) l))
      end
    else Some l
  else if c =? 11 then
    if r0 =? 0 then
      match (if id <? 0 then None else flog_take (Z.to_nat id) l.(l_flog)) with
      | None => None
      | Some (_, fl) => Some (led_with_flog fl l)
      end
    else Some l
  else if c =? 13 then
    Some (mkLed l.(l_side) l.(l_mrb) id l.(l_par) l.(l_conn_lim) l.(l_conn_used) l.(l_unacked)
                l.(l_open_bi) l.(l_open_uni) l.(l_ms_bi) l.(l_ms_uni) l.(l_rep) l.(l_tab) l.(l_flog) l.(l_early))
  else if c =? 14 then
    Some (mkLed l.(l_side) l.(l_mrb) l.(l_sw) [1; 0; 0; 0; 0; 0; 0] 0 0 0 0 0 0 0 l.(l_rep) []
                (map (fun _ => None) l.(l_flog)) false)
  else if c =? 21 then Some (led_with_flog (map (fun _ => None) l.(l_flog)) l)
  else if c =? 16 then
    (* STOP_SENDING for a stream that does not exist (yet) is ignored by the implementation *)
    if (r0 =? 0) && (led_known l id || ((0 <=? id) && id_remote_bi l.(l_side) id && (id_index id <? l.(l_mrb)))) then
      Some (led_with_tab (tab_set id (mkSL e.(u_used) e.(u_lim) e.(u_acked) false e.(u_reset) e.(u_touched) e.(u_exact)) l.(l_tab)) l)
    else Some l
  else if c =? 18 then
    if r0 =? 0 then
      if r1 =? sid (1 - l.(l_side)) 0 l.(l_rep) then
        Some (led_with_streams l.(l_open_bi) l.(l_open_uni) l.(l_ms_bi) l.(l_ms_uni) (l.(l_rep) + 1) l)
      else None
    else Some l
  else Some l.

(** The summary that follows every result repeats the counters: the ledger cross-checks
    [data_sent] and [unacked_data] (what the implementation believes) against its own totals. *)
Definition led_summary_ok (o : list Z) (l : Led) : bool :=
  let n := length o in
  if Nat.ltb n 8 then false
  else
    let sm := skipn (n - 8) o in
    (nth 5 sm 0 =? l.(l_conn_used)) && (nth 6 sm 0 =? l.(l_unacked))
    && (nth 0 sm 0 =? l.(l_open_bi)) && (nth 1 sm 0 =? l.(l_open_uni))
    && (nth 5 sm 0 <=? l.(l_conn_lim)).

Fixpoint led_run (i : ops) (o : outs) (l : Led) : bool :=
  match i, o with
  | [], [] => true
  | op :: i', ob :: o' =>
      match led_step op ob l with
      | None => false
      | Some l' => led_summary_ok ob l' && led_run i' o' l'
      end
  | _, _ => false
  end.

(** *** The FIN ledger: a finished stream whose FIN is neither acknowledged nor in flight is
    still scheduled.  From the ops and the implementation's observations only: streams finished
    ([finish] answered Ok), reset, FIN frames reported sent / acknowledged / lost / discarded (by a
    Retry or a rejection).  At every full projection (op 19) each finished, not reset stream that
    is still in the map and whose FIN is not acknowledged and not in flight must have
    [fin_pending] or unsent data AND be in the pending queue.  (This is what makes a Retry resend
    the lone FIN of an early stream finished without data.) *)
Record FinLed := mkFinLed {
  f_fin : list Z; f_dead : list Z; f_acked : list Z; f_log : list (option (Z * bool)) }.

Definition zmem (x : Z) (l : list Z) : bool := existsb (Z.eqb x) l.

Fixpoint frames_fin (l : list Z) : list (option (Z * bool)) :=
  match l with
  | id :: _ :: _ :: fin :: t => Some (id, negb (fin =? 0)) :: frames_fin t
  | _ => []
  end.

Fixpoint finlog_take (k : nat) (l : list (option (Z * bool))) : option ((Z * bool) * list (option (Z * bool))) :=
  match l, k with
  | [], _ => None
  | Some f :: t, O => Some (f, None :: t)
  | None :: _, O => None
  | e :: t, S k' =>
      match finlog_take k' t with
      | Some (f, t') => Some (f, e :: t')
      | None => None
      end
  end.

Definition fin_in_flight (id : Z) (l : list (option (Z * bool))) : bool :=
  existsb (fun e => match e with Some (i, true) => i =? id | _ => false end) l.

Fixpoint chunk11 (n : nat) (l : list Z) : list (list Z) :=
  match n with
  | O => []
  | S k => firstn 11 l :: chunk11 k (skipn 11 l)
  end.

(** Parse the full projection: (pending ids, stream rows). *)
Definition obs_parse (o : list Z) : list Z * list (list Z) :=
  let r := skipn 12 o in
  let ncb := Z.to_nat (nth 0 r 0) in
  let r := skipn (S ncb) r in
  let np := Z.to_nat (nth 0 r 0) in
  let pend := firstn np (skipn 1 r) in
  let r := skipn (S np) r in
  let ns := Z.to_nat (nth 0 r 0) in
  (pend, chunk11 ns (skipn 1 r)).

Definition fin_obs_ok (o : list Z) (f : FinLed) : bool :=
  let '(pend, rows) := obs_parse o in
  forallb (fun id =>
    if zmem id f.(f_dead) || zmem id f.(f_acked) || fin_in_flight id f.(f_log) then true
    else
      forallb (fun row =>
        if (nth 0 row (-1) =? id) && (nth 1 row 0 =? 1) && negb (nth 4 row 0 =? 3) then
          ((nth 5 row 0 =? 1) || (nth 9 row 0 =? 1)) && zmem id pend
        else true) rows) f.(f_fin).

Definition fin_step (op o : list Z) (f : FinLed) : option FinLed :=
  let c := arg op 0 in
  let id := arg op 1 in
  let r0 := arg o 0 in
  if c =? 0 then Some (mkFinLed [] [] [] [])
  else if c =? 4 then
    Some (if r0 =? 0 then mkFinLed (id :: f.(f_fin)) f.(f_dead) f.(f_acked) f.(f_log) else f)
  else if c =? 5 then
    Some (if r0 =? 0 then mkFinLed f.(f_fin) (id :: f.(f_dead)) f.(f_acked) f.(f_log) else f)
  else if c =? 9 then
    if r0 <? 0 then Some f
    else Some (mkFinLed f.(f_fin) f.(f_dead) f.(f_acked)
                        (f.(f_log) ++ frames_fin (skipn 2 (firstn (2 + 4 * Z.to_nat r0) o))))
  else if (c =? 10) || (c =? 11) then
    if r0 =? 0 then
      match (if id <? 0 then None else finlog_take (Z.to_nat id) f.(f_log)) with
      | None => None
      | Some ((fid, fin), fl) =>
          Some (mkFinLed f.(f_fin) f.(f_dead)
                         (if (c =? 10) && fin then fid :: f.(f_acked) else f.(f_acked)) fl)
      end
    else Some f
  else if c =? 14 then Some (mkFinLed [] [] [] (map (fun _ => None) f.(f_log)))
  else if c =? 21 then Some (mkFinLed f.(f_fin) f.(f_dead) f.(f_acked) (map (fun _ => None) f.(f_log)))
  else if c =? 19 then (if fin_obs_ok o f then Some f else None)
  else Some f.

Fixpoint fin_run (i : ops) (o : outs) (f : FinLed) : bool :=
  match i, o with
  | [], [] => true
  | op :: i', ob :: o' =>
      match fin_step op ob f with
      | None => false
      | Some f' => fin_run i' o' f'
      end
  | _, _ => false
  end.

Definition is_panic (o : outs) : bool :=
  match o with [[x]] => x =? -999 | _ => false end.

Definition oracle (i : ops) (o : outs) : bool :=
  if wf_static i then
    if is_panic o then false
    else led_run i o (led_init 0 0 (2 ^ 20)) && fin_run i o (mkFinLed [] [] [] [])
  else true.

(** Development aid: the trivially true oracle (used only when comparing [run] by hand). *)
Definition no_oracle (i : ops) (o : outs) : bool := true.
