(** Model of [PathResponses] (quinn-proto/src/connection/paths.rs) — definitions only.

    [pending] in [Vec] order (head = oldest, last = next to be popped); an entry is
    (packet number of the PATH_CHALLENGE, token, remote).  [M] = the function-local constant
    [MAX_PATH_RESPONSES], measured behaviourally by the hook and generated as
    [Constants.MAX_PATH_RESPONSES].

    Op encoding (hook quinn-proto/src/connection/verif_hooks/path_responses.rs):
      [0; packet; token; remote] push -> [len]
      [1; remote] pop_off_path -> [len; 0] | [len; 1; token; remote']
      [2; remote] pop_on_path  -> [len; 0] | [len; 1; token]
      [3] is_empty -> [len; 0|1] *)
From Coq Require Import ZArith List Bool.
From QV Require Import Lib.Corr gen.Constants.
Import ListNotations.
Open Scope Z_scope.

Record resp := mkr { packet : Z; token : Z; remote : Z }.
Definition t := list resp.

Inductive op :=
| Push (p tk r : Z)
| PopOff (r : Z)
| PopOn (r : Z)
| IsEmpty.

(** update the first queued response for [remote r], if any *)
Fixpoint replace_first (l : t) (n : resp) : option t :=
  match l with
  | [] => None
  | x :: rest =>
      if remote x =? remote n then
        Some ((if packet x <=? packet n then n else x) :: rest)
      else
        match replace_first rest n with
        | Some rest' => Some (x :: rest')
        | None => None
        end
  end.

Definition push (M : Z) (l : t) (p tk r : Z) : t :=
  let n := mkr p tk r in
  match replace_first l n with
  | Some l' => l'
  | None => if Z.of_nat (length l) <? M then l ++ [n] else l
  end.

(** [Vec::last] / [Vec::pop] *)
Fixpoint unsnoc (l : t) : option (t * resp) :=
  match l with
  | [] => None
  | [x] => Some ([], x)
  | x :: rest =>
      match unsnoc rest with
      | Some (r', y) => Some (x :: r', y)
      | None => None
      end
  end.

Definition pop_off_path (l : t) (r : Z) : t * option (Z * Z) :=
  match unsnoc l with
  | None => (l, None)
  | Some (l', x) => if remote x =? r then (l, None) else (l', Some (token x, remote x))
  end.

Definition pop_on_path (l : t) (r : Z) : t * option Z :=
  match unsnoc l with
  | None => (l, None)
  | Some (l', x) => if remote x =? r then (l', Some (token x)) else (l, None)
  end.

Definition zlen (l : t) : Z := Z.of_nat (length l).

Definition step (M : Z) (l : t) (o : op) : t * list Z :=
  match o with
  | Push p tk r => let l' := push M l p tk r in (l', [zlen l'])
  | PopOff r =>
      match pop_off_path l r with
      | (l', None) => (l', [zlen l'; 0])
      | (l', Some (tk, r')) => (l', [zlen l'; 1; tk; r'])
      end
  | PopOn r =>
      match pop_on_path l r with
      | (l', None) => (l', [zlen l'; 0])
      | (l', Some tk) => (l', [zlen l'; 1; tk])
      end
  | IsEmpty => (l, [zlen l; match l with [] => 1 | _ => 0 end])
  end.

Fixpoint run_ops (M : Z) (l : t) (os : list op) : list (list Z) :=
  match os with
  | [] => []
  | o :: r => let '(l', out) := step M l o in out :: run_ops M l' r
  end.

Definition decode_op (l : list Z) : option op :=
  match l with
  | [0; p; tk; r] => Some (Push p tk r)
  | [1; r] => Some (PopOff r)
  | [2; r] => Some (PopOn r)
  | [3] => Some IsEmpty
  | _ => None
  end.

Fixpoint decode_ops (i : ops) : option (list op) :=
  match i with
  | [] => Some []
  | l :: r =>
      match decode_op l, decode_ops r with
      | Some o, Some os => Some (o :: os)
      | _, _ => None
      end
  end.

Definition run (i : ops) : outs :=
  match decode_ops i with
  | None => [[-1]]
  | Some os => run_ops MAX_PATH_RESPONSES [] os
  end.

(** * Oracle on the implementation's outputs: no panic; the reported queue length never exceeds
    [MAX_PATH_RESPONSES], never exceeds the number of distinct remotes pushed so far, a push
    changes it by at most +1, a successful pop by exactly -1; a token handed out by a pop was
    pushed for that remote. *)
(** the bound the property names; the generated constant is measured on the code under test, so the
    oracle also checks the literal *)
Definition PINNED_MAX_PATH_RESPONSES : Z := 16.

Fixpoint oracle_go (i : ops) (o : outs) (prev : Z) (pushed : list (Z * Z)) : bool :=
  match i, o with
  | [], [] => true
  | op :: i', out :: o' =>
      match out with
      | len :: tl =>
          let pushed' := match op with [0; _; tk; r] => (tk, r) :: pushed | _ => pushed end in
          (0 <=? len) && (len <=? MAX_PATH_RESPONSES) && (len <=? PINNED_MAX_PATH_RESPONSES)
          && match op, tl with
             | 0 :: _, [] => (prev <=? len) && (len <=? prev + 1)
             | [1; r], [0] => len =? prev
             | [1; r], [1; tk; r'] =>
                 (len =? prev - 1) && negb (r' =? r)
                 && existsb (fun p => (fst p =? tk) && (snd p =? r')) pushed
             | [2; r], [0] => len =? prev
             | [2; r], [1; tk] =>
                 (len =? prev - 1) && existsb (fun p => (fst p =? tk) && (snd p =? r)) pushed
             | [3], [e] => (len =? prev) && (e =? (if len =? 0 then 1 else 0))
             | _, _ => false
             end
          && oracle_go i' o' len pushed'
      | _ => false
      end
  | _, _ => false
  end.

Definition oracle (i : ops) (o : outs) : bool :=
  if llz_eqb o [PANIC] then false else oracle_go i o 0 [].
