(** Model of the bytes-in-flight ledger: [PathData::{sent, remove_in_flight}] + [InFlight]
    (quinn-proto/src/connection/paths.rs) over [PacketSpace::{sent, take}] (spaces.rs) and
    [SentPackets] — definitions only.

    Every u64 operation is checked; a step returns [inr code] where the debug build panics:
      1 = counter addition overflows, 2 = counter SUBTRACTION UNDERFLOWS (the one the theorem
      excludes), 3 = SentPackets insert assertion, 4 = tail counter [checked_sub(1).unwrap()],
      5 = forgetting finds no packet after the last ack-eliciting one ([.next().unwrap()]). *)
From Coq Require Import ZArith List Bool.
From QV Require Import Lib.Corr Lib.Chk Model.SentPackets.
Import ListNotations.
Open Scope Z_scope.

Definition GENERATION : Z := 7.
Definition MAX_TAIL : Z := 1000.

Record st := mk {
  sp : SentPackets.st;        (* space.sent_packets *)
  tail : Z;                   (* space.unacked_non_ack_eliciting_tail *)
  largest_ae : Z;             (* space.largest_ack_eliciting_sent *)
  bytes : Z;                  (* path.in_flight.bytes *)
  aec : Z                     (* path.in_flight.ack_eliciting *)
}.

Definition init : st := mk SentPackets.empty 0 0 0 0.

Definition res := (st + Z)%type.

(** [InFlight::insert] *)
Definition credit (s : st) (p : pkt) : res :=
  match cadd (bytes s) (p_size p), cadd (aec s) (p_ae p) with
  | Some b, Some a => inl (mk (sp s) (tail s) (largest_ae s) b a)
  | _, _ => inr 1
  end.

(** [PathData::remove_in_flight]: (debited?, state) *)
Definition debit (s : st) (p : pkt) : (bool * st) + Z :=
  if p_gen p =? GENERATION then
    match csub (bytes s) (p_size p), csub (aec s) (p_ae p) with
    | Some b, Some a => inl (true, mk (sp s) (tail s) (largest_ae s) b a)
    | _, _ => inr 2
    end
  else inl (false, s).

(** [PathData::sent(pn, packet, space)] *)
Definition sent (s : st) (pn : Z) (p : pkt) : res :=
  match credit s p with
  | inr e => inr e
  | inl s1 =>
      (* PacketSpace::sent *)
      let r :=
        if nz (p_ae p) then inl (None, mk (sp s1) 0 pn (bytes s1) (aec s1))
        else if MAX_TAIL <? tail s1 then
          match first_after (sp s1) (largest_ae s1) with
          | None => inr 5
          | Some k =>
              match SentPackets.remove (sp s1) k with
              | (Some q, sp') => inl (Some q, mk sp' (tail s1) (largest_ae s1) (bytes s1) (aec s1))
              | (None, _) => inr 5
              end
          end
        else inl (None, mk (sp s1) (tail s1 + 1) (largest_ae s1) (bytes s1) (aec s1)) in
      match r with
      | inr e => inr e
      | inl (forgotten, s2) =>
          match SentPackets.insert (sp s2) pn p with
          | None => inr 3
          | Some sp' =>
              let s3 := mk sp' (tail s2) (largest_ae s2) (bytes s2) (aec s2) in
              match forgotten with
              | None => inl s3
              | Some q => match debit s3 q with inl (_, s4) => inl s4 | inr e => inr e end
              end
          end
      end
  end.

(** [space.take(pn)] then [path.remove_in_flight]: result code 0 = not tracked, 1 = debited,
    2 = other generation. *)
Definition take (s : st) (pn : Z) : (Z * st) + Z :=
  match SentPackets.remove (sp s) pn with
  | (None, _) => inl (0, s)
  | (Some p, sp') =>
      let t := if (p_ae p =? 0) && (largest_ae s <? pn) then tail s - 1 else tail s in
      if t <? 0 then inr 4
      else
        match debit (mk sp' t (largest_ae s) (bytes s) (aec s)) p with
        | inl (true, s') => inl (1, s')
        | inl (false, s') => inl (2, s')
        | inr e => inr e
        end
  end.

(** Discarding the space: every packet is debited. *)
Fixpoint debit_all (s : st) (l : entries) : res :=
  match l with
  | [] => inl s
  | (_, p) :: l' => match debit s p with inl (_, s') => debit_all s' l' | inr e => inr e end
  end.

Definition discard (s : st) : res :=
  debit_all (mk SentPackets.empty (tail s) (largest_ae s) (bytes s) (aec s)) (ents (sp s)).

Definition obs (r : Z) (s : st) : list Z :=
  [r; bytes s; aec s; b2z (has_in_flight (ents (sp s))); tail s].

Definition step (s : st) (op : list Z) : (st * list Z) + Z :=
  match op with
  | [0; pn; size; ae; gen] =>
      match sent s pn (size, b2z (nz ae), gen) with inl s' => inl (s', obs 0 s') | inr e => inr e end
  | [k; pn] =>
      if (1 <=? k) && (k <=? 3) then
        match take s pn with inl (r, s') => inl (s', obs r s') | inr e => inr e end
      else inl (s, [-1])
  | [4] =>
      match discard s with
      | inl s' => inl (s', obs (Z.of_nat (length (ents (sp s)))) s')
      | inr e => inr e
      end
  | _ => inl (s, [-1])
  end.

Fixpoint go (s : st) (i : ops) : option outs :=
  match i with
  | [] => Some []
  | op :: i' =>
      match step s op with
      | inl (s', o) => do rest <- go s' i'; Some (o :: rest)
      | inr _ => None
      end
  end.

Definition run (i : ops) : outs := match go init i with Some r => r | None => [PANIC] end.

(** Oracle on the implementation's outputs, against a plain ledger built from the ops and the
    implementation's own result codes: after every call, in_flight.bytes = sum of sizes and
    in_flight.ack_eliciting = number of ack-eliciting packets over the packets of this path's
    generation that were sent and have not yet been debited (result code 1, or counted by a
    discard); a debit happens at most once per packet (a second take of the same number reports
    0); and a panic is acceptable only if it is not an underflow of the ledger — which the oracle
    cannot tell apart, so a panicking case is judged by model equality alone.
    The forgetting of the oldest tail packet is reproduced from the ops (it is part of what
    "abandoned" means). *)
Definition sum_size (l : entries) : Z :=
  fold_right (fun e a => (if p_gen (snd e) =? GENERATION then p_size (snd e) else 0) + a) 0 l.
Definition count_ae (l : entries) : Z :=
  fold_right (fun e a => (if p_gen (snd e) =? GENERATION then p_ae (snd e) else 0) + a) 0 l.

(** [extra]: bytes / count credited for packets of a foreign generation (never debited). *)
Fixpoint ledger_ok (l : entries) (tl lae xb xa : Z) (i : ops) (o : outs) : bool :=
  match i, o with
  | [], [] => true
  | op :: i', out :: o' =>
      match op with
      | [0; pn; size; ae; gen] =>
          let a := b2z (nz ae) in
          let '(l1, tl1, lae1) :=
            if nz ae then (l, 0, pn)
            else if MAX_TAIL <? tl then
              (match filter (fun e => lae <? fst e) l with (k, _) :: _ => delete k l | [] => l end, tl, lae)
            else (l, tl + 1, lae) in
          let l2 := l1 ++ [(pn, (size, a, gen))] in
          let xb' := if gen =? GENERATION then xb else xb + size in
          let xa' := if gen =? GENERATION then xa else xa + a in
          match out with
          | [r; b; c; h; t] =>
              (r =? 0) && (b =? sum_size l2 + xb') && (c =? count_ae l2 + xa') &&
              (h =? b2z (has_in_flight l2)) && (t =? tl1) && ledger_ok l2 tl1 lae1 xb' xa' i' o'
          | _ => false
          end
      | [k; pn] =>
          if (1 <=? k) && (k <=? 3) then
            match out with
            | [r; b; c; h; t] =>
                match lookup pn l with
                | Some p =>
                    let l' := delete pn l in
                    let tl' := if (p_ae p =? 0) && (lae <? pn) then tl - 1 else tl in
                    (r =? (if p_gen p =? GENERATION then 1 else 2)) &&
                    (b =? sum_size l' + xb) && (c =? count_ae l' + xa) &&
                    (h =? b2z (has_in_flight l')) && (t =? tl') && ledger_ok l' tl' lae xb xa i' o'
                | None =>
                    (r =? 0) && (b =? sum_size l + xb) && (c =? count_ae l + xa) &&
                    ledger_ok l tl lae xb xa i' o'
                end
            | _ => false
            end
          else ledger_ok l tl lae xb xa i' o'
      | [4] =>
          match out with
          | [r; b; c; h; t] =>
              (r =? Z.of_nat (length l)) && (b =? xb) && (c =? xa) && (h =? 0) &&
              ledger_ok [] tl lae xb xa i' o'
          | _ => false
          end
      | _ => ledger_ok l tl lae xb xa i' o'
      end
  | _, _ => false
  end.

Definition oracle (i : ops) (o : outs) : bool :=
  if llz_eqb o [PANIC] then true else ledger_ok [] 0 0 0 0 i o.

(** All reachable states: fold of [step] over a history; [inr code] = the debug build panics. *)
Fixpoint steps (s : st) (l : list (list Z)) : st + Z :=
  match l with
  | [] => inl s
  | op :: l' => match step s op with inl (s', _) => steps s' l' | inr e => inr e end
  end.
