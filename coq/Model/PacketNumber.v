(** Model of [PacketNumber] in quinn-proto/src/packet.rs — definitions only.
    [new] panics (checked subtraction in debug builds, explicit panic for wide ranges): [None]. *)
From Coq Require Import ZArith List Bool.
From QV Require Import Lib.Bytes Lib.Corr.
Import ListNotations.
Open Scope Z_scope.

(** Encoded length chosen by [PacketNumber::new(n, largest_acked)]. *)
Definition pn_len (n la : Z) : option nat :=
  if n <? la then None
  else
    let range := (n - la) * 2 in
    if range <? 2 ^ 8 then Some 1%nat
    else if range <? 2 ^ 16 then Some 2%nat
    else if range <? 2 ^ 24 then Some 3%nat
    else if range <? 2 ^ 32 then Some 4%nat
    else None.

Definition win (len : nat) : Z := 256 ^ Z.of_nat len.

(** [new] then [encode]: [n as u8/u16/u32] truncation is [mod win]. *)
Definition encode (n la : Z) : option (nat * list Z) :=
  match pn_len n la with
  | Some len => Some (len, be_bytes len (n mod win len))
  | None => None
  end.

(** [PacketNumber::decode(len, r)]: the truncated value. *)
Definition decode (len : nat) (bs : list Z) : option Z :=
  if Nat.ltb (length bs) len then None else Some (be_val (firstn len bs) 0).

(** [expand], RFC 9000 A.3 as written in the implementation ([candidate > win], not [>=]). *)
Definition expand (len : nat) (truncated expected : Z) : Z :=
  let w := win len in
  let hwin := w / 2 in
  let candidate := (expected / w) * w + truncated in
  if (hwin <=? expected) && (candidate <=? expected - hwin) then candidate + w
  else if (expected + hwin <? candidate) && (w <? candidate) then candidate - w
  else candidate.

Definition step (op : list Z) : list Z :=
  match op with
  | [0; n; la] =>
      match encode n la with
      | Some (len, b) => 0 :: Z.of_nat len :: b
      | None => PANIC
      end
  | 1 :: len :: expected :: bs =>
      match decode (Z.to_nat len) bs with
      | Some t => [0; expand (Z.to_nat len) t expected]
      | None => [1]
      end
  | [2; n; la; expected] =>
      match encode n la with
      | Some (len, b) =>
          match decode len b with
          | Some t => [0; expand len t expected]
          | None => [1]
          end
      | None => PANIC
      end
  | _ => [-1]
  end.

Definition run (i : ops) : outs := map step i.

(** Oracle on implementation outputs: a full round trip inside the window returns [n]. *)
Definition in_window (n la expected : Z) : bool :=
  match pn_len n la with
  | Some len =>
      (0 <=? la) && (n <? 2 ^ 62) && (0 <=? expected) && (expected <? 2 ^ 62)
      && (expected - win len / 2 <? n) && (n <=? expected + win len / 2)
  | None => false
  end.

Definition oracle_step (op out : list Z) : bool :=
  match op with
  | [2; n; la; expected] =>
      if in_window n la expected then
        match out with [0; r] => Z.eqb r n | _ => false end
      else true
  | _ => true
  end.

Fixpoint oracle (i : ops) (o : outs) : bool :=
  match i, o with
  | [], [] => true
  | a :: i', b :: o' => oracle_step a b && oracle i' o'
  | _, _ => false
  end.
