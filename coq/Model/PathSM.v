(** Model of the path state machine of a [Connection] in state Established
    (quinn-proto/src/connection/mod.rs: [handle_event] Datagram arm, [handle_packet],
    [process_payload] (PATH_CHALLENGE / PATH_RESPONSE arms and the migration trigger at its end),
    [migrate], the [Timer::PathValidation] arm of [handle_timeout], [send_path_challenge], the
    PATH_CHALLENGE / PATH_RESPONSE blocks of [populate_packet] and the off-path PATH_RESPONSE of
    [poll_transmit]; quinn-proto/src/connection/paths.rs: [PathData::{new, from_previous}]) —
    definitions only.

    Addresses and tokens are integers. Per path the byte counters and the [validated] flag are an
    [AntiAmp.st] (Model/AntiAmp.v: the u64 counters with their saturating updates AND ghost
    counters [gs]/[gr] of the bytes really sent/received), so that C07's theorem applies to the
    path verbatim. [PathResponses] is Model/PathResponses.v.

    What the environment decides is an argument of the operation (oracle values, universally
    quantified in every theorem): whether the packet authenticates, whether [Dedup] calls a
    never-seen number a duplicate because it is older than its window ([d_old]), the packet number,
    the frames, the two random tokens [migrate] may draw, the two PTO values [migrate] reads, the
    datagram sizes a [poll_transmit] batch wants to send.

    Not modelled (no influence on the fields kept here): RTT / congestion / MTU state of a path
    (a migration that keeps the IPv4 address clones them, any other rebuilds them; in both cases
    [validated = false] and the counters are 0: [PathData::from_previous] and [PathData::new] agree
    on every field of this model), [update_rem_cid] (connection-ID rotation), the spin bit, ACK
    processing and in-flight accounting (C12), CONNECTION_CLOSE, coalesced long-header packets
    (after the handshake a datagram is one short-header packet), statistics counters. *)
From Coq Require Import ZArith List Bool.
From QV Require Import Lib.Corr Lib.Chk gen.Constants.
From QV Require Model.AntiAmp Model.PathResponses.
Import ListNotations.
Open Scope Z_scope.

Module AA := QV.Model.AntiAmp.
Module PR := QV.Model.PathResponses.

Record path := mkp {
  remote : Z;
  aa : AA.st;                 (* validated, total_recvd, total_sent (+ ghost true totals) *)
  challenge : option Z;
  pending : bool;             (* challenge_pending *)
  gen : Z;                    (* generation = path_counter at creation *)
}.

Definition validated (p : path) : bool := AA.validated (aa p).

Record st := mk {
  server : bool;              (* side *)
  migration : bool;           (* server_config.migration *)
  cur : path;
  prev : option path;
  counter : Z;                (* path_counter *)
  timer : option Z;           (* Timer::PathValidation deadline *)
  rx_packet : Z;              (* spaces[Data].rx_packet *)
  seen : list Z;              (* packet numbers accepted by dedup so far *)
  resps : PR.t;               (* path_responses *)
  last_valid : Z;             (* GHOST: remote of the most recently validated path *)
}.

(** [ConnectionSide::remote_may_migrate] *)
Definition may_migrate (s : st) : bool := server s && migration s.

Definition init (srv mig : bool) (addr : Z) : st :=
  mk srv mig (mkp addr (AA.fresh true) None false 0) None 0 None 0 [] [] addr.

Inductive frame :=
| FPadding                    (* PADDING, NEW_CONNECTION_ID: probing, no effect here *)
| FChallenge (tok : Z)
| FResponse (tok : Z)
| FOther.                     (* any non-probing frame: ACK, STREAM, PING, ... *)

Definition probing_frame (f : frame) : bool :=
  match f with FOther => false | _ => true end.

Record dgram := mkd {
  d_now : Z;
  d_from : Z;
  d_size : Z;
  d_auth : bool;              (* header unprotects and the AEAD tag verifies *)
  d_old : bool;               (* older than the dedup window: reported as a duplicate *)
  d_pn : Z;
  d_frames : list frame;
  d_tok_new : Z;              (* rng draws of [migrate] *)
  d_tok_prev : Z;
  d_pto_new : Z;              (* pto(Data) after the path was replaced *)
  d_pto_prev : Z;             (* pto(Data) before *)
}.

Inductive op :=
| Datagram (d : dgram)
| Timeout (now : Z)                       (* handle_timeout(now) *)
| Transmit (seg max : Z) (ds : list Z).   (* one poll_transmit: segment size, GSO limit, wanted datagram sizes *)

Fixpoint memz (x : Z) (l : list Z) : bool :=
  match l with [] => false | y :: r => (x =? y) || memz x r end.

Definition set_aa (p : path) (a : AA.st) : path := mkp (remote p) a (challenge p) (pending p) (gen p).
Definition clear_challenge (p : path) : path := mkp (remote p) (aa p) None false (gen p).
Definition set_pending (p : path) (b : bool) : path := mkp (remote p) (aa p) (challenge p) b (gen p).
Definition set_validated (p : path) : path :=
  mkp (remote p) (AA.mk true (AA.recvd (aa p)) (AA.sent (aa p)) (AA.gr (aa p)) (AA.gs (aa p)))
      None (pending p) (gen p).

(** one frame of [process_payload]; [from] = the datagram's source, [pn] its packet number *)
Definition process_frame (from pn : Z) (s : st) (f : frame) : st :=
  match f with
  | FPadding | FOther => s
  | FChallenge tok =>
      mk (server s) (migration s) (cur s) (prev s) (counter s) (timer s) (rx_packet s) (seen s)
         (PR.push MAX_PATH_RESPONSES (resps s) pn tok from) (last_valid s)
  | FResponse tok =>
      match challenge (cur s) with
      | Some t =>
          if (t =? tok) && (from =? remote (cur s)) then
            mk (server s) (migration s) (set_validated (cur s))
               (match prev s with Some p => Some (clear_challenge p) | None => None end)
               (counter s) None (rx_packet s) (seen s) (resps s) (remote (cur s))
          else s
      | None => s
      end
  end.

(** [migrate(now, remote)]; the new [PathData] is unvalidated with zeroed counters whatever the
    address looks like (there is no port-only exemption from validation) *)
Definition migrate (s : st) (d : dgram) : st :=
  let c := (counter s + 1) mod 2 ^ 64 in
  let new_path := mkp (d_from d) (AA.fresh false) (Some (d_tok_new d)) true c in
  let old := cur s in
  mk (server s) (migration s) new_path
     (match challenge old with
      | None => Some (mkp (remote old) (aa old) (Some (d_tok_prev d)) true (gen old))
      | Some _ => prev s          (* don't clobber the original path *)
      end)
     c (Some (d_now d + 3 * Z.max (d_pto_new d) (d_pto_prev d)))
     (rx_packet s) (seen s) (resps s) (last_valid s).

Definition all_probing (fs : list frame) : bool := forallb probing_frame fs.

(** [handle_packet] for a short-header packet that was decoded, on an Established connection *)
Definition handle_packet (s : st) (d : dgram) : st :=
  if negb (d_auth d) then s
  else if d_old d || memz (d_pn d) (seen s) then s       (* "discarding possible duplicate packet" *)
  else
    let s1 := mk (server s) (migration s) (cur s) (prev s) (counter s) (timer s)
                 (if rx_packet s <=? d_pn d then d_pn d else rx_packet s)
                 (d_pn d :: seen s) (resps s) (last_valid s) in
    let s2 := fold_left (process_frame (d_from d) (d_pn d)) (d_frames d) s1 in
    if negb (d_from d =? remote (cur s2)) && negb (all_probing (d_frames d))
       && (d_pn d =? rx_packet s2)
    then migrate s2 d else s2.

Definition credit (s : st) (n : Z) : st :=
  mk (server s) (migration s) (set_aa (cur s) (AA.recv (aa (cur s)) n)) (prev s) (counter s)
     (timer s) (rx_packet s) (seen s) (resps s) (last_valid s).

(** [handle_event(Datagram)] *)
Definition handle_datagram (s : st) (d : dgram) : st :=
  if negb (d_from d =? remote (cur s)) && negb (may_migrate s) then s
  else
    let s1 := handle_packet s d in
    if d_from d =? remote (cur s1) then credit s1 (d_size d) else s1.

(** the [Timer::PathValidation] arm of [handle_timeout] *)
Definition handle_timeout (s : st) (now : Z) : st :=
  match timer s with
  | Some dl =>
      if dl <=? now then
        let c := match prev s with Some p => p | None => cur s end in
        mk (server s) (migration s) (clear_challenge c) None (counter s) None
           (rx_packet s) (seen s) (resps s) (last_valid s)
      else s
  | None => s
  end.

(** [poll_transmit] past [send_path_challenge]: the datagrams it hands out as (destination, bytes) *)
Definition transmit_main (s : st) (seg max : Z) (ds : list Z) : option (st * list (Z * Z)) :=
  match ds with
  | [] => Some (s, [])
  | _ =>
      do b <- AA.blocked (aa (cur s)) 1;
      if b then Some (s, [])
      else
        match PR.pop_off_path (resps s) (remote (cur s)) with
        | (r', Some (_, a)) =>
            (* off-path PATH_RESPONSE, padded; returns early: nothing is accounted *)
            Some (mk (server s) (migration s) (cur s) (prev s) (counter s) (timer s)
                     (rx_packet s) (seen s) r' (last_valid s), [(a, MIN_INITIAL_SIZE)])
        | (_, None) =>
            do r <- AA.poll (aa (cur s)) seg max ds;
            Some (mk (server s) (migration s)
                     (set_pending (set_aa (cur s) (fst (fst r))) false) (prev s) (counter s) (timer s)
                     (rx_packet s) (seen s) (fst (PR.pop_on_path (resps s) (remote (cur s))))
                     (last_valid s),
                  [(remote (cur s), snd r)])
        end
  end.

(** one [poll_transmit] *)
Definition transmit (s : st) (seg max : Z) (ds : list Z) : option (st * list (Z * Z)) :=
  match prev s with
  | Some p =>
      if pending p then
        (* [send_path_challenge]: PATH_CHALLENGE to the previous path, padded; nothing is accounted *)
        Some (mk (server s) (migration s) (cur s) (Some (set_pending p false)) (counter s) (timer s)
                 (rx_packet s) (seen s) (resps s) (last_valid s), [(remote p, MIN_INITIAL_SIZE)])
      else transmit_main s seg max ds
  | None => transmit_main s seg max ds
  end.

Definition step (s : st) (o : op) : option (st * list (Z * Z)) :=
  match o with
  | Datagram d => Some (handle_datagram s d, [])
  | Timeout now => Some (handle_timeout s now, [])
  | Transmit seg max ds => transmit s seg max ds
  end.

(** all reachable states; [None] = a u64 overflow panic inside the anti-amplification arithmetic *)
Fixpoint steps (s : st) (l : list op) : option st :=
  match l with
  | [] => Some s
  | o :: l' => match step s o with Some (s', _) => steps s' l' | None => None end
  end.

(** the remote addresses the connection had, newest first (for the examples) *)
Fixpoint remotes (s : st) (l : list op) : list Z :=
  match l with
  | [] => [remote (cur s)]
  | o :: l' => match step s o with Some (s', _) => remote (cur s) :: remotes s' l' | None => [] end
  end.

(** [handle_coalesced]: a datagram whose first packet has a long header carries [n] further
    bytes. The repaired code credits them like the first packet — only when the datagram came
    from the current path's address ([coalesced_fixed]); before the repair they were added to the
    current path's [total_recvd] whatever the source ([coalesced_unfixed]: the u64 counter grows,
    the bytes really received from that address — the ghost [gr] — do not). *)
Definition coalesced_fixed (s : st) (from n : Z) : st :=
  if from =? remote (cur s) then credit s n else s.
Definition coalesced_unfixed (s : st) (n : Z) : st :=
  let a := aa (cur s) in
  mk (server s) (migration s)
     (set_aa (cur s) (AA.mk (AA.validated a) (sat_add (AA.recvd a) n) (AA.sent a) (AA.gr a) (AA.gs a)))
     (prev s) (counter s) (timer s) (rx_packet s) (seen s) (resps s) (last_valid s).
