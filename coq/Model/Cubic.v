(** RELATIONAL model of [Cubic] (quinn-proto/src/congestion/cubic.rs) — definitions only.

    Everything that is integer logic is modelled exactly (window, ssthresh, recovery start time,
    the saved pre-congestion state, current MTU; checked u64 arithmetic, [None] = panic). Every
    float-derived quantity is an ORACLE value supplied with the step:
      - congestion avoidance in [on_ack]: whether the accumulated [cwnd_inc] credit reached one MTU,
        i.e. whether the window grows by one MTU ([o1 <> 0]) — [w_max], [k], [cwnd_inc] are hidden;
      - [on_congestion_event]: [o1 = (window as f64 * BETA_CUBIC) as u64] and, under persistent
        congestion, [o2 = (window' as f64 * BETA_CUBIC) as u64].
    The theorems hold for ALL oracle values. In the correspondence ([run]) the oracle values are
    read back from the implementation's own observation (window, ssthresh after the call, appended
    to each op by the generator as two trailing hint arguments which the hook ignores): the model
    then recomputes the observation from ITS state and those oracle values, and the result must
    equal the implementation's output; [run] additionally insists that the beta products lie
    within 2 of 7/10 of the window. This is a relational tie: the float results themselves are
    trusted to be whatever the implementation computed. *)
From Coq Require Import ZArith List Bool.
From QV Require Import Lib.Corr Lib.Chk.
Import ListNotations.
Open Scope Z_scope.

(** The part of [State] that is integer-valued. [rs]: recovery_start_time (None = never). *)
Record core := mkc { window : Z; ssthresh : Z; rs : option Z }.
Record st := mk { mtu : Z; cur : core; prior : option core; iw : Z }.

Definition min_window (m : Z) : Z := 2 * m.

Definition build (initial_window m : Z) : st :=
  mk m (mkc initial_window U64MAX None) None initial_window.

Definition in_recovery (c : core) (sent : Z) : bool :=
  match rs c with Some r => sent <=? r | None => false end.

Definition arg (a : list Z) (k : nat) : Z := nth k a 0.

(** [o1 <> 0]: the float computation granted one MTU of growth in congestion avoidance. *)
Definition on_ack (s : st) (now sent bytes app_limited o1 : Z) : option st :=
  let c := cur s in
  if nz app_limited || in_recovery c sent then Some s
  else if window c <? ssthresh c then
    do w <- cadd (window c) bytes;
    Some (mk (mtu s) (mkc w (ssthresh c) (rs c)) (prior s) (iw s))
  else
    let rs' := match rs c with Some t => Some t | None => Some now end in
    if nz o1 then
      do w <- cadd (window c) (mtu s);
      Some (mk (mtu s) (mkc w (ssthresh c) rs') (prior s) (iw s))
    else Some (mk (mtu s) (mkc (window c) (ssthresh c) rs') (prior s) (iw s)).

(** [o1 = (window * BETA) as u64]; [o2 = (window' * BETA) as u64] under persistent congestion. *)
Definition on_congestion_event (s : st) (now sent persistent ecn o1 o2 : Z) : st :=
  let c := cur s in
  if in_recovery c sent then s
  else
    let pr := if nz ecn then prior s else Some c in
    let ss := Z.max o1 (min_window (mtu s)) in
    if nz persistent then
      mk (mtu s) (mkc (min_window (mtu s)) (Z.max o2 (min_window (mtu s))) None) pr (iw s)
    else mk (mtu s) (mkc ss ss (Some now)) pr (iw s).

Definition on_spurious (s : st) : st :=
  match prior s with
  | Some p =>
      if window (cur s) <? window p then mk (mtu s) p None (iw s)
      else mk (mtu s) (cur s) None (iw s)
  | None => s
  end.

Definition on_mtu_update (s : st) (new_mtu : Z) : st :=
  let c := cur s in
  mk new_mtu (mkc (Z.max (window c) (min_window new_mtu)) (ssthresh c) (rs c)) (prior s) (iw s).

(** One call [op = opcode :: args] with oracle values; on_sent and on_end_acks are default no-ops. *)
Definition step (s : st) (op : list Z) (o1 o2 : Z) : option st :=
  match op with
  | [] => Some s
  | c :: a =>
      if c =? 2 then on_ack s (arg a 0) (arg a 1) (arg a 2) (arg a 3) o1
      else if c =? 4 then Some (on_congestion_event s (arg a 0) (arg a 1) (arg a 2) (arg a 3) o1 o2)
      else if c =? 5 then Some (on_spurious s)
      else if c =? 6 then Some (on_mtu_update s (arg a 0))
      else Some s
  end.

(** All reachable states: a history is a list of (op, oracle values). *)
Fixpoint steps (s : st) (l : list (list Z * (Z * Z))) : option st :=
  match l with
  | [] => Some s
  | (op, (o1, o2)) :: l' => match step s op o1 o2 with Some s' => steps s' l' | None => None end
  end.

Definition obs (s : st) : list Z := [window (cur s); ssthresh (cur s); iw s].

(** Split an op into its proper arguments and the two trailing hints (window, ssthresh observed on
    the implementation after the call). *)
Definition arity (opc : Z) : nat :=
  if opc =? 0 then 3%nat else if opc =? 1 then 4%nat else if opc =? 2 then 6%nat
  else if opc =? 3 then 6%nat else if opc =? 4 then 6%nat else if opc =? 5 then 1%nat
  else if opc =? 6 then 2%nat else 0%nat.

Definition split_hints (op : list Z) : option (list Z * Z * Z) :=
  match op with
  | [] => None
  | opc :: _ =>
      let n := arity opc in
      match skipn n op with
      | [hw; hs] => if Nat.eqb n 0 then None else Some (firstn n op, hw, hs)
      | _ => None
      end
  end.

(** Is [o] within 2 of 7w/10 (only claimed below 2^50 where f64 is exact on the operands)? *)
Definition beta_ok (w o : Z) : bool :=
  if w <? 2 ^ 50 then (7 * w / 10 - 2 <=? o) && (o <=? 7 * w / 10 + 2) else true.

(** Oracle values derived from the hints, with their plausibility check. *)
Definition derive (s : st) (op : list Z) (hw hs : Z) : Z * Z * bool :=
  let c := cur s in
  match op with
  | [] => (0, 0, true)
  | opc :: a =>
      if opc =? 2 then (b2z (hw =? window c + mtu s), 0, true)
      else if opc =? 4 then
        if in_recovery c (arg a 1) then (0, 0, true)
        else if nz (arg a 2) then
          (* o1 is overwritten and unobservable; o2 is checked against 0.7 of max(0.7 w, floor) *)
          let w1 := Z.max (7 * window c / 10) (min_window (mtu s)) in
          (0, hs, (hs =? min_window (mtu s)) || beta_ok w1 hs)
        else (hs, 0, (hs =? min_window (mtu s)) || beta_ok (window c) hs)
      else (0, 0, true)
  end.

Fixpoint go (s : option st) (i : ops) : option outs :=
  match i with
  | [] => Some []
  | op :: i' =>
      match split_hints op with
      | None => do r <- go s i'; Some ([-1] :: r)
      | Some (op0, hw, hs) =>
          match op0 with
          | [0; w; m] => let s' := build w m in do r <- go (Some s') i'; Some (obs s' :: r)
          | _ =>
              match s with
              | None => do r <- go s i'; Some ([-1] :: r)
              | Some s0 =>
                  let '(o1, o2, ok) := derive s0 op0 hw hs in
                  do s' <- step s0 op0 o1 o2;
                  do r <- go (Some s') i';
                  Some ((if ok then obs s' else [-2]) :: r)
              end
          end
      end
  end.

Definition run (i : ops) : outs :=
  match go None i with Some r => r | None => [PANIC] end.

(** Oracle on the implementation's outputs: window >= 2 * current MTU after every call. *)
Fixpoint floor_ok (m : Z) (i : ops) (o : outs) : bool :=
  match i, o with
  | [], [] => true
  | op :: i', out :: o' =>
      let m' := match op with 0 :: _ :: m0 :: _ => m0 | 6 :: nm :: _ => nm | _ => m end in
      if lz_eqb out [-1] then floor_ok m' i' o'
      else match out with
           | w :: _ => (2 * m' <=? w) && floor_ok m' i' o'
           | [] => false
           end
  | _, _ => false
  end.

Definition built_ok (i : ops) : bool :=
  match i with (0 :: w :: m :: _) :: _ => 2 * m <=? w | _ => true end.

Definition oracle (i : ops) (o : outs) : bool :=
  if llz_eqb o [PANIC] then true
  else if built_ok i then floor_ok 0 i o else true.
