(** Model of quinn-proto/src/connection/assembler.rs — definitions only.

    [std::collections::BinaryHeap<Buffer>] is modelled EXACTLY as its backing vector with the
    standard library's sift operations (push = sift_up, pop = swap-remove + sift_down_to_bottom,
    PeekMut drop after a mutation = sift_down(0), into_sorted_vec = in-place heap sort), because
    the pop order among buffers that compare equal (same offset, same length, different
    allocation_size / defragmented flag) is observable through the defragmentation trigger.
    Hole moves are written as swaps (same resulting vector).

    Arithmetic that can panic in the Rust code (debug assertions, usize/u64 subtraction,
    [Bytes::advance]/[split_to] out of range) is checked: an op that would panic yields [None],
    and [run] then returns [Corr.PANIC] for the whole case.

    The model follows the code AFTER two repairs (DESIGN §7 procedure):
    - `fix: Assembler::insert ignores empty frames` ([insert] returns early when [bytes] is empty;
      before, an empty frame in unordered mode planted an empty range in [recvd], after which an
      overlapping frame was buffered and delivered twice);
    - `fix: Assembler::defragment discards data below bytes_read in ordered mode` (before, a stale
      duplicate chunk below [bytes_read] survived the ordered->unordered switch and was delivered
      again).
    Every definition that depends on a repair takes the flag [fixed]; [fixed = false] is the
    previous behaviour, kept for the refutation witnesses in Props/C01.v ([run_unfixed]). *)
From Coq Require Import ZArith List Bool.
From QV Require Import Lib.Corr Lib.Bytes Lib.RangeSpec Model.RangeSet.
Import ListNotations.
Open Scope Z_scope.

Record buf := mkBuf { b_off : Z; b_bytes : list Z; b_alloc : Z; b_defrag : bool }.

Definition blen (b : buf) : Z := zlen (b_bytes b).
Definition bend (b : buf) : Z := b_off b + blen b.
Definition dbuf : buf := mkBuf 0 [] 0 false.

(** [a <= b] for [impl Ord for Buffer]: offset reversed, then length. *)
Definition ble (a b : buf) : bool :=
  if b_off a =? b_off b then blen a <=? blen b else b_off b <? b_off a.
Definition blt (a b : buf) : bool := negb (ble b a).

(* ---------------------------------------------------------------- the binary heap vector *)
Definition heap := list buf.

Fixpoint set_nth (i : nat) (x : buf) (l : heap) : heap :=
  match l, i with
  | [], _ => []
  | _ :: t, O => x :: t
  | a :: t, S k => a :: set_nth k x t
  end.

Definition hget (h : heap) (i : nat) : buf := nth i h dbuf.
Definition swap (h : heap) (i j : nat) : heap :=
  set_nth i (hget h j) (set_nth j (hget h i) h).

(** [sift_up(0, pos)]; fuel >= pos + 1 is never exhausted (pos strictly decreases). *)
Fixpoint sift_up (fuel : nat) (h : heap) (pos : nat) : heap :=
  match fuel with
  | O => h
  | S f =>
      match pos with
      | O => h
      | S _ =>
          let parent := Nat.div (pos - 1) 2 in
          if ble (hget h pos) (hget h parent) then h
          else sift_up f (swap h pos parent) parent
      end
  end.

Definition push (h : heap) (x : buf) : heap :=
  sift_up (S (length h)) (h ++ [x]) (length h).

(** index of the greater child: [child += (hole.get(child) <= hole.get(child + 1))] *)
Definition greater_child (h : heap) (child : nat) : nat :=
  if ble (hget h child) (hget h (child + 1)) then (child + 1)%nat else child.

(** [sift_down_range(pos, end)]; fuel >= end is never exhausted (pos strictly increases). *)
Fixpoint sift_down_range (fuel : nat) (h : heap) (pos end_ : nat) : heap :=
  match fuel with
  | O => h
  | S f =>
      let child := (2 * pos + 1)%nat in
      if Nat.leb child (end_ - 2) then
        let c := greater_child h child in
        if ble (hget h c) (hget h pos) then h
        else sift_down_range f (swap h pos c) c end_
      else if Nat.eqb child (end_ - 1) && blt (hget h pos) (hget h child) then swap h pos child
      else h
  end.

(** [sift_down_to_bottom(0)] with [end = len]: down to a leaf, then [sift_up(0, pos)]. *)
Fixpoint sift_down_to_bottom (fuel : nat) (h : heap) (pos end_ : nat) : heap :=
  match fuel with
  | O => h
  | S f =>
      let child := (2 * pos + 1)%nat in
      if Nat.leb child (end_ - 2) then
        let c := greater_child h child in
        sift_down_to_bottom f (swap h pos c) c end_
      else if Nat.eqb child (end_ - 1) then sift_up (S child) (swap h pos child) child
      else sift_up (S pos) h pos
  end.

(** [BinaryHeap::pop] *)
Definition pop (h : heap) : option (buf * heap) :=
  match rev h with
  | [] => None
  | item :: rest_rev =>
      let rest := rev rest_rev in
      match rest with
      | [] => Some (item, [])
      | top :: _ =>
          let h' := set_nth 0 item rest in
          Some (top, sift_down_to_bottom (S (length h')) h' 0 (length h'))
      end
  end.

(** [PeekMut] dropped after the top element was mutated to [x]: [sift_down(0)]. *)
Definition replace_top (h : heap) (x : buf) : heap :=
  let h' := set_nth 0 x h in
  sift_down_range (S (length h')) h' 0 (length h').

(** [into_sorted_vec]: [while end > 1 { end -= 1; swap(0, end); sift_down_range(0, end) }] *)
Fixpoint sort_loop (e : nat) (h : heap) : heap :=
  match e with
  | S e' =>
      match e' with
      | S _ => sort_loop e' (sift_down_range (S e') (swap h 0 e') 0 e')
      | O => h
      end
  | O => h
  end.

Definition into_sorted_vec (h : heap) : heap := sort_loop (length h) h.

(* ---------------------------------------------------------------- the assembler *)
Record t := mk {
  ordered : bool;          (* State::Ordered / State::Unordered { recvd } *)
  recvd : rmap;
  data : heap;
  buffered : Z;
  allocated : Z;
  bytes_read : Z;
  end_ : Z
}.

Definition init : t := mk true [] [] 0 0 0 0.

Definition set_data (a : t) (d : heap) : t :=
  mk (ordered a) (recvd a) d (buffered a) (allocated a) (bytes_read a) (end_ a).

(** checked subtraction ([None] = the Rust code panics on underflow, debug profile) *)
Definition csub (a b : Z) : option Z := if b <=? a then Some (a - b) else None.

Definition zskipn (n : Z) (l : list Z) : list Z := skipn (Z.to_nat n) l.
Definition zfirstn (n : Z) (l : list Z) : list Z := firstn (Z.to_nat n) l.

(** [Buffer::try_mark_defragment(offset)] *)
Definition try_mark_defragment (c : buf) (offset : Z) : buf :=
  let duplicate := Z.max 0 (offset - b_off c) in       (* saturating_sub *)
  let off' := Z.max (b_off c) offset in
  if blen c <=? duplicate then mkBuf off' [] 0 true
  else
    let bytes' := zskipn duplicate (b_bytes c) in
    let defr := b_defrag c || (b_alloc c <=? zlen bytes' * 6 / 5) in
    mkBuf off' bytes' (if defr then zlen bytes' else b_alloc c) defr.

(** first loop of [defragment] over [buffers.iter_mut().rev()]: marks every chunk; returns the
    marked chunks (in iteration order) and the new [buffered]. *)
Fixpoint mark_all (cs : list buf) (offset : Z) (acc_buffered : Z) : list buf * Z :=
  match cs with
  | [] => ([], acc_buffered)
  | c :: r =>
      let c' := try_mark_defragment c offset in
      let '(r', b) := mark_all r (bend c') (acc_buffered + blen c') in
      (c' :: r', b)
  end.

(** second loop of [defragment]: rebuilds the heap, copying runs of contiguous fragmented chunks
    into one defragmented buffer. State: new heap, [offset], [buffer]. *)
Fixpoint rebuild (cs : list buf) (h : heap) (offset : Z) (buffer : list Z) : heap :=
  match cs with
  | [] =>
      match buffer with
      | [] => h
      | _ => push h (mkBuf offset buffer (zlen buffer) true)
      end
  | c :: r =>
      if b_defrag c then
        rebuild r (match b_bytes c with [] => h | _ => push h c end) offset buffer
      else if b_off c =? offset + zlen buffer then
        rebuild r h offset (buffer ++ b_bytes c)
      else
        match buffer with
        | [] => rebuild r h (b_off c) (b_bytes c)
        | _ => rebuild r (push h (mkBuf offset buffer (zlen buffer) true)) (b_off c) (b_bytes c)
        end
  end.

Definition defragment (fixed : bool) (a : t) : t :=
  let buffers := rev (into_sorted_vec (data a)) in
  let start := if fixed && ordered a then bytes_read a else 0 in
  let '(marked, nbuf) := mark_all buffers start 0 in
  mk (ordered a) (recvd a) (rebuild marked [] 0 []) nbuf nbuf (bytes_read a) (end_ a).

(** [ensure_ordering]: [None] = Err(IllegalOrderedRead) *)
Definition ensure_ordering (fixed : bool) (a : t) (ord : bool) : option t :=
  if ord && negb (ordered a) then None
  else if negb ord && ordered a then
    let a1 := match data a with [] => a | _ => defragment fixed a end in
    let r0 := snd (RangeSet.insert 0 (bytes_read a1) []) in
    let r := fold_left (fun m c => snd (RangeSet.insert (b_off c) (bend c) m)) (data a1) r0 in
    Some (mk false r (data a1) (buffered a1) (allocated a1) (bytes_read a1) (end_ a1))
  else Some a.

(** result of one [read]: [None] = panic; [Some (a', None)] = no chunk *)
Fixpoint read_loop (fuel : nat) (a : t) (max_length : Z) (ord : bool)
  : option (t * option (Z * list Z)) :=
  match fuel with
  | O => Some (a, None)      (* unreachable: fuel = S (length data), each iteration pops *)
  | S f =>
      match data a with
      | [] => Some (a, None)
      | chunk :: _ =>
          (* ordered: skip / trim *)
          let trimmed :=
            if ord then
              if bytes_read a <? b_off chunk then inl (Some (a, None))      (* return None *)
              else if bend chunk <=? bytes_read a then
                (* useless chunk: pop and continue *)
                match csub (buffered a) (blen chunk), csub (allocated a) (b_alloc chunk), pop (data a) with
                | Some bu, Some al, Some (_, h') =>
                    inl (read_loop f (mk (ordered a) (recvd a) h' bu al (bytes_read a) (end_ a))
                                   max_length ord)
                | _, _, _ => inl None
                end
              else
                let start := bytes_read a - b_off chunk in
                if 0 <? start then
                  match csub (buffered a) start with
                  | Some bu =>
                      inr (mkBuf (b_off chunk + start) (zskipn start (b_bytes chunk))
                                 (b_alloc chunk) (b_defrag chunk),
                           bu, true)
                  | None => inl None
                  end
                else inr (chunk, buffered a, false)
            else inr (chunk, buffered a, false) in
          match trimmed with
          | inl r => r
          | inr (chunk, bu, mutated) =>
              if max_length <? blen chunk then
                match csub bu max_length with
                | Some bu' =>
                    let chunk' := mkBuf (b_off chunk + max_length) (zskipn max_length (b_bytes chunk))
                                        (b_alloc chunk) (b_defrag chunk) in
                    Some (mk (ordered a) (recvd a) (replace_top (data a) chunk') bu' (allocated a)
                             (bytes_read a + max_length) (end_ a),
                          Some (b_off chunk, zfirstn max_length (b_bytes chunk)))
                | None => None
                end
              else
                match csub bu (blen chunk), csub (allocated a) (b_alloc chunk), pop (data a) with
                | Some bu', Some al, Some (_, h') =>
                    Some (mk (ordered a) (recvd a) h' bu' al (bytes_read a + blen chunk) (end_ a),
                          Some (b_off chunk, b_bytes chunk))
                | _, _, _ => None
                end
          end
      end
  end.

Definition read (a : t) (max_length : Z) (ord : bool) : option (t * option (Z * list Z)) :=
  read_loop (S (length (data a))) a max_length ord.

Definition push_buffer (a : t) (b : buf) : t :=
  mk (ordered a) (recvd a) (push (data a) b) (buffered a + blen b) (allocated a + b_alloc b)
     (bytes_read a) (end_ a).

(** the [for duplicate in recvd.replace(..)] loop body, over the items the loop sees *)
Fixpoint discard_dups (dups : list (Z * Z)) (a : t) (offset : Z) (bytes : list Z) (alloc : Z)
  : option (t * Z * list Z) :=
  match dups with
  | [] => Some (a, offset, bytes)
  | (ds, de) :: r =>
      let '(a1, offset1, bytes1, ok1) :=
        if offset <? ds then
          let n := ds - offset in
          (push_buffer a (mkBuf offset (zfirstn n bytes) alloc false), ds, zskipn n bytes,
           n <=? zlen bytes)                                  (* split_to panics beyond len *)
        else (a, offset, bytes, true) in
      if ok1 && (offset1 <=? de) && (de - offset1 <=? zlen bytes1) then  (* advance in range *)
        discard_dups r a1 de (zskipn (de - offset1) bytes1) alloc
      else None
  end.

(** tail of [insert]: push the remaining bytes and run the over-allocation check.
    Result: [Some (a', true)] = Ok, [Some (a', false)] = Err(TooManyChunks), [None] = panic. *)
Definition insert_tail (fixed : bool) (a : t) (offset : Z) (bytes : list Z) (alloc : Z)
  : option (t * bool) :=
  match bytes with
  | [] => Some (a, true)
  | _ =>
      let a1 := push_buffer a (mkBuf offset bytes alloc false) in
      match csub (end_ a1) (bytes_read a1) with
      | None => None
      | Some window =>
          let buffered' := Z.min (buffered a1) window in
          match csub (allocated a1) buffered' with
          | None => None
          | Some over_allocation =>
              let threshold := Z.max 32768 (buffered' * 3 / 2) in
              if threshold <? over_allocation then
                let a2 := defragment fixed a1 in
                Some (a2, Nat.leb (length (data a2)) 1024)
              else Some (a1, true)
          end
      end
  end.

Definition insert_body (fixed : bool) (a0 : t) (offset : Z) (bytes : list Z) (alloc : Z)
  : option (t * bool) :=
  if negb (ordered a0) then
    let '(dups, recvd') := RangeSet.replace offset (offset + zlen bytes) (recvd a0) in
    match discard_dups dups a0 offset bytes alloc with
    | None => None
    | Some (a1, offset1, bytes1) =>
        insert_tail fixed (mk (ordered a1) recvd' (data a1) (buffered a1) (allocated a1)
                        (bytes_read a1) (end_ a1)) offset1 bytes1 alloc
    end
  else if offset <? bytes_read a0 then
    if offset + zlen bytes <=? bytes_read a0 then Some (a0, true)
    else
      let diff := bytes_read a0 - offset in
      insert_tail fixed a0 (offset + diff) (zskipn diff bytes) alloc
  else insert_tail fixed a0 offset bytes alloc.

Definition with_end (a : t) (offset : Z) (bytes : list Z) : t :=
  mk (ordered a) (recvd a) (data a) (buffered a) (allocated a) (bytes_read a)
     (Z.max (end_ a) (offset + zlen bytes)).

(** [insert]; with [fixed], empty frames only update [end]. *)
Definition insert (fixed : bool) (a : t) (offset : Z) (bytes : list Z) (alloc : Z)
  : option (t * bool) :=
  if alloc <? zlen bytes then None                      (* debug_assert *)
  else
    let a0 := with_end a offset bytes in
    match bytes with
    | [] => if fixed then Some (a0, true) else insert_body fixed a0 offset bytes alloc
    | _ => insert_body fixed a0 offset bytes alloc
    end.

Definition clear (a : t) : t := mk (ordered a) (recvd a) [] 0 0 (bytes_read a) (end_ a).

(* ---------------------------------------------------------------- integer interface *)
Fixpoint probe_heap (h : heap) : list Z :=
  match h with
  | [] => []
  | b :: r => b_off b :: blen b :: b_alloc b :: b2z (b_defrag b) :: probe_heap r
  end.

Definition probe (a : t) : list Z :=
  [b2z (ordered a); buffered a; allocated a; end_ a; zlen (map b_off (data a))] ++
  probe_heap (data a) ++
  (if ordered a then [0] else Z.of_nat (length (recvd a)) :: RangeSpec.flat (recvd a)).

Definition zbool (z : Z) : bool := negb (z =? 0).

Section WithFixed.
Variable fixed : bool.

Definition step_with (a : t) (op : list Z) : option (t * list Z) :=
  match op with
  | 0 :: offset :: alloc :: bytes =>
      match insert fixed a offset bytes alloc with
      | Some (a', true) => Some (a', [0])
      | Some (a', false) => Some (a', [1])
      | None => None
      end
  | [1; max_length; ord] =>
      match ensure_ordering fixed a (zbool ord) with
      | None => Some (a, [2])
      | Some a1 =>
          match read a1 max_length (zbool ord) with
          | None => None
          | Some (a2, None) => Some (a2, [0])
          | Some (a2, Some (off, bytes)) => Some (a2, 1 :: off :: bytes)
          end
      end
  | [2; ord] =>
      match ensure_ordering fixed a (zbool ord) with
      | None => Some (a, [1])
      | Some a1 => Some (a1, [0])
      end
  | [3] => Some (a, [bytes_read a])
  | [4] => Some (clear a, [0])
  | [5] => Some (init, [0])
  | [6] => Some (a, probe a)
  | [7; _] => Some (a, [0])
  | _ => Some (a, [-1])
  end.

Fixpoint run_from_with (a : t) (i : ops) : option outs :=
  match i with
  | [] => Some []
  | op :: r =>
      match step_with a op with
      | None => None
      | Some (a', o) =>
          match run_from_with a' r with
          | None => None
          | Some os => Some (o :: os)
          end
      end
  end.
End WithFixed.

Definition step := step_with true.
Definition run (i : ops) : outs :=
  match run_from_with true init i with
  | Some o => o
  | None => [PANIC]
  end.
Definition run_unfixed (i : ops) : outs :=
  match run_from_with false init i with
  | Some o => o
  | None => [PANIC]
  end.

(* ---------------------------------------------------------------- property oracle *)
(** The written byte sequence is the deterministic pattern [w salt x]; the salt is carried by the
    op [7; salt] (0 if absent).  The oracle applies when every inserted byte agrees with the
    pattern (consistent inserts); it then requires of the IMPLEMENTATION's outputs:
    - every returned chunk equals the pattern at its offset (no alteration);
    - ordered reads: the chunk starts exactly at the number of bytes returned so far (gap-free,
      in-order prefix) and the [bytes_read] op reports that number;
    - unordered reads: the chunk does not overlap any range returned before (including the prefix
      returned by earlier ordered reads) — exactly once;
    - a non-empty chunk is only returned for offsets that were inserted (below the largest
      inserted end);
    - no loss (progress): an ordered read returns nothing only if the next byte ([bytes_read]) was
      not inserted since the last clear; an unordered read returns nothing only if every byte
      inserted has been returned (checked in cases without clear);
    - IllegalOrderedRead exactly when an ordered read follows an unordered one;
    - no panic.
    [reinit] restarts the bookkeeping; [clear] keeps it (data may be lost by request, never
    duplicated). *)
Definition w (salt x : Z) : Z := (x * 7 + 3 + salt * 13 + x / 256) mod 256.

Fixpoint matches_pattern (salt off : Z) (bytes : list Z) : bool :=
  match bytes with
  | [] => true
  | b :: r => (b =? w salt off) && matches_pattern salt (off + 1) r
  end.

Definition salt_of (i : ops) : Z :=
  match i with
  | [7; s] :: _ => s
  | _ => 0
  end.

Definition consistent (salt : Z) (i : ops) : bool :=
  forallb (fun op => match op with
                     | 0 :: offset :: alloc :: bytes =>
                         matches_pattern salt offset bytes && (zlen bytes <=? alloc) && (0 <=? offset)
                     | _ => true
                     end) i.

Definition overlaps (l : list (Z * Z)) (s e : Z) : bool :=
  existsb (fun '(a, b) => (a <? e) && (s <? b)) l.

(** every integer of [a, b) lies in one of the ranges of [l] (walk from [a], jumping to the
    largest end of a range covering the current point; fuel = number of ranges + 1) *)
Fixpoint covered_walk (fuel : nat) (l : list (Z * Z)) (a b : Z) : bool :=
  if b <=? a then true
  else
    match fuel with
    | O => false
    | S f =>
        match filter (fun '(s, e) => (s <=? a) && (a <? e)) l with
        | [] => false
        | (_, e0) :: rest => covered_walk f l (fold_left (fun m '(_, e) => Z.max m e) rest e0) b
        end
    end.
Definition covered_by (l : list (Z * Z)) (a b : Z) : bool := covered_walk (S (length l)) l a b.

(** state: unordered seen, returned ranges, total returned, largest inserted end, ranges inserted
    since the last clear, whether a clear happened *)
Fixpoint oracle_from (salt : Z) (unord : bool) (ret : list (Z * Z)) (total hi : Z)
         (ins : list (Z * Z)) (cleared : bool) (i : ops) (o : outs) : bool :=
  match i, o with
  | [], [] => true
  | op :: i', out :: o' =>
      match op, out with
      | 0 :: offset :: alloc :: bytes, [_] =>
          oracle_from salt unord ret total (Z.max hi (offset + zlen bytes))
                      ((offset, offset + zlen bytes) :: ins) cleared i' o'
      | [1; max_length; ord], [2] =>
          zbool ord && unord && oracle_from salt unord ret total hi ins cleared i' o'
      | [1; max_length; ord], [0] =>
          (if zbool ord then negb unord && negb (overlaps ins total (total + 1))
           else cleared || forallb (fun '(a, b) => covered_by ret a b) ins) &&
          oracle_from salt (unord || negb (zbool ord)) ret total hi ins cleared i' o'
      | [1; max_length; ord], 1 :: off :: bytes =>
          let n := zlen bytes in
          matches_pattern salt off bytes && (n <=? Z.max 0 max_length) && (off + n <=? hi) &&
          (if zbool ord then negb unord && (off =? total)
           else negb (overlaps ret off (off + n))) &&
          oracle_from salt (unord || negb (zbool ord))
                      (if 0 <? n then (off, off + n) :: ret else ret) (total + n) hi ins cleared i' o'
      | [2; ord], [r] =>
          (r =? b2z (zbool ord && unord)) &&
          oracle_from salt (unord || negb (zbool ord)) ret total hi ins cleared i' o'
      | [3], [n] => (n =? total) && oracle_from salt unord ret total hi ins cleared i' o'
      | [4], [_] => oracle_from salt unord ret total hi [] true i' o'
      | [5], [_] => oracle_from salt false [] 0 0 [] false i' o'
      | [-999], _ => false
      | _, _ => oracle_from salt unord ret total hi ins cleared i' o'
      end
  | _, _ => false
  end.

Definition oracle (i : ops) (o : outs) : bool :=
  let salt := salt_of i in
  if consistent salt i then
    match o with
    | [[-999]] => false
    | _ => oracle_from salt false [] 0 0 [] false i o
    end
  else true.
