(** Model of [DatagramState] and [Datagrams::{send, max_size, recv, send_buffer_space}]
    (quinn-proto/src/connection/datagrams.rs), debug build — definitions only.

    Payloads are byte lists.  [usize] subtraction is checked ([Panic]); the [while] loop of
    [received] is structurally recursive on the queue and reports [Hang] where the Rust loop
    would spin on an empty queue.  The theorems prove [Panic]/[Hang] unreachable. *)
From Coq Require Import ZArith List Bool.
From QV Require Import Lib.Bytes Lib.Corr Model.Varint gen.Constants.
Import ListNotations.
Open Scope Z_scope.

Inductive res (A : Type) := Ok (a : A) | Panic | Hang.
Arguments Ok {A} a.
Arguments Panic {A}.
Arguments Hang {A}.

Definition bytes := list Z.

(** Connection-level context the datagram API reads. *)
Record Ctx := mkCtx {
  recv_buf : option Z;      (* config.datagram_receive_buffer_size *)
  send_buf : Z;             (* config.datagram_send_buffer_size *)
  peer_max : option Z;      (* peer_params.max_datagram_frame_size *)
  mtu : Z;                  (* path.current_mtu() *)
  cid_len : Z               (* rem_cids.active().len() *)
}.

Record DState := mkD {
  incoming : list bytes; recv_buffered : Z;
  outgoing : list bytes; outgoing_total : Z;
  send_blocked : bool }.

Definition init : DState := mkD [] 0 [] 0 false.

Definition USIZE_MAX : Z := 2 ^ 64 - 1.
Definition TAG_LEN : Z := 16.

(** [predict_1rtt_overhead(None)]: flags + remote CID + 4-byte packet number + AEAD tag. *)
Definition overhead (c : Ctx) : Z := 1 + cid_len c + 4 + TAG_LEN.

(** [Datagrams::max_size]: [Ok None] = unsupported by peer; [Panic] = usize underflow. *)
Definition max_size_gen (SIZE_BOUND : Z) (c : Ctx) : res (option Z) :=
  let m := mtu c - overhead c - SIZE_BOUND in
  if m <? 0 then Panic
  else match peer_max c with
       | None => Ok None
       | Some p => Ok (Some (Z.min (Z.max 0 (p - SIZE_BOUND)) m))
       end.
Definition max_size := max_size_gen DATAGRAM_SIZE_BOUND.

Definition has_space (total len size : Z) : bool :=
  if USIZE_MAX <? total + len then false else total + len <=? size.

(** [make_space_for]: pops from the front until the new datagram fits or the queue is empty. *)
Fixpoint make_space (out : list bytes) (total len size : Z) : res (list bytes * Z) :=
  if has_space total len size then Ok (out, total)
  else match out with
       | [] => Ok ([], total)
       | d :: r => if total <? zlen d then Panic else make_space r (total - zlen d) len size
       end.

(** Result codes of [send]. *)
Definition S_OK := 0. Definition S_UNSUPPORTED := 1. Definition S_DISABLED := 2.
Definition S_TOOLARGE := 3. Definition S_BLOCKED := 4.

Definition send (c : Ctx) (s : DState) (data : bytes) (drop : bool) : res (DState * Z) :=
  match recv_buf c with
  | None => Ok (s, S_DISABLED)
  | Some _ =>
      match max_size c with
      | Panic => Panic | Hang => Hang
      | Ok None => Ok (s, S_UNSUPPORTED)
      | Ok (Some mx) =>
          let len := zlen data in
          if Z.min mx (send_buf c) <? len then Ok (s, S_TOOLARGE)
          else if drop then
            match make_space (outgoing s) (outgoing_total s) len (send_buf c) with
            | Ok (out, total) =>
                Ok (mkD (incoming s) (recv_buffered s) (out ++ [data]) (total + len) (send_blocked s), S_OK)
            | Panic => Panic | Hang => Hang
            end
          else if has_space (outgoing_total s) len (send_buf c) then
            Ok (mkD (incoming s) (recv_buffered s) (outgoing s ++ [data]) (outgoing_total s + len)
                    (send_blocked s), S_OK)
          else Ok (mkD (incoming s) (recv_buffered s) (outgoing s) (outgoing_total s) true, S_BLOCKED)
      end
  end.

(** [Datagram::size(true)] and [encode(true, _)]: type 0x31, varint length, payload. *)
Definition frame_size (d : bytes) : option Z :=
  match Varint.size (zlen d) with Some n => Some (1 + n + zlen d) | None => None end.
Definition frame_encode (d : bytes) : option bytes :=
  match Varint.encode (zlen d) with Some l => Some (49 :: l ++ d) | None => None end.

(** [write(buf, max_size)] with [buf.len() = buf_len]; returns the bytes appended. *)
Definition write (s : DState) (buf_len max : Z) : res (DState * option bytes) :=
  match outgoing s with
  | [] => Ok (s, None)
  | d :: r =>
      match frame_size d, frame_encode d with
      | Some sz, Some enc =>
          if max <? buf_len + sz then Ok (s, None)
          else if outgoing_total s <? zlen d then Panic
          else Ok (mkD (incoming s) (recv_buffered s) r (outgoing_total s - zlen d) (send_blocked s),
                   Some enc)
      | _, _ => Panic
      end
  end.

Definition recv (s : DState) : res (DState * option bytes) :=
  match incoming s with
  | [] => Ok (s, None)
  | d :: r =>
      if recv_buffered s <? zlen d then Panic
      else Ok (mkD r (recv_buffered s - zlen d) (outgoing s) (outgoing_total s) (send_blocked s), Some d)
  end.

(** The eviction loop of [received]. *)
Fixpoint drop_stale (inc : list bytes) (rb len window : Z) : res (list bytes * Z) :=
  if window <? len + rb then
    match inc with
    | [] => Hang
    | d :: r => if rb <? zlen d then Panic else drop_stale r (rb - zlen d) len window
    end
  else Ok (inc, rb).

(** [received]: [Ok (s, None)] = PROTOCOL_VIOLATION, [Ok (s, Some was_empty)] = accepted. *)
Definition received (s : DState) (d : bytes) (window : option Z) : res (DState * option bool) :=
  match window with
  | None => Ok (s, None)
  | Some w =>
      if w <? zlen d then Ok (s, None)
      else
        let was_empty := recv_buffered s =? 0 in
        match drop_stale (incoming s) (recv_buffered s) (zlen d) w with
        | Ok (inc, rb) =>
            Ok (mkD (inc ++ [d]) (rb + zlen d) (outgoing s) (outgoing_total s) (send_blocked s),
                Some was_empty)
        | Panic => Panic | Hang => Hang
        end
  end.

(** [drop_oversized(max_payload)]: keeps exactly the datagrams with [len < max_payload]. *)
Fixpoint retain_small (out : list bytes) (total max_payload : Z) : res (list bytes * Z * bool) :=
  match out with
  | [] => Ok ([], total, false)
  | d :: r =>
      if zlen d <? max_payload then
        match retain_small r total max_payload with
        | Ok (r', t', any) => Ok (d :: r', t', any)
        | Panic => Panic | Hang => Hang
        end
      else if total <? zlen d then Panic
      else match retain_small r (total - zlen d) max_payload with
           | Ok (r', t', _) => Ok (r', t', true)
           | Panic => Panic | Hang => Hang
           end
  end.

Definition drop_oversized (s : DState) (max_payload : Z) : res (DState * bool) :=
  match retain_small (outgoing s) (outgoing_total s) max_payload with
  | Ok (out, t, any) => Ok (mkD (incoming s) (recv_buffered s) out t (send_blocked s), any)
  | Panic => Panic | Hang => Hang
  end.

Definition send_buffer_space (c : Ctx) (s : DState) : Z := Z.max 0 (send_buf c - outgoing_total s).

(* ------------------------------------------------------------------ operations *)
Inductive Op :=
| OSend (drop : bool) (d : bytes)
| OMaxSize
| OWrite (buf_len max : Z)
| OReceived (window : option Z) (d : bytes)
| ORecv
| ODropOversized (max_payload : Z)
| OSpace
| OSetMtu (m : Z)
| OSetPeer (p : option Z).

(** An observable result: code and payload. *)
Definition b2z (b : bool) : Z := if b then 1 else 0.
Definition optz (z : Z) : option Z := if z <? 0 then None else Some z.

Definition step (cs : Ctx * DState) (op : Op) : res (Ctx * DState * (Z * list Z)) :=
  let '(c, s) := cs in
  match op with
  | OSend drop d =>
      match send c s d drop with
      | Ok (s', code) => Ok (c, s', (code, if code =? S_BLOCKED then d else []))
      | Panic => Panic | Hang => Hang
      end
  | OMaxSize =>
      match max_size c with
      | Ok (Some v) => Ok (c, s, (0, [v]))
      | Ok None => Ok (c, s, (1, []))
      | Panic => Panic | Hang => Hang
      end
  | OWrite bl mx =>
      match write s bl mx with
      | Ok (s', Some enc) => Ok (c, s', (1, enc))
      | Ok (s', None) => Ok (c, s', (0, []))
      | Panic => Panic | Hang => Hang
      end
  | OReceived w d =>
      match received s d w with
      | Ok (s', Some we) => Ok (c, s', (0, [b2z we]))
      | Ok (s', None) => Ok (c, s', (1, []))
      | Panic => Panic | Hang => Hang
      end
  | ORecv =>
      match recv s with
      | Ok (s', Some d) => Ok (c, s', (1, d))
      | Ok (s', None) => Ok (c, s', (0, []))
      | Panic => Panic | Hang => Hang
      end
  | ODropOversized mp =>
      match drop_oversized s mp with
      | Ok (s', any) => Ok (c, s', (b2z any, []))
      | Panic => Panic | Hang => Hang
      end
  | OSpace => Ok (c, s, (0, [send_buffer_space c s]))
  | OSetMtu m => Ok (mkCtx (recv_buf c) (send_buf c) (peer_max c) m (cid_len c), s, (0, []))
  | OSetPeer p => Ok (mkCtx (recv_buf c) (send_buf c) p (mtu c) (cid_len c), s, (0, []))
  end.

(* ------------------------------------------------------------------ integer interface *)
Definition decode_op (op : list Z) : option Op :=
  match op with
  | 1 :: drop :: d => Some (OSend (negb (drop =? 0)) d)
  | [2] => Some OMaxSize
  | [3; bl; mx] => Some (OWrite bl mx)
  | 4 :: w :: d => Some (OReceived (optz w) d)
  | [5] => Some ORecv
  | [6; mp] => Some (ODropOversized mp)
  | [7] => Some OSpace
  | [8; m] => Some (OSetMtu m)
  | [9; p] => Some (OSetPeer (optz p))
  | _ => None
  end.

Definition decode_ctx (op : list Z) : option Ctx :=
  match op with
  | [0; rb; sb; pm; m; cl] => Some (mkCtx (optz rb) sb (optz pm) m cl)
  | _ => None
  end.

Definition zlenl (l : list bytes) : Z := Z.of_nat (length l).

Definition obs (code : Z) (s : DState) (payload : list Z) : list Z :=
  code :: outgoing_total s :: zlenl (outgoing s) :: recv_buffered s :: zlenl (incoming s)
       :: b2z (send_blocked s) :: payload.

Fixpoint run_from (cs : Ctx * DState) (i : ops) : res outs :=
  match i with
  | [] => Ok []
  | op :: rest =>
      match decode_op op with
      | None => match run_from cs rest with Ok o => Ok ([-1] :: o) | Panic => Panic | Hang => Hang end
      | Some o =>
          match step cs o with
          | Ok (c', s', (code, payload)) =>
              match run_from (c', s') rest with
              | Ok o' => Ok (obs code s' payload :: o')
              | Panic => Panic | Hang => Hang
              end
          | Panic => Panic | Hang => Hang
          end
      end
  end.

Definition HANG : list Z := [-998].

Definition run (i : ops) : outs :=
  match i with
  | [] => []
  | first :: rest =>
      match decode_ctx first with
      | Some c =>
          match run_from (c, init) rest with
          | Ok o => obs 0 init [] :: o
          | Panic => [PANIC]
          | Hang => [HANG]
          end
      | None => map (fun _ => [-2]) i
      end
  end.

(* ------------------------------------------------------------------ oracle
   A specification-level pair of FIFO queues is maintained from the ops; the implementation's
   reported element counts decide how many elements were evicted, and the oracle checks that
   the survivors are a SUFFIX (evictions oldest first, no more than necessary), that every
   byte count equals the sum of the payload lengths, that [recv]/[write] deliver exactly the
   head of the specification queue, that [send] is admitted exactly as tabled and that
   [max_size] fits one packet. *)
Definition sum_len (l : list bytes) : Z := fold_right (fun d a => zlen d + a) 0 l.

Definition lastn {A} (n : nat) (l : list A) : list A := skipn (length l - n) l.

Fixpoint lbytes_eqb (a b : list bytes) : bool :=
  match a, b with
  | [], [] => true
  | x :: a', y :: b' => lz_eqb x y && lbytes_eqb a' b'
  | _, _ => false
  end.

Record Spec := mkSpec { q_in : list bytes; q_out : list bytes; blocked : bool }.

(** [kept] = survivors of an eviction from [q] leaving [n] elements; requires: a suffix, and if
    anything was evicted then keeping one more would not have fitted ([fits] on byte totals). *)
Definition evict_ok (q : list bytes) (n : nat) (fits : Z -> bool) : bool :=
  (Nat.leb n (length q)) &&
  fits (sum_len (lastn n q)) &&
  (Nat.eqb n (length q) || negb (fits (sum_len (lastn (S n) q)))).

Definition spec_max_size (c : Ctx) : option Z :=
  match peer_max c with
  | None => None
  | Some p => Some (Z.min (Z.max 0 (p - DATAGRAM_SIZE_BOUND)) (mtu c - overhead c - DATAGRAM_SIZE_BOUND))
  end.

Definition counts_ok (sp : Spec) (ot on rb inn bl : Z) : bool :=
  (ot =? sum_len (q_out sp)) && (on =? zlenl (q_out sp)) &&
  (rb =? sum_len (q_in sp)) && (inn =? zlenl (q_in sp)) && (bl =? b2z (blocked sp)).

Definition oracle_step (c : Ctx) (sp : Spec) (op : Op) (out : list Z) : option (Ctx * Spec) :=
  match out with
  | code :: ot :: on :: rb :: inn :: bl :: payload =>
      match op with
      | OSend drop d =>
          let len := zlen d in
          let expected :=
            match recv_buf c with
            | None => S_DISABLED
            | Some _ =>
                match spec_max_size c with
                | None => S_UNSUPPORTED
                | Some mx =>
                    if Z.min mx (send_buf c) <? len then S_TOOLARGE
                    else if drop || (sum_len (q_out sp) + len <=? send_buf c) then S_OK
                    else S_BLOCKED
                end
            end in
          if negb (code =? expected) then None
          else if code =? S_OK then
            let n := Z.to_nat (on - 1) in
            let sp' := mkSpec (q_in sp) (lastn n (q_out sp) ++ [d]) (blocked sp) in
            if (1 <=? on) && evict_ok (q_out sp) n (fun t => t + len <=? send_buf c)
               && (Nat.eqb n (length (q_out sp)) || drop)
               && counts_ok sp' ot on rb inn bl && lz_eqb payload []
            then Some (c, sp') else None
          else
            let sp' := mkSpec (q_in sp) (q_out sp) (blocked sp || (code =? S_BLOCKED)) in
            if counts_ok sp' ot on rb inn bl
               && lz_eqb payload (if code =? S_BLOCKED then d else [])
            then Some (c, sp') else None
      | OMaxSize =>
          if negb (counts_ok sp ot on rb inn bl) then None else
          match peer_max c, code, payload with
          | None, 1, [] => Some (c, sp)
          | Some p, 0, [v] =>
              (* max_size_fits *)
              if (0 <=? v) && (v + DATAGRAM_SIZE_BOUND + overhead c <=? mtu c)
                 && (v <=? Z.max 0 (p - DATAGRAM_SIZE_BOUND))
                 && ((v =? Z.max 0 (p - DATAGRAM_SIZE_BOUND)) || (v + DATAGRAM_SIZE_BOUND + overhead c =? mtu c))
              then Some (c, sp) else None
          | _, _, _ => None
          end
      | OWrite bl' mx =>
          match q_out sp with
          | [] => if (code =? 0) && lz_eqb payload [] && counts_ok sp ot on rb inn bl
                  then Some (c, sp) else None
          | d :: r =>
              if code =? 1 then
                let sp' := mkSpec (q_in sp) r (blocked sp) in
                match frame_encode d with
                | Some enc =>
                    if lz_eqb payload enc && (bl' + zlen payload <=? mx) && counts_ok sp' ot on rb inn bl
                    then Some (c, sp') else None
                | None => None
                end
              else
                match frame_size d with
                | Some sz =>
                    if (code =? 0) && lz_eqb payload [] && (mx <? bl' + sz) && counts_ok sp ot on rb inn bl
                    then Some (c, sp) else None
                | None => None
                end
          end
      | OReceived w d =>
          let accept := match w with Some x => zlen d <=? x | None => false end in
          if accept then
            let n := Z.to_nat (inn - 1) in
            let x := match w with Some x => x | None => 0 end in
            let sp' := mkSpec (lastn n (q_in sp) ++ [d]) (q_out sp) (blocked sp) in
            if (code =? 0) && (1 <=? inn) && evict_ok (q_in sp) n (fun t => t + zlen d <=? x)
               && counts_ok sp' ot on rb inn bl && (rb <=? x)
               && lz_eqb payload [b2z (sum_len (q_in sp) =? 0)]
            then Some (c, sp') else None
          else
            if (code =? 1) && lz_eqb payload [] && counts_ok sp ot on rb inn bl then Some (c, sp) else None
      | ORecv =>
          match q_in sp with
          | [] => if (code =? 0) && lz_eqb payload [] && counts_ok sp ot on rb inn bl
                  then Some (c, sp) else None
          | d :: r =>
              let sp' := mkSpec r (q_out sp) (blocked sp) in
              if (code =? 1) && lz_eqb payload d && counts_ok sp' ot on rb inn bl
              then Some (c, sp') else None
          end
      | ODropOversized mp =>
          let kept := filter (fun d => zlen d <? mp) (q_out sp) in
          let sp' := mkSpec (q_in sp) kept (blocked sp) in
          if (code =? b2z (negb (Nat.eqb (length kept) (length (q_out sp)))))
             && lz_eqb payload [] && counts_ok sp' ot on rb inn bl
          then Some (c, sp') else None
      | OSpace =>
          if counts_ok sp ot on rb inn bl && (code =? 0)
             && lz_eqb payload [Z.max 0 (send_buf c - ot)]
          then Some (c, sp) else None
      | OSetMtu m =>
          if counts_ok sp ot on rb inn bl && (code =? 0) && lz_eqb payload []
          then Some (mkCtx (recv_buf c) (send_buf c) (peer_max c) m (cid_len c), sp) else None
      | OSetPeer p =>
          if counts_ok sp ot on rb inn bl && (code =? 0) && lz_eqb payload []
          then Some (mkCtx (recv_buf c) (send_buf c) p (mtu c) (cid_len c), sp) else None
      end
  | _ => None
  end.

Fixpoint oracle_from (c : Ctx) (sp : Spec) (i : ops) (o : outs) : bool :=
  match i, o with
  | [], [] => true
  | op :: i', out :: o' =>
      match decode_op op with
      | None => lz_eqb out [-1] && oracle_from c sp i' o'
      | Some d =>
          match oracle_step c sp d out with
          | Some (c', sp') => oracle_from c' sp' i' o'
          | None => false
          end
      end
  | _, _ => false
  end.

(** Does the case ask for [max_size] (directly or through [send]) while the MTU is too small for
    any packet at all?  Only then is the documented usize underflow (a panic) acceptable. *)
Fixpoint tiny_mtu (c : Ctx) (i : ops) : bool :=
  match i with
  | [] => false
  | op :: i' =>
      match decode_op op with
      | Some (OSetMtu m) => tiny_mtu (mkCtx (recv_buf c) (send_buf c) (peer_max c) m (cid_len c)) i'
      | Some (OSetPeer p) => tiny_mtu (mkCtx (recv_buf c) (send_buf c) p (mtu c) (cid_len c)) i'
      | Some OMaxSize => (mtu c - overhead c - DATAGRAM_SIZE_BOUND <? 0) || tiny_mtu c i'
      | Some (OSend _ _) =>
          (match recv_buf c with Some _ => mtu c - overhead c - DATAGRAM_SIZE_BOUND <? 0 | None => false end)
          || tiny_mtu c i'
      | _ => tiny_mtu c i'
      end
  end.

Definition oracle (i : ops) (o : outs) : bool :=
  match i, o with
  | [], [] => true
  | first :: rest, out0 :: o' =>
      match decode_ctx first with
      | Some c =>
          if llz_eqb o [PANIC] then tiny_mtu c rest
          else lz_eqb out0 (obs 0 init []) && oracle_from c (mkSpec [] [] false) rest o'
      | None => llz_eqb o (map (fun _ => [-2]) i)
      end
  | _, _ => false
  end.
