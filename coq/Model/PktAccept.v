(** Model of the packet-acceptance decisions of quinn-proto/src/connection/packet_crypto.rs —
    definitions only.

    [decrypt]: the key-selection table of [decrypt_packet_body] with packet protection as an
    oracle: the packet opens iff the key it was sealed under ([sealed], a key id) is the key the
    table selects.  Key ids: Initial 10, Handshake 11, current 1-RTT 12, previous 1-RTT 20,
    next 1-RTT 21, 0-RTT 30.  [None] = panic ([unwrap] of an absent 0-RTT / next key).
    [reset_detect]: the stateless-reset test of [unprotect_header]. *)
From Coq Require Import ZArith List Bool.
From QV Require Import Lib.Corr Model.PacketNumber.
Import ListNotations.
Open Scope Z_scope.

Definition RESET_TOKEN_SIZE : Z := 16.

Record prev_crypto := mkPrev { end_packet : option Z; update_unacked : bool }.

Inductive dresult :=
| Unprotected                                         (* Ok(None): Retry / Version Negotiation *)
| Decrypted (number : Z) (outgoing_key_update_acked incoming_key_update : bool)
| AuthFailed                                          (* Err(None): silently dropped *)
| Illegal (code : Z).                                 (* Err(Some(TransportError)) *)

Definition PROTOCOL_VIOLATION : Z := 10.
Definition KEY_UPDATE_ERROR : Z := 14.

(** kind: 0 Initial, 1 Handshake, 2 0-RTT, 3 Short (1-RTT), 4 Retry/VN *)
Definition space_of (kind : Z) : Z := if kind =? 0 then 0 else if kind =? 1 then 1 else 2.

(** the key id selected by the table and whether it is a remotely initiated key update *)
Definition select_key (kind : Z) (key_phase conn_key_phase : bool) (number : Z)
           (prev : option prev_crypto) (next_present zero_present : bool) : option (Z * bool) :=
  if kind =? 2 then (if zero_present then Some (30, false) else None)
  else if Bool.eqb key_phase conn_key_phase || negb (space_of kind =? 2) then Some (10 + space_of kind, false)
  else
    match prev with
    | Some p =>
        if (match end_packet p with None => true | Some pn => number <? pn end) then Some (20, false)
        else if next_present then Some (21, true) else None
    | None => if next_present then Some (21, true) else None
    end.

Definition decrypt (kind : Z) (kp : bool) (pn rx_packet : Z) (conn_key_phase : bool)
           (prev : option prev_crypto) (next_present zero_present : bool)
           (sealed : Z) (reserved_ok : bool) : option dresult :=
  if kind =? 4 then Some Unprotected
  else
    let number := expand 4 pn (rx_packet + 1) in
    let key_phase := (kind =? 3) && kp in
    match select_key kind key_phase conn_key_phase number prev next_present zero_present with
    | None => None
    | Some (key, update) =>
        if negb (sealed =? key) then Some AuthFailed
        else if negb reserved_ok then Some (Illegal PROTOCOL_VIOLATION)
        else
          let acked :=
            match prev with
            | Some p => (match end_packet p with None => true | Some _ => false end)
                        && Bool.eqb key_phase conn_key_phase
            | None => false
            end in
          if update && ((number <=? rx_packet)
                        || (match prev with Some p => update_unacked p | None => false end))
          then Some (Illegal KEY_UPDATE_ERROR)
          else Some (Decrypted number acked update)
    end.

(** [unprotect_header] on a short-header datagram with [cid_len]-byte connection IDs:
    [None] = header not decodable (before [unprotect_header]);
    [Some None] = dropped; [Some (Some (packet_present, stateless_reset))]. *)
Definition lastn (n : nat) (l : list Z) : list Z := rev (firstn n (rev l)).

Definition reset_detect (token : option (list Z)) (pkt : list Z) : bool :=
  (RESET_TOKEN_SIZE + 5 <=? Z.of_nat (length pkt)) &&
  match token with
  | Some t => lz_eqb t (lastn 16 pkt)
  | None => false
  end.

Definition unprotect (token : option (list Z)) (cid_len : Z) (pkt : list Z) : option (option (bool * bool)) :=
  match pkt with
  | [] => None
  | b0 :: rest =>
      if (b0 / 64) mod 2 =? 0 then None                       (* fixed bit unset *)
      else if 128 <=? b0 then None                            (* long headers are not generated *)
      else if Z.of_nat (length rest) <? cid_len then None
      else
        let reset := reset_detect token pkt in
        let finish_ok := 1 + cid_len + 4 + 16 <=? Z.of_nat (length pkt) in
        if finish_ok then Some (Some (true, reset))
        else if reset then Some (Some (false, true))
        else Some None
  end.

Definition b2z (b : bool) : Z := if b then 1 else 0.
Definition z2b (z : Z) : bool := negb (z =? 0).

Definition step (op : list Z) : option (list Z) :=
  match op with
  | [1; kind; kp; pn; rx; ckp; pp; pep; pe; pu; np; zp; sealed; rok] =>
      let prev := if z2b pp then Some (mkPrev (if z2b pep then Some pe else None) (z2b pu)) else None in
      match decrypt kind (z2b kp) pn rx (z2b ckp) prev (z2b np) (z2b zp) sealed (z2b rok) with
      | None => None
      | Some Unprotected => Some [0]
      | Some (Decrypted n a u) => Some [1; n; b2z a; b2z u]
      | Some AuthFailed => Some [2]
      | Some (Illegal c) => Some [3; c]
      end
  | 2 :: tp :: cid_len :: rest =>
      let token := if z2b tp then Some (firstn 16 rest) else None in
      match unprotect token cid_len (skipn 16 rest) with
      | None => Some [9]
      | Some None => Some [0]
      | Some (Some (p, r)) => Some [1; b2z p; b2z r]
      end
  | _ => Some [-1]
  end.

Fixpoint run_opt (i : ops) : option outs :=
  match i with
  | [] => Some []
  | op :: i' =>
      match step op, run_opt i' with
      | Some o, Some os => Some (o :: os)
      | _, _ => None
      end
  end.

Definition run (i : ops) : outs :=
  match run_opt i with Some o => o | None => [PANIC] end.

(** Oracle on the implementation's outputs:
    - a packet is reported decrypted only if it was sealed under a key of this connection that is
      legitimate for its header: the space's key, the previous 1-RTT key only for a 1-RTT packet of
      the other phase numbered below the end of the previous phase, the next key only as a key
      update that is newer than everything received and not while an earlier update is unacked;
    - [stateless_reset] is reported iff the datagram is at least 21 bytes and ends with exactly
      the expected token. *)
Definition oracle_step (op out : list Z) : bool :=
  match op, out with
  | [1; kind; kp; pn; rx; ckp; pp; pep; pe; pu; np; zp; sealed; rok], [1; n; a; u] =>
      let other_phase := (kind =? 3) && negb (Bool.eqb (z2b kp) (z2b ckp)) in
      (n =? expand 4 pn (rx + 1)) && negb (kind =? 4) &&
      (if kind =? 2 then (sealed =? 30) && z2b zp && (u =? 0)
       else if sealed =? 10 + space_of kind then negb other_phase && (u =? 0)
       else if sealed =? 20 then other_phase && z2b pp && (negb (z2b pep) || (n <? pe)) && (u =? 0)
       else if sealed =? 21 then other_phase && z2b np && (u =? 1) && (rx <? n) && negb (z2b pp && z2b pu)
       else false)
  | 2 :: tp :: cid_len :: rest, [1; p; r] =>
      Bool.eqb (z2b r) (reset_detect (if z2b tp then Some (firstn 16 rest) else None) (skipn 16 rest))
  | 2 :: tp :: cid_len :: rest, [0] =>
      negb (reset_detect (if z2b tp then Some (firstn 16 rest) else None) (skipn 16 rest))
  | _, _ => true
  end.

Fixpoint oracle_all (i : ops) (o : outs) : bool :=
  match i, o with
  | [], [] => true
  | a :: i', b :: o' => oracle_step a b && oracle_all i' o'
  | _, _ => false
  end.

Definition oracle (i : ops) (o : outs) : bool :=
  match o with
  | [[-999]] => llz_eqb (run i) o
  | _ => oracle_all i o
  end.
