(** Model of the token payload codec of quinn-proto/src/token.rs ([Token::encode] / [Token::decode],
    [encode_addr] / [decode_addr], [encode_ip] / [decode_ip], unix seconds, [ConnectionId] in
    long form).  Definitions only.  The AEAD ([HandshakeTokenKey::aead_from_hkdf(nonce)] then
    [seal] / [open]) is a parameter: [seal nonce plaintext], [open nonce sealed]. *)
From Coq Require Import ZArith List Bool.
From QV Require Import Lib.Bytes Lib.Corr.
Import ListNotations.
Open Scope Z_scope.

Definition MAX_CID : Z := 20.

Inductive ipaddr : Type := V4 (b : list Z) | V6 (b : list Z).

Inductive payload : Type :=
| Retry (ip : ipaddr) (port : Z) (odcid : list Z) (secs : Z)
| Validation (ip : ipaddr) (secs : Z).

Record token : Type := { nonce : list Z; (* 16 bytes, little endian u128 *) body : payload }.

Definition enc_ip (ip : ipaddr) : list Z :=
  match ip with V4 b => 0 :: b | V6 b => 1 :: b end.

Definition enc_payload (p : payload) : list Z :=
  match p with
  | Retry ip port cid secs => [0] ++ enc_ip ip ++ be_bytes 2 port ++ (zlen cid :: cid) ++ be_bytes 8 secs
  | Validation ip secs => [1] ++ enc_ip ip ++ be_bytes 8 secs
  end.

Definition take (n : nat) (bs : list Z) : option (list Z * list Z) :=
  if Nat.ltb (length bs) n then None else Some (firstn n bs, skipn n bs).

Definition dec_ip (bs : list Z) : option (ipaddr * list Z) :=
  match bs with
  | 0 :: r => match take 4 r with Some (b, r') => Some (V4 b, r') | None => None end
  | 1 :: r => match take 16 r with Some (b, r') => Some (V6 b, r') | None => None end
  | _ => None
  end.

Definition dec_u (n : nat) (bs : list Z) : option (Z * list Z) :=
  match take n bs with Some (b, r) => Some (be_val b 0, r) | None => None end.

Definition dec_cid (bs : list Z) : option (list Z * list Z) :=
  match bs with
  | [] => None
  | l :: r => if MAX_CID <? l then None else take (Z.to_nat l) r
  end.

(** [UNIX_EPOCH + Duration::from_secs(s)] panics when [s] exceeds [i64::MAX]. *)
Definition I64_MAX : Z := 2 ^ 63 - 1.

(** Outer [None] = panic; inner [None] = [Token::decode] returns [None]. *)
Definition dec_payload (bs : list Z) : option (option payload) :=
  match bs with
  | 0 :: r0 =>
      match dec_ip r0 with
      | None => Some None
      | Some (ip, r1) =>
          match dec_u 2 r1 with
          | None => Some None
          | Some (port, r2) =>
              match dec_cid r2 with
              | None => Some None
              | Some (cid, r3) =>
                  match dec_u 8 r3 with
                  | None => Some None
                  | Some (secs, r4) =>
                      if I64_MAX <? secs then None
                      else match r4 with [] => Some (Some (Retry ip port cid secs)) | _ => Some None end
                  end
              end
          end
      end
  | 1 :: r0 =>
      match dec_ip r0 with
      | None => Some None
      | Some (ip, r1) =>
          match dec_u 8 r1 with
          | None => Some None
          | Some (secs, r2) =>
              if I64_MAX <? secs then None
              else match r2 with [] => Some (Some (Validation ip secs)) | _ => Some None end
          end
      end
  | _ => Some None
  end.

Section Codec.
Variable seal : list Z -> list Z -> list Z.
Variable open : list Z -> list Z -> option (list Z).

Definition encode (t : token) : list Z := seal (nonce t) (enc_payload (body t)) ++ nonce t.

Definition decode (raw : list Z) : option (option token) :=
  if Nat.ltb (length raw) 16 then Some None
  else
    let k := (length raw - 16)%nat in
    let sealed := firstn k raw in
    let n := skipn k raw in
    match open n sealed with
    | None => Some None
    | Some data =>
        match dec_payload data with
        | None => None
        | Some None => Some None
        | Some (Some p) => Some (Some {| nonce := n; body := p |})
        end
    end.
End Codec.

(** * Well-formed tokens *)
Definition wf_ip (ip : ipaddr) : bool :=
  match ip with
  | V4 b => Nat.eqb (length b) 4 && all_bytes b
  | V6 b => Nat.eqb (length b) 16 && all_bytes b
  end.

Definition wf_payload (p : payload) : bool :=
  match p with
  | Retry ip port cid secs =>
      wf_ip ip && (0 <=? port) && (port <? 2 ^ 16) && (zlen cid <=? MAX_CID) && all_bytes cid
      && (0 <=? secs) && (secs <=? I64_MAX)
  | Validation ip secs => wf_ip ip && (0 <=? secs) && (secs <=? I64_MAX)
  end.

Definition wf_token (t : token) : bool := Nat.eqb (length (nonce t)) 16 && wf_payload (body t).

(** * The transparent toy AEAD of the hook: [seal n x = x ++ rev n]. *)
Definition toy_seal (n x : list Z) : list Z := x ++ rev n.
Definition toy_open (n s : list Z) : option (list Z) :=
  let k := (length s - length n)%nat in
  if Nat.ltb (length s) (length n) then None
  else if lz_eqb (skipn k s) (rev n) then Some (firstn k s) else None.

(** * Integer interface shared with the hook [verif_hooks::token] *)
Definition render_ip (ip : ipaddr) : list Z := match ip with V4 b => 4 :: b | V6 b => 6 :: b end.

Definition render_token (t : token) : list Z :=
  nonce t ++
  match body t with
  | Retry ip port cid secs => [0] ++ render_ip ip ++ [port] ++ (zlen cid :: cid) ++ [secs]
  | Validation ip secs => [1] ++ render_ip ip ++ [secs]
  end.

Definition parse_ip (l : list Z) : option (ipaddr * list Z) :=
  match l with
  | 4 :: r => match take 4 r with Some (b, r') => Some (V4 b, r') | None => None end
  | 6 :: r => match take 16 r with Some (b, r') => Some (V6 b, r') | None => None end
  | _ => None
  end.

Definition parse_token (l : list Z) : option token :=
  match take 16 l with
  | None => None
  | Some (n, 0 :: r0) =>
      match parse_ip r0 with
      | Some (ip, port :: len :: r1) =>
          if (len <? 0) || (MAX_CID <? len) then None
          else
            match take (Z.to_nat len) r1 with
            | Some (cid, [secs]) => Some {| nonce := n; body := Retry ip (port mod 2 ^ 16) cid secs |}
            | _ => None
            end
      | _ => None
      end
  | Some (n, 1 :: r0) =>
      match parse_ip r0 with
      | Some (ip, [secs]) => Some {| nonce := n; body := Validation ip secs |}
      | _ => None
      end
  | _ => None
  end.

Definition render_decode (r : option (option token)) : option (list Z) :=
  match r with
  | None => None
  | Some None => Some [1]
  | Some (Some t) => Some (0 :: render_token t)
  end.

Definition step (op : list Z) : option (list Z) :=
  match op with
  | 0 :: d =>
      match parse_token d with
      | Some t => Some (0 :: encode toy_seal t)
      | None => Some [-1]
      end
  | 1 :: bs => render_decode (decode toy_open bs)
  | 2 :: d =>
      match parse_token d with
      | Some t => render_decode (decode toy_open (encode toy_seal t))
      | None => Some [-1]
      end
  | _ => Some [-1]
  end.

Fixpoint run_steps (i : ops) : option outs :=
  match i with
  | [] => Some []
  | op :: tl =>
      match step op, run_steps tl with
      | Some o, Some os => Some (o :: os)
      | _, _ => None
      end
  end.

Definition run (i : ops) : outs :=
  match run_steps i with
  | Some o => o
  | None => [PANIC]
  end.

(** Oracle: encode-then-decode with the real code returns the token that was encoded. *)
Definition oracle_step (op out : list Z) : bool :=
  match op with
  | 2 :: d =>
      match parse_token d with
      | Some t => if wf_token t then lz_eqb out (0 :: render_token t) else true
      | None => true
      end
  | _ => true
  end.

Fixpoint oracle_list (i : ops) (o : outs) : bool :=
  match i, o with
  | [], [] => true
  | a :: i', b :: o' => oracle_step a b && oracle_list i' o'
  | _, _ => false
  end.

Definition op_must_not_panic (op : list Z) : bool :=
  match op with
  | 2 :: d => match parse_token d with Some t => wf_token t | None => true end
  | _ => false
  end.

Definition oracle (i : ops) (o : outs) : bool :=
  match o with
  | [[-999]] => negb (forallb op_must_not_panic i)
  | _ => oracle_list i o
  end.
