(** C18 — the endpoint half of quinn's async API (quinn/src/endpoint.rs, incoming.rs): the
    [Accept] future ([Shared::incoming] Notify), [Endpoint::wait_idle] ([Shared::idle] Notify),
    [Endpoint::close], the [EndpointDriver] with its waker [State::driver], [EndpointRef]
    counting and the driver's exit condition [ref_count == 0 && connections.is_empty()].
    Steps are whole critical sections of the endpoint mutex. Same conventions as
    Model/AsyncConn.v (tokio's [Notify::notify_waiters] per its documented contract). *)
From Coq Require Import ZArith List Bool Arith.
Import ListNotations.

Inductive eop := EAccept | EWaitIdle.
Inductive eres := EIncoming (id : nat) | ENone | EIdle.
Inductive eout := EPending | EReady (r : eres).

Record est := emk {
  e_incoming : list nat;        (* [RecvState::incoming] *)
  e_close : bool;               (* [ConnectionSet::close] is Some *)
  e_lost : bool;                (* [State::driver_lost] *)
  e_conns : nat;                (* [ConnectionSet::senders].len() *)
  e_winc : nat -> bool;         (* registered [Notified]s of [incoming] *)
  e_widle : nat -> bool;        (* ... of [idle] *)
  e_pend : nat -> option eop;
  e_run : nat -> bool;
  e_refs : Z;                   (* [Shared::ref_count] (-1: the usize wrapped) *)
  e_alive : bool;               (* the driver future exists *)
  e_dwaker : bool;              (* [State::driver] is Some *)
  e_drun : bool                 (* the driver task is runnable *)
}.

(** [Endpoint::new_with_abstract_socket]: one handle, the driver spawned (runnable) *)
Definition einit : est :=
  emk [] false false 0 (fun _ => false) (fun _ => false) (fun _ => None) (fun _ => false) 1 true false true.

Definition eupd {A} (f : nat -> A) (k : nat) (v : A) : nat -> A :=
  fun x => if Nat.eqb x k then v else f x.

Definition econd (s : est) (o : eop) : bool :=
  match o with
  | EAccept => e_lost s || negb (match e_incoming s with [] => true | _ => false end) || e_close s
  | EWaitIdle => Nat.eqb (e_conns s) 0
  end.

Definition notify_inc (s : est) : est :=
  emk (e_incoming s) (e_close s) (e_lost s) (e_conns s) (fun _ => false) (e_widle s) (e_pend s)
      (fun t => e_run s t || e_winc s t) (e_refs s) (e_alive s) (e_dwaker s) (e_drun s).
Definition notify_idle (s : est) : est :=
  emk (e_incoming s) (e_close s) (e_lost s) (e_conns s) (e_winc s) (fun _ => false) (e_pend s)
      (fun t => e_run s t || e_widle s t) (e_refs s) (e_alive s) (e_dwaker s) (e_drun s).
(** [driver.take().wake()] *)
Definition wake_edriver (s : est) : est :=
  if e_dwaker s then
    emk (e_incoming s) (e_close s) (e_lost s) (e_conns s) (e_winc s) (e_widle s) (e_pend s) (e_run s)
        (e_refs s) (e_alive s) false true
  else s.

(** drop the live future of [t]: [Notified::drop] unregisters *)
Definition erelease (s : est) (t : nat) : est :=
  emk (e_incoming s) (e_close s) (e_lost s) (e_conns s) (eupd (e_winc s) t false) (eupd (e_widle s) t false)
      (eupd (e_pend s) t None) (e_run s) (e_refs s) (e_alive s) (e_dwaker s) (e_drun s).

Definition epoll (s : est) (t : nat) (o : eop) : est * eout :=
  let s := erelease s t in
  let s := emk (e_incoming s) (e_close s) (e_lost s) (e_conns s) (e_winc s) (e_widle s) (e_pend s)
               (eupd (e_run s) t false) (e_refs s) (e_alive s) (e_dwaker s) (e_drun s) in
  match o with
  | EAccept =>
      if e_lost s then (s, EReady ENone) else
      match e_incoming s with
      | id :: rest =>
          (* [Incoming::new] clones the EndpointRef *)
          (emk rest (e_close s) (e_lost s) (e_conns s) (e_winc s) (e_widle s) (e_pend s) (e_run s)
               (e_refs s + 1) (e_alive s) (e_dwaker s) (e_drun s), EReady (EIncoming id))
      | [] =>
          if e_close s then (s, EReady ENone) else
          (emk (e_incoming s) (e_close s) (e_lost s) (e_conns s) (eupd (e_winc s) t true) (e_widle s)
               (eupd (e_pend s) t (Some EAccept)) (e_run s) (e_refs s) (e_alive s) (e_dwaker s) (e_drun s), EPending)
      end
  | EWaitIdle =>
      if Nat.eqb (e_conns s) 0 then (s, EReady EIdle) else
      (emk (e_incoming s) (e_close s) (e_lost s) (e_conns s) (e_winc s) (eupd (e_widle s) t true)
           (eupd (e_pend s) t (Some EWaitIdle)) (e_run s) (e_refs s) (e_alive s) (e_dwaker s) (e_drun s), EPending)
  end.

(** what one driver poll can do *)
Inductive eev :=
| VIncoming (id : nat)      (* DatagramEvent::NewConnection: queued (refused when closed) *)
| VDrained.                 (* EndpointEvent::Drained of a connection: [senders.remove], maybe [idle] *)

Definition edrv_event (s : est) (e : eev) : est :=
  match e with
  | VIncoming id =>
      if e_close s then s else
      emk (e_incoming s ++ [id]) (e_close s) (e_lost s) (e_conns s) (e_winc s) (e_widle s) (e_pend s) (e_run s)
          (e_refs s) (e_alive s) (e_dwaker s) (e_drun s)
  | VDrained =>
      match e_conns s with
      | 0 => s
      | S n =>
          let s := emk (e_incoming s) (e_close s) (e_lost s) n (e_winc s) (e_widle s) (e_pend s) (e_run s)
                       (e_refs s) (e_alive s) (e_dwaker s) (e_drun s) in
          if Nat.eqb n 0 then notify_idle s else s
      end
  end.

(** [EndpointDriver::poll]; on exit the driver's own [EndpointRef] is dropped ([Drop for
    EndpointDriver]: driver_lost, notify, then the count wraps below zero) *)
Definition edrv_poll (s : est) (evs : list eev) : est :=
  if negb (e_alive s) then s else
  let s := emk (e_incoming s) (e_close s) (e_lost s) (e_conns s) (e_winc s) (e_widle s) (e_pend s) (e_run s)
               (e_refs s) true true false in
  let s := fold_left edrv_event evs s in
  let s := match e_incoming s with [] => s | _ => notify_inc s end in
  if Z.eqb (e_refs s) 0 && Nat.eqb (e_conns s) 0 then
    notify_inc (emk (e_incoming s) (e_close s) true (e_conns s) (e_winc s) (e_widle s) (e_pend s) (e_run s)
                    (e_refs s - 1) false false false)
  else s.

Inductive elabel :=
| LPoll (t : nat) (o : eop)
| LDrop (t : nat)
| LDrv (evs : list eev)
| LClose                    (* Endpoint::close *)
| LConnect                  (* Endpoint::connect / Incoming::accept: a connection is inserted *)
| LClone
| LHandleDrop.              (* drop an Endpoint handle or an Incoming *)

Definition estep (s : est) (l : elabel) : est * eout :=
  match l with
  | LPoll t o => epoll s t o
  | LDrop t => (erelease s t, EPending)
  | LDrv evs => (edrv_poll s evs, EPending)
  | LClose =>
      (notify_inc (emk (e_incoming s) true (e_lost s) (e_conns s) (e_winc s) (e_widle s) (e_pend s) (e_run s)
                       (e_refs s) (e_alive s) (e_dwaker s) (e_drun s)), EPending)
  | LConnect =>
      (if e_lost s || e_close s || negb (Z.ltb 0 (e_refs s)) then s else
       emk (e_incoming s) (e_close s) (e_lost s) (S (e_conns s)) (e_winc s) (e_widle s) (e_pend s) (e_run s)
           (e_refs s) (e_alive s) (e_dwaker s) (e_drun s), EPending)
  | LClone =>
      (if Z.ltb 0 (e_refs s) then
         emk (e_incoming s) (e_close s) (e_lost s) (e_conns s) (e_winc s) (e_widle s) (e_pend s) (e_run s)
             (e_refs s + 1) (e_alive s) (e_dwaker s) (e_drun s)
       else s, EPending)
  | LHandleDrop =>
      (if Z.ltb 0 (e_refs s) then
         let s' := emk (e_incoming s) (e_close s) (e_lost s) (e_conns s) (e_winc s) (e_widle s) (e_pend s) (e_run s)
                       (e_refs s - 1) (e_alive s) (e_dwaker s) (e_drun s) in
         if Z.ltb 1 (e_refs s) then s' else wake_edriver s'
       else s, EPending)
  end.
Definition estep' (s : est) (l : elabel) : est := fst (estep s l).
Definition erun (ls : list elabel) : est := fold_left estep' ls einit.
