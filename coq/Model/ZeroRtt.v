(** Model of component [zero_rtt] (quinn-proto/src/connection/streams/verif_hooks/zero_rtt.rs):
    0-RTT rejection of the stream / flow-control state ([StreamsState::zero_rtt_rejected] followed
    by [set_params] with the newly negotiated parameters) compared with a brand-new
    [StreamsState] that received the same parameters — definitions only.
    Reuses Model/FlowSend.v for every operation. *)
From Coq Require Import ZArith List Bool.
From QV Require Import Lib.Corr Model.FlowSend.
Import ListNotations.
Open Scope Z_scope.

(** What [Connection] does on rejection, then [handle_peer_params]. *)
Definition reject_and_params (p : Params) (s : State) : option State :=
  match do_reject s with
  | Some s' => Some (do_set_params p s')
  | None => None
  end.

(** A brand-new state (same side, same remote stream limits, the send window currently
    configured) that received [p].  The harness' sent-frame log of the twin starts with as many
    dead entries as the log of the rejected state (frame indices stay aligned). *)
Definition fresh_with (p : Params) (s : State) : State :=
  set_log (map (fun _ => None) s.(log))
          (do_set_params p (init s.(side) s.(max_remote_bi) s.(send_window))).

Definition paired (a b : list Z) : list Z := Z.of_nat (length a) :: a ++ b.

(** Twin interpreter: [b] is the fresh twin once op 20 has been executed. *)
Fixpoint zr_from (a : State) (b : option State) (i : ops) : option outs :=
  match i with
  | [] => Some []
  | op :: t =>
      if arg op 0 =? 20 then
        let p := params_of op in
        if params_valid p then
          match reject_and_params p a with
          | None => None
          | Some a' =>
              let b' := fresh_with p a' in
              match observe a', observe b' with
              | Some oa, Some ob =>
                  match zr_from a' (Some b') t with
                  | Some os => Some (paired (oa ++ summary a') (ob ++ summary b') :: os)
                  | None => None
                  end
              | _, _ => None
              end
          end
        else
          match zr_from a b t with
          | Some os => Some ((-2 :: summary a) :: os)
          | None => None
          end
      else
        match step op a with
        | None => None
        | Some (a', oa) =>
            match b with
            | None =>
                match zr_from a' None t with
                | Some os => Some (oa :: os)
                | None => None
                end
            | Some b0 =>
                match step op b0 with
                | None => None
                | Some (b', ob) =>
                    match zr_from a' (Some b') t with
                    | Some os => Some (paired oa ob :: os)
                    | None => None
                    end
                end
            end
        end
  end.

Definition run (i : ops) : outs :=
  match zr_from init0 None i with Some o => o | None => [PANIC] end.

(** ** Oracle: from the rejection on, the rejected state and the fresh twin are observably equal
    (the full projection at the rejection, then the observation of every later operation).
    Discipline: the case with [20 p] replaced by [14; 1 p] must be disciplined in the sense of
    [FlowSend.wf_static] (so the rejection ends a genuine 0-RTT phase), and it must contain a
    rejection. *)
Fixpoint expand20 (i : ops) : ops :=
  match i with
  | [] => []
  | op :: t => if arg op 0 =? 20 then [14] :: (1 :: tl op) :: expand20 t else op :: expand20 t
  end.

Definition halves_equal (o : list Z) : bool :=
  match o with
  | n :: rest => lz_eqb (firstn (Z.to_nat n) rest) (skipn (Z.to_nat n) rest)
  | [] => false
  end.

Fixpoint zr_check (seen : bool) (i : ops) (o : outs) : bool :=
  match i, o with
  | [], [] => true
  | op :: i', ob :: o' =>
      let seen' := seen || (arg op 0 =? 20) in
      (if seen' then halves_equal ob else true) && zr_check seen' i' o'
  | _, _ => false
  end.

(** The part of the case before the rejection is an ordinary [flow_send] case: the credit ledger
    and the FIN ledger of Model/FlowSend.v apply to it (this is where a Retry is checked). *)
Fixpoint prefix_len (i : ops) : nat :=
  match i with
  | [] => O
  | op :: t => if arg op 0 =? 20 then O else S (prefix_len t)
  end.

Definition oracle (i : ops) (o : outs) : bool :=
  if wf_static (expand20 i) && existsb (fun op => arg op 0 =? 20) i then
    if is_panic o then false
    else
      let n := prefix_len i in
      zr_check false i o
      && led_run (firstn n i) (firstn n o) (led_init 0 0 (2 ^ 20))
      && fin_run (firstn n i) (firstn n o) (mkFinLed [] [] [] [])
  else true.

Definition no_oracle (i : ops) (o : outs) : bool := true.
