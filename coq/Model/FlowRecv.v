(** Model of the receive side of [StreamsState] (quinn-proto/src/connection/streams/{state,recv,mod}.rs)
    with [Recv], [Chunks] and the application handles [RecvStream]/[Streams] — definitions only.

    Data is modelled by offsets and lengths.  The assembler is a sorted chunk list in ordered mode
    and (received range set, number of buffered bytes) in unordered mode; reads are observed as the
    total number of bytes returned by a [Chunks::next] loop with a byte budget.  The assembler is the
    one with the two repairs owned by C01 (defragment trims from [bytes_read]; empty inserts are
    no-ops).  The same state record also carries the send halves (used by Model/StreamSM.v);
    this file only needs their presence ([stream_freed]) and [SendStream::reset]/[reset_acked].

    [fx : bool] selects the code being modelled: [false] = the code before the three repairs
    (F2: [Chunks::new] drops the stream on [IllegalOrderedRead]; N1: a stream that is both stopped
    and reset is credited twice; N3: a first FIN below the high-water mark is accepted),
    [true] = the repaired code, which [run] follows.
    Fields [g_*] are ghost (never observed): sum of final ends of closed streams, sum of read
    credits granted, sum of window expansions, ids for which a Finished event was emitted, ids on
    which the application's reset() succeeded.  [panic] records a failed checked subtraction. *)
From Coq Require Import ZArith List Bool.
From QV Require Import Lib.Corr.
Import ListNotations.
Open Scope Z_scope.

(** * Stream ids, dir-indexed pairs, association lists *)
Definition sid_init (id : Z) : Z := id mod 2.
Definition sid_dir (id : Z) : Z := (id / 2) mod 2.
Definition sid_index (id : Z) : Z := id / 4.
Definition mk_sid (init dir idx : Z) : Z := idx * 4 + dir * 2 + init.

Definition pget {A} (d : Z) (p : A * A) : A := if d =? 0 then fst p else snd p.
Definition pset {A} (d : Z) (v : A) (p : A * A) : A * A :=
  if d =? 0 then (v, snd p) else (fst p, v).

Fixpoint alookup {A} (k : Z) (m : list (Z * A)) : option A :=
  match m with
  | [] => None
  | (k', v) :: r => if k =? k' then Some v else alookup k r
  end.
Fixpoint aremove {A} (k : Z) (m : list (Z * A)) : list (Z * A) :=
  match m with
  | [] => []
  | (k', v) :: r => if k =? k' then r else (k', v) :: aremove k r
  end.
(** Removal of every entry of a key (used for the send map). *)
Fixpoint aremove_all {A} (k : Z) (m : list (Z * A)) : list (Z * A) :=
  match m with
  | [] => []
  | (k', v) :: r => if k =? k' then aremove_all k r else (k', v) :: aremove_all k r
  end.
Fixpoint aset {A} (k : Z) (v : A) (m : list (Z * A)) : list (Z * A) :=
  match m with
  | [] => [(k, v)]
  | (k', v') :: r => if k =? k' then (k, v) :: r else (k', v') :: aset k v r
  end.
Definition amem {A} (k : Z) (m : list (Z * A)) : bool :=
  match alookup k m with Some _ => true | None => false end.
Fixpoint zmem (k : Z) (l : list Z) : bool :=
  match l with [] => false | x :: r => (k =? x) || zmem k r end.
Definition zadd (k : Z) (l : list Z) : list Z := if zmem k l then l else l ++ [k].
Fixpoint zremove (k : Z) (l : list Z) : list Z :=
  match l with [] => [] | x :: r => if k =? x then zremove k r else x :: zremove k r end.

Definition U64MAX : Z := 2 ^ 64 - 1.
Definition VARINT_MAX : Z := 2 ^ 62 - 1.
Definition sat_add (a b : Z) : Z := Z.min U64MAX (a + b).
Definition b2z (b : bool) : Z := if b then 1 else 0.

(** * Range sets (sorted, disjoint, non-adjacent) *)
Fixpoint rs_insert (s e : Z) (rs : list (Z * Z)) : list (Z * Z) :=
  match rs with
  | [] => [(s, e)]
  | (a, b) :: rest =>
      if e <? a then (s, e) :: rs
      else if b <? s then (a, b) :: rs_insert s e rest
      else rs_insert (Z.min s a) (Z.max e b) rest
  end.
Definition rs_add (s e : Z) (rs : list (Z * Z)) : list (Z * Z) :=
  if s <? e then rs_insert s e rs else rs.
Fixpoint rs_overlap (s e : Z) (rs : list (Z * Z)) : Z :=
  match rs with
  | [] => 0
  | (a, b) :: rest => Z.max 0 (Z.min e b - Z.max s a) + rs_overlap s e rest
  end.
Fixpoint rs_size (rs : list (Z * Z)) : Z :=
  match rs with [] => 0 | (a, b) :: rest => (b - a) + rs_size rest end.

(** * Assembler, lengths only *)
Fixpoint ch_insert (o l : Z) (cs : list (Z * Z)) : list (Z * Z) :=
  match cs with
  | [] => [(o, l)]
  | (o', l') :: rest =>
      if (o <? o') || ((o =? o') && (l' <=? l)) then (o, l) :: cs
      else (o', l') :: ch_insert o l rest
  end.

Inductive amode :=
| AOrd (cs : list (Z * Z))
| AUnord (recvd : list (Z * Z)) (ubuf : Z).
Record asm := mkAsm { a_mode : amode; a_read : Z }.
Definition asm_new : asm := mkAsm (AOrd []) 0.

Definition asm_insert (a : asm) (off len : Z) : asm :=
  if len <=? 0 then a
  else match a_mode a with
       | AOrd cs =>
           if off <? a_read a then
             if off + len <=? a_read a then a
             else mkAsm (AOrd (ch_insert (a_read a) (off + len - a_read a) cs)) (a_read a)
           else mkAsm (AOrd (ch_insert off len cs)) (a_read a)
       | AUnord rv ub =>
           mkAsm (AUnord (rs_add off (off + len) rv)
                         (ub + (len - rs_overlap off (off + len) rv))) (a_read a)
       end.

(** [defragment] at the switch to unordered mode: duplicates among chunks (and, in the repaired
    assembler, everything below [bytes_read]) are trimmed; returns (recvd, buffered bytes). *)
Fixpoint dedup_chunks (cs : list (Z * Z)) (offset : Z) (rv : list (Z * Z)) (ub : Z)
  : list (Z * Z) * Z :=
  match cs with
  | [] => (rv, ub)
  | (o, l) :: rest =>
      let dup := Z.max 0 (offset - o) in
      if l <=? dup then dedup_chunks rest offset rv ub
      else let o' := Z.max o offset in
           let l' := l - dup in
           dedup_chunks rest (o' + l') (rs_add o' (o' + l') rv) (ub + l')
  end.

(** [ensure_ordering]; [None] = IllegalOrderedRead. *)
Definition asm_ensure (a : asm) (ordered : bool) : option asm :=
  match a_mode a, ordered with
  | AOrd _, true => Some a
  | AUnord _ _, true => None
  | AUnord _ _, false => Some a
  | AOrd cs, false =>
      let '(rv, ub) := dedup_chunks cs (a_read a) (rs_add 0 (a_read a) []) 0 in
      Some (mkAsm (AUnord rv ub) (a_read a))
  end.

(** Ordered [Chunks::next(remaining)] loop: (chunks, bytes_read, remaining, total, hit_none). *)
Fixpoint read_ord (cs : list (Z * Z)) (br rem total : Z)
  : list (Z * Z) * Z * Z * Z * bool :=
  match cs with
  | [] => (cs, br, rem, total, negb (rem <=? 0))
  | (o, l) :: rest =>
      if rem <=? 0 then (cs, br, rem, total, false)
      else if br <? o then (cs, br, rem, total, true)
      else if o + l <=? br then read_ord rest br rem total
      else let l' := o + l - br in
           if rem <? l' then (ch_insert (br + rem) (l' - rem) rest, br + rem, 0, total + rem, false)
           else read_ord rest (br + l') (rem - l') (total + l')
  end.

(** Read loop with byte budget: (assembler, total bytes, whether a call returned no data). *)
Definition asm_read (a : asm) (budget : Z) : asm * Z * bool :=
  match a_mode a with
  | AOrd cs =>
      let '(cs', br, _, total, none) := read_ord cs (a_read a) budget 0 in
      (mkAsm (AOrd cs') br, total, none)
  | AUnord rv ub =>
      if budget <=? 0 then (a, 0, false)
      else let t := Z.min budget ub in
           (mkAsm (AUnord rv (ub - t)) (a_read a + t), t, ub <? budget)
  end.

Definition asm_clear (a : asm) : asm :=
  match a_mode a with
  | AOrd _ => mkAsm (AOrd []) (a_read a)
  | AUnord rv _ => mkAsm (AUnord rv 0) (a_read a)
  end.

(** * Recv *)
Inductive rstate :=
| RRecv (size : option Z)
| RReset (size code : Z).
Record recv := mkRecv {
  r_state : rstate; r_asm : asm; r_sent_msd : Z; r_end : Z; r_stopped : bool }.
Definition recv_new (w : Z) : recv := mkRecv (RRecv None) asm_new w 0 false.
Inductive rslot := SNone | SFree | SOpen (r : recv).

Definition final_offset (r : recv) : option Z :=
  match r_state r with RRecv s => s | RReset s _ => Some s end.
Definition is_receiving (r : recv) : bool :=
  match r_state r with RRecv _ => true | RReset _ _ => false end.
Definition final_unknown (r : recv) : bool :=
  match r_state r with RRecv None => true | _ => false end.
Definition can_send_fc (r : recv) : bool := final_unknown r && negb (r_stopped r).
Definition reset_code (r : recv) : option Z :=
  match r_state r with RReset _ c => Some c | _ => None end.
Definition bytes_read (r : recv) : Z := a_read (r_asm r).
(** The stream's final end once known by a reset, else the high-water mark. *)
Definition eff_end (r : recv) : Z :=
  match r_state r with RReset s _ => s | RRecv _ => r_end r end.

(** [credit_consumed_by]: [None] = FLOW_CONTROL_ERROR. *)
Definition credit_consumed_by (r : recv) (offset received max_data : Z) : option Z :=
  let new_bytes := Z.max 0 (offset - r_end r) in
  if (r_sent_msd r <? offset) || (max_data <? received + new_bytes) then None else Some new_bytes.

Inductive res (A : Type) := Err (code : Z) | Ok (a : A).
Arguments Err {A}. Arguments Ok {A}.

Definition FLOW_CONTROL_ERROR : Z := 3.
Definition STREAM_LIMIT_ERROR : Z := 4.
Definition STREAM_STATE_ERROR : Z := 5.
Definition FINAL_SIZE_ERROR : Z := 6.

(** [Recv::ingest]: (recv, new bytes, closed). *)
Definition ingest (fx : bool) (r : recv) (off len : Z) (fin : bool) (received max_data : Z)
  : res (recv * Z * bool) :=
  let e := off + len in
  if 2 ^ 62 <=? e then Err FLOW_CONTROL_ERROR
  else if match final_offset r with
          | Some f => (f <? e) || (fin && negb (e =? f))
          | None => fx && fin && (e <? r_end r)
          end then Err FINAL_SIZE_ERROR
  else match credit_consumed_by r e received max_data with
       | None => Err FLOW_CONTROL_ERROR
       | Some nb =>
           let st' := if fin && negb (r_stopped r)
                      then match r_state r with RRecv _ => RRecv (Some e) | s => s end
                      else r_state r in
           let a' := if r_stopped r then r_asm r else asm_insert (r_asm r) off len in
           Ok (mkRecv st' a' (r_sent_msd r) (Z.max (r_end r) e) (r_stopped r), nb,
               fin && r_stopped r)
       end.

(** [Recv::reset]: (recv, whether the state changed). *)
Definition recv_reset (r : recv) (code final received max_data : Z) : res (recv * bool) :=
  if match final_offset r with
     | Some f => negb (f =? final)
     | None => final <? r_end r
     end then Err FINAL_SIZE_ERROR
  else match credit_consumed_by r final received max_data with
       | None => Err FLOW_CONTROL_ERROR
       | Some _ =>
           match r_state r with
           | RReset _ _ => Ok (r, false)
           | RRecv _ =>
               Ok (mkRecv (RReset final code) (asm_clear (r_asm r)) (r_sent_msd r) (r_end r)
                          (r_stopped r), true)
           end
       end.

(** [Recv::max_stream_data]: (value, transmit); [None] = subtraction underflow. *)
Definition max_stream_data (r : recv) (w : Z) : option (Z * bool) :=
  let m := bytes_read r + w in
  if m <? r_sent_msd r then None
  else Some (m, can_send_fc r && (w / 8 <=? m - r_sent_msd r)).

(** * Send halves (details in Model/StreamSM.v) *)
Record send := mkSend {
  s_state : Z;            (* 0 Ready, 1 DataSent{finish_acked=false}, 2 DataSent{true}, 3 ResetSent *)
  s_stop : option Z;
  s_off : Z; s_unacked : Z; s_unsent : Z;
  s_acks : list (Z * Z); s_retx : list (Z * Z);
  s_finp : bool }.
Definition send_new : send := mkSend 0 None 0 0 0 [] [] false.
Inductive sslot := TNone | TSome (s : send).
Definition sview (t : sslot) : send := match t with TNone => send_new | TSome s => s end.

(** * StreamsState + the hook's [Retransmits], seen ids and sent log *)
Record st := mkSt {
  side : Z;
  recvm : list (Z * rslot);
  sendm : list (Z * sslot);
  free_recv : Z;
  nxt : Z * Z;
  maxl : Z * Z;
  max_remote : Z * Z;
  sent_max_remote : Z * Z;
  alloc : Z * Z;
  max_conc : Z * Z;
  next_remote : Z * Z;
  opened : bool * bool;
  next_rep : Z * Z;
  send_streams : Z;
  events : list (list Z);
  pendq : list Z;
  local_max : Z;
  rwin : Z;
  sent_max_data : Z;
  data_recvd : Z;
  swin : Z;
  debt : Z;
  p_max_data : bool;
  p_msid : bool * bool;
  p_msd : list Z;
  p_stop : list (Z * Z);
  p_reset : list (Z * Z);
  seen : list Z;
  slog : list ((Z * Z * Z * Z) * Z);
  panic : bool;
  g_closed : Z;
  g_credits : Z;
  g_expand : Z;
  g_fin : list Z;
  g_reset : list Z
}.

Definition set_side (v : Z) (s : st) : st := mkSt v (recvm s) (sendm s) (free_recv s) (nxt s) (maxl s) (max_remote s) (sent_max_remote s) (alloc s) (max_conc s) (next_remote s) (opened s) (next_rep s) (send_streams s) (events s) (pendq s) (local_max s) (rwin s) (sent_max_data s) (data_recvd s) (swin s) (debt s) (p_max_data s) (p_msid s) (p_msd s) (p_stop s) (p_reset s) (seen s) (slog s) (panic s) (g_closed s) (g_credits s) (g_expand s) (g_fin s) (g_reset s).
Definition set_recvm (v : list (Z * rslot)) (s : st) : st := mkSt (side s) v (sendm s) (free_recv s) (nxt s) (maxl s) (max_remote s) (sent_max_remote s) (alloc s) (max_conc s) (next_remote s) (opened s) (next_rep s) (send_streams s) (events s) (pendq s) (local_max s) (rwin s) (sent_max_data s) (data_recvd s) (swin s) (debt s) (p_max_data s) (p_msid s) (p_msd s) (p_stop s) (p_reset s) (seen s) (slog s) (panic s) (g_closed s) (g_credits s) (g_expand s) (g_fin s) (g_reset s).
Definition set_sendm (v : list (Z * sslot)) (s : st) : st := mkSt (side s) (recvm s) v (free_recv s) (nxt s) (maxl s) (max_remote s) (sent_max_remote s) (alloc s) (max_conc s) (next_remote s) (opened s) (next_rep s) (send_streams s) (events s) (pendq s) (local_max s) (rwin s) (sent_max_data s) (data_recvd s) (swin s) (debt s) (p_max_data s) (p_msid s) (p_msd s) (p_stop s) (p_reset s) (seen s) (slog s) (panic s) (g_closed s) (g_credits s) (g_expand s) (g_fin s) (g_reset s).
Definition set_free_recv (v : Z) (s : st) : st := mkSt (side s) (recvm s) (sendm s) v (nxt s) (maxl s) (max_remote s) (sent_max_remote s) (alloc s) (max_conc s) (next_remote s) (opened s) (next_rep s) (send_streams s) (events s) (pendq s) (local_max s) (rwin s) (sent_max_data s) (data_recvd s) (swin s) (debt s) (p_max_data s) (p_msid s) (p_msd s) (p_stop s) (p_reset s) (seen s) (slog s) (panic s) (g_closed s) (g_credits s) (g_expand s) (g_fin s) (g_reset s).
Definition set_nxt (v : Z * Z) (s : st) : st := mkSt (side s) (recvm s) (sendm s) (free_recv s) v (maxl s) (max_remote s) (sent_max_remote s) (alloc s) (max_conc s) (next_remote s) (opened s) (next_rep s) (send_streams s) (events s) (pendq s) (local_max s) (rwin s) (sent_max_data s) (data_recvd s) (swin s) (debt s) (p_max_data s) (p_msid s) (p_msd s) (p_stop s) (p_reset s) (seen s) (slog s) (panic s) (g_closed s) (g_credits s) (g_expand s) (g_fin s) (g_reset s).
Definition set_maxl (v : Z * Z) (s : st) : st := mkSt (side s) (recvm s) (sendm s) (free_recv s) (nxt s) v (max_remote s) (sent_max_remote s) (alloc s) (max_conc s) (next_remote s) (opened s) (next_rep s) (send_streams s) (events s) (pendq s) (local_max s) (rwin s) (sent_max_data s) (data_recvd s) (swin s) (debt s) (p_max_data s) (p_msid s) (p_msd s) (p_stop s) (p_reset s) (seen s) (slog s) (panic s) (g_closed s) (g_credits s) (g_expand s) (g_fin s) (g_reset s).
Definition set_max_remote (v : Z * Z) (s : st) : st := mkSt (side s) (recvm s) (sendm s) (free_recv s) (nxt s) (maxl s) v (sent_max_remote s) (alloc s) (max_conc s) (next_remote s) (opened s) (next_rep s) (send_streams s) (events s) (pendq s) (local_max s) (rwin s) (sent_max_data s) (data_recvd s) (swin s) (debt s) (p_max_data s) (p_msid s) (p_msd s) (p_stop s) (p_reset s) (seen s) (slog s) (panic s) (g_closed s) (g_credits s) (g_expand s) (g_fin s) (g_reset s).
Definition set_sent_max_remote (v : Z * Z) (s : st) : st := mkSt (side s) (recvm s) (sendm s) (free_recv s) (nxt s) (maxl s) (max_remote s) v (alloc s) (max_conc s) (next_remote s) (opened s) (next_rep s) (send_streams s) (events s) (pendq s) (local_max s) (rwin s) (sent_max_data s) (data_recvd s) (swin s) (debt s) (p_max_data s) (p_msid s) (p_msd s) (p_stop s) (p_reset s) (seen s) (slog s) (panic s) (g_closed s) (g_credits s) (g_expand s) (g_fin s) (g_reset s).
Definition set_alloc (v : Z * Z) (s : st) : st := mkSt (side s) (recvm s) (sendm s) (free_recv s) (nxt s) (maxl s) (max_remote s) (sent_max_remote s) v (max_conc s) (next_remote s) (opened s) (next_rep s) (send_streams s) (events s) (pendq s) (local_max s) (rwin s) (sent_max_data s) (data_recvd s) (swin s) (debt s) (p_max_data s) (p_msid s) (p_msd s) (p_stop s) (p_reset s) (seen s) (slog s) (panic s) (g_closed s) (g_credits s) (g_expand s) (g_fin s) (g_reset s).
Definition set_max_conc (v : Z * Z) (s : st) : st := mkSt (side s) (recvm s) (sendm s) (free_recv s) (nxt s) (maxl s) (max_remote s) (sent_max_remote s) (alloc s) v (next_remote s) (opened s) (next_rep s) (send_streams s) (events s) (pendq s) (local_max s) (rwin s) (sent_max_data s) (data_recvd s) (swin s) (debt s) (p_max_data s) (p_msid s) (p_msd s) (p_stop s) (p_reset s) (seen s) (slog s) (panic s) (g_closed s) (g_credits s) (g_expand s) (g_fin s) (g_reset s).
Definition set_next_remote (v : Z * Z) (s : st) : st := mkSt (side s) (recvm s) (sendm s) (free_recv s) (nxt s) (maxl s) (max_remote s) (sent_max_remote s) (alloc s) (max_conc s) v (opened s) (next_rep s) (send_streams s) (events s) (pendq s) (local_max s) (rwin s) (sent_max_data s) (data_recvd s) (swin s) (debt s) (p_max_data s) (p_msid s) (p_msd s) (p_stop s) (p_reset s) (seen s) (slog s) (panic s) (g_closed s) (g_credits s) (g_expand s) (g_fin s) (g_reset s).
Definition set_opened (v : bool * bool) (s : st) : st := mkSt (side s) (recvm s) (sendm s) (free_recv s) (nxt s) (maxl s) (max_remote s) (sent_max_remote s) (alloc s) (max_conc s) (next_remote s) v (next_rep s) (send_streams s) (events s) (pendq s) (local_max s) (rwin s) (sent_max_data s) (data_recvd s) (swin s) (debt s) (p_max_data s) (p_msid s) (p_msd s) (p_stop s) (p_reset s) (seen s) (slog s) (panic s) (g_closed s) (g_credits s) (g_expand s) (g_fin s) (g_reset s).
Definition set_next_rep (v : Z * Z) (s : st) : st := mkSt (side s) (recvm s) (sendm s) (free_recv s) (nxt s) (maxl s) (max_remote s) (sent_max_remote s) (alloc s) (max_conc s) (next_remote s) (opened s) v (send_streams s) (events s) (pendq s) (local_max s) (rwin s) (sent_max_data s) (data_recvd s) (swin s) (debt s) (p_max_data s) (p_msid s) (p_msd s) (p_stop s) (p_reset s) (seen s) (slog s) (panic s) (g_closed s) (g_credits s) (g_expand s) (g_fin s) (g_reset s).
Definition set_send_streams (v : Z) (s : st) : st := mkSt (side s) (recvm s) (sendm s) (free_recv s) (nxt s) (maxl s) (max_remote s) (sent_max_remote s) (alloc s) (max_conc s) (next_remote s) (opened s) (next_rep s) v (events s) (pendq s) (local_max s) (rwin s) (sent_max_data s) (data_recvd s) (swin s) (debt s) (p_max_data s) (p_msid s) (p_msd s) (p_stop s) (p_reset s) (seen s) (slog s) (panic s) (g_closed s) (g_credits s) (g_expand s) (g_fin s) (g_reset s).
Definition set_events (v : list (list Z)) (s : st) : st := mkSt (side s) (recvm s) (sendm s) (free_recv s) (nxt s) (maxl s) (max_remote s) (sent_max_remote s) (alloc s) (max_conc s) (next_remote s) (opened s) (next_rep s) (send_streams s) v (pendq s) (local_max s) (rwin s) (sent_max_data s) (data_recvd s) (swin s) (debt s) (p_max_data s) (p_msid s) (p_msd s) (p_stop s) (p_reset s) (seen s) (slog s) (panic s) (g_closed s) (g_credits s) (g_expand s) (g_fin s) (g_reset s).
Definition set_pendq (v : list Z) (s : st) : st := mkSt (side s) (recvm s) (sendm s) (free_recv s) (nxt s) (maxl s) (max_remote s) (sent_max_remote s) (alloc s) (max_conc s) (next_remote s) (opened s) (next_rep s) (send_streams s) (events s) v (local_max s) (rwin s) (sent_max_data s) (data_recvd s) (swin s) (debt s) (p_max_data s) (p_msid s) (p_msd s) (p_stop s) (p_reset s) (seen s) (slog s) (panic s) (g_closed s) (g_credits s) (g_expand s) (g_fin s) (g_reset s).
Definition set_local_max (v : Z) (s : st) : st := mkSt (side s) (recvm s) (sendm s) (free_recv s) (nxt s) (maxl s) (max_remote s) (sent_max_remote s) (alloc s) (max_conc s) (next_remote s) (opened s) (next_rep s) (send_streams s) (events s) (pendq s) v (rwin s) (sent_max_data s) (data_recvd s) (swin s) (debt s) (p_max_data s) (p_msid s) (p_msd s) (p_stop s) (p_reset s) (seen s) (slog s) (panic s) (g_closed s) (g_credits s) (g_expand s) (g_fin s) (g_reset s).
Definition set_rwin (v : Z) (s : st) : st := mkSt (side s) (recvm s) (sendm s) (free_recv s) (nxt s) (maxl s) (max_remote s) (sent_max_remote s) (alloc s) (max_conc s) (next_remote s) (opened s) (next_rep s) (send_streams s) (events s) (pendq s) (local_max s) v (sent_max_data s) (data_recvd s) (swin s) (debt s) (p_max_data s) (p_msid s) (p_msd s) (p_stop s) (p_reset s) (seen s) (slog s) (panic s) (g_closed s) (g_credits s) (g_expand s) (g_fin s) (g_reset s).
Definition set_sent_max_data (v : Z) (s : st) : st := mkSt (side s) (recvm s) (sendm s) (free_recv s) (nxt s) (maxl s) (max_remote s) (sent_max_remote s) (alloc s) (max_conc s) (next_remote s) (opened s) (next_rep s) (send_streams s) (events s) (pendq s) (local_max s) (rwin s) v (data_recvd s) (swin s) (debt s) (p_max_data s) (p_msid s) (p_msd s) (p_stop s) (p_reset s) (seen s) (slog s) (panic s) (g_closed s) (g_credits s) (g_expand s) (g_fin s) (g_reset s).
Definition set_data_recvd (v : Z) (s : st) : st := mkSt (side s) (recvm s) (sendm s) (free_recv s) (nxt s) (maxl s) (max_remote s) (sent_max_remote s) (alloc s) (max_conc s) (next_remote s) (opened s) (next_rep s) (send_streams s) (events s) (pendq s) (local_max s) (rwin s) (sent_max_data s) v (swin s) (debt s) (p_max_data s) (p_msid s) (p_msd s) (p_stop s) (p_reset s) (seen s) (slog s) (panic s) (g_closed s) (g_credits s) (g_expand s) (g_fin s) (g_reset s).
Definition set_swin (v : Z) (s : st) : st := mkSt (side s) (recvm s) (sendm s) (free_recv s) (nxt s) (maxl s) (max_remote s) (sent_max_remote s) (alloc s) (max_conc s) (next_remote s) (opened s) (next_rep s) (send_streams s) (events s) (pendq s) (local_max s) (rwin s) (sent_max_data s) (data_recvd s) v (debt s) (p_max_data s) (p_msid s) (p_msd s) (p_stop s) (p_reset s) (seen s) (slog s) (panic s) (g_closed s) (g_credits s) (g_expand s) (g_fin s) (g_reset s).
Definition set_debt (v : Z) (s : st) : st := mkSt (side s) (recvm s) (sendm s) (free_recv s) (nxt s) (maxl s) (max_remote s) (sent_max_remote s) (alloc s) (max_conc s) (next_remote s) (opened s) (next_rep s) (send_streams s) (events s) (pendq s) (local_max s) (rwin s) (sent_max_data s) (data_recvd s) (swin s) v (p_max_data s) (p_msid s) (p_msd s) (p_stop s) (p_reset s) (seen s) (slog s) (panic s) (g_closed s) (g_credits s) (g_expand s) (g_fin s) (g_reset s).
Definition set_p_max_data (v : bool) (s : st) : st := mkSt (side s) (recvm s) (sendm s) (free_recv s) (nxt s) (maxl s) (max_remote s) (sent_max_remote s) (alloc s) (max_conc s) (next_remote s) (opened s) (next_rep s) (send_streams s) (events s) (pendq s) (local_max s) (rwin s) (sent_max_data s) (data_recvd s) (swin s) (debt s) v (p_msid s) (p_msd s) (p_stop s) (p_reset s) (seen s) (slog s) (panic s) (g_closed s) (g_credits s) (g_expand s) (g_fin s) (g_reset s).
Definition set_p_msid (v : bool * bool) (s : st) : st := mkSt (side s) (recvm s) (sendm s) (free_recv s) (nxt s) (maxl s) (max_remote s) (sent_max_remote s) (alloc s) (max_conc s) (next_remote s) (opened s) (next_rep s) (send_streams s) (events s) (pendq s) (local_max s) (rwin s) (sent_max_data s) (data_recvd s) (swin s) (debt s) (p_max_data s) v (p_msd s) (p_stop s) (p_reset s) (seen s) (slog s) (panic s) (g_closed s) (g_credits s) (g_expand s) (g_fin s) (g_reset s).
Definition set_p_msd (v : list Z) (s : st) : st := mkSt (side s) (recvm s) (sendm s) (free_recv s) (nxt s) (maxl s) (max_remote s) (sent_max_remote s) (alloc s) (max_conc s) (next_remote s) (opened s) (next_rep s) (send_streams s) (events s) (pendq s) (local_max s) (rwin s) (sent_max_data s) (data_recvd s) (swin s) (debt s) (p_max_data s) (p_msid s) v (p_stop s) (p_reset s) (seen s) (slog s) (panic s) (g_closed s) (g_credits s) (g_expand s) (g_fin s) (g_reset s).
Definition set_p_stop (v : list (Z * Z)) (s : st) : st := mkSt (side s) (recvm s) (sendm s) (free_recv s) (nxt s) (maxl s) (max_remote s) (sent_max_remote s) (alloc s) (max_conc s) (next_remote s) (opened s) (next_rep s) (send_streams s) (events s) (pendq s) (local_max s) (rwin s) (sent_max_data s) (data_recvd s) (swin s) (debt s) (p_max_data s) (p_msid s) (p_msd s) v (p_reset s) (seen s) (slog s) (panic s) (g_closed s) (g_credits s) (g_expand s) (g_fin s) (g_reset s).
Definition set_p_reset (v : list (Z * Z)) (s : st) : st := mkSt (side s) (recvm s) (sendm s) (free_recv s) (nxt s) (maxl s) (max_remote s) (sent_max_remote s) (alloc s) (max_conc s) (next_remote s) (opened s) (next_rep s) (send_streams s) (events s) (pendq s) (local_max s) (rwin s) (sent_max_data s) (data_recvd s) (swin s) (debt s) (p_max_data s) (p_msid s) (p_msd s) (p_stop s) v (seen s) (slog s) (panic s) (g_closed s) (g_credits s) (g_expand s) (g_fin s) (g_reset s).
Definition set_seen (v : list Z) (s : st) : st := mkSt (side s) (recvm s) (sendm s) (free_recv s) (nxt s) (maxl s) (max_remote s) (sent_max_remote s) (alloc s) (max_conc s) (next_remote s) (opened s) (next_rep s) (send_streams s) (events s) (pendq s) (local_max s) (rwin s) (sent_max_data s) (data_recvd s) (swin s) (debt s) (p_max_data s) (p_msid s) (p_msd s) (p_stop s) (p_reset s) v (slog s) (panic s) (g_closed s) (g_credits s) (g_expand s) (g_fin s) (g_reset s).
Definition set_slog (v : list ((Z * Z * Z * Z) * Z)) (s : st) : st := mkSt (side s) (recvm s) (sendm s) (free_recv s) (nxt s) (maxl s) (max_remote s) (sent_max_remote s) (alloc s) (max_conc s) (next_remote s) (opened s) (next_rep s) (send_streams s) (events s) (pendq s) (local_max s) (rwin s) (sent_max_data s) (data_recvd s) (swin s) (debt s) (p_max_data s) (p_msid s) (p_msd s) (p_stop s) (p_reset s) (seen s) v (panic s) (g_closed s) (g_credits s) (g_expand s) (g_fin s) (g_reset s).
Definition set_panic (v : bool) (s : st) : st := mkSt (side s) (recvm s) (sendm s) (free_recv s) (nxt s) (maxl s) (max_remote s) (sent_max_remote s) (alloc s) (max_conc s) (next_remote s) (opened s) (next_rep s) (send_streams s) (events s) (pendq s) (local_max s) (rwin s) (sent_max_data s) (data_recvd s) (swin s) (debt s) (p_max_data s) (p_msid s) (p_msd s) (p_stop s) (p_reset s) (seen s) (slog s) v (g_closed s) (g_credits s) (g_expand s) (g_fin s) (g_reset s).
Definition set_g_closed (v : Z) (s : st) : st := mkSt (side s) (recvm s) (sendm s) (free_recv s) (nxt s) (maxl s) (max_remote s) (sent_max_remote s) (alloc s) (max_conc s) (next_remote s) (opened s) (next_rep s) (send_streams s) (events s) (pendq s) (local_max s) (rwin s) (sent_max_data s) (data_recvd s) (swin s) (debt s) (p_max_data s) (p_msid s) (p_msd s) (p_stop s) (p_reset s) (seen s) (slog s) (panic s) v (g_credits s) (g_expand s) (g_fin s) (g_reset s).
Definition set_g_credits (v : Z) (s : st) : st := mkSt (side s) (recvm s) (sendm s) (free_recv s) (nxt s) (maxl s) (max_remote s) (sent_max_remote s) (alloc s) (max_conc s) (next_remote s) (opened s) (next_rep s) (send_streams s) (events s) (pendq s) (local_max s) (rwin s) (sent_max_data s) (data_recvd s) (swin s) (debt s) (p_max_data s) (p_msid s) (p_msd s) (p_stop s) (p_reset s) (seen s) (slog s) (panic s) (g_closed s) v (g_expand s) (g_fin s) (g_reset s).
Definition set_g_expand (v : Z) (s : st) : st := mkSt (side s) (recvm s) (sendm s) (free_recv s) (nxt s) (maxl s) (max_remote s) (sent_max_remote s) (alloc s) (max_conc s) (next_remote s) (opened s) (next_rep s) (send_streams s) (events s) (pendq s) (local_max s) (rwin s) (sent_max_data s) (data_recvd s) (swin s) (debt s) (p_max_data s) (p_msid s) (p_msd s) (p_stop s) (p_reset s) (seen s) (slog s) (panic s) (g_closed s) (g_credits s) v (g_fin s) (g_reset s).
Definition set_g_fin (v : list Z) (s : st) : st := mkSt (side s) (recvm s) (sendm s) (free_recv s) (nxt s) (maxl s) (max_remote s) (sent_max_remote s) (alloc s) (max_conc s) (next_remote s) (opened s) (next_rep s) (send_streams s) (events s) (pendq s) (local_max s) (rwin s) (sent_max_data s) (data_recvd s) (swin s) (debt s) (p_max_data s) (p_msid s) (p_msd s) (p_stop s) (p_reset s) (seen s) (slog s) (panic s) (g_closed s) (g_credits s) (g_expand s) v (g_reset s).
Definition set_g_reset (v : list Z) (s : st) : st := mkSt (side s) (recvm s) (sendm s) (free_recv s) (nxt s) (maxl s) (max_remote s) (sent_max_remote s) (alloc s) (max_conc s) (next_remote s) (opened s) (next_rep s) (send_streams s) (events s) (pendq s) (local_max s) (rwin s) (sent_max_data s) (data_recvd s) (swin s) (debt s) (p_max_data s) (p_msid s) (p_msd s) (p_stop s) (p_reset s) (seen s) (slog s) (panic s) (g_closed s) (g_credits s) (g_expand s) (g_fin s) v.


Definition rview (s : st) (t : rslot) : recv :=
  match t with SOpen r => r | _ => recv_new (swin s) end.

Definition set_panic_if (b : bool) (s : st) : st := if b then set_panic true s else s.

(** [insert(remote, id)] *)
Definition insert_stream (remote : bool) (id : Z) (s : st) : st :=
  let bi := sid_dir id =? 0 in
  (* the maps hold each key once: a second insertion is the [assert!] failure of the code *)
  let s1 := if bi || negb remote
            then (if amem id (sendm s) then set_panic true s
                  else set_sendm (aset id TNone (sendm s)) s)
            else s in
  if bi || remote then
    if amem id (recvm s1) then set_panic true s1
    else if 0 <? free_recv s1
    then set_free_recv (free_recv s1 - 1) (set_recvm (aset id SFree (recvm s1)) s1)
    else set_recvm (aset id SNone (recvm s1)) s1
  else s1.

Fixpoint insert_remote_range (n : nat) (dir from : Z) (s : st) : st :=
  match n with
  | O => s
  | S n' => insert_remote_range n' dir (from + 1)
              (insert_stream true (mk_sid (1 - side s) dir from) s)
  end.

(** [ensure_remote_streams] *)
Definition ensure_remote_streams (d : Z) (s : st) : st :=
  let nc := Z.max 0 (pget d (max_conc s) - pget d (alloc s)) in
  let s1 := insert_remote_range (Z.to_nat nc) d (pget d (max_remote s)) s in
  set_max_remote (pset d (pget d (max_remote s1) + nc) (max_remote s1))
    (set_alloc (pset d (pget d (alloc s1) + nc) (alloc s1)) s1).

(** [stream_freed]; [half_send = true] for [StreamHalf::Send]. *)
Definition stream_freed (id : Z) (half_send : bool) (s : st) : st :=
  let d := sid_dir id in
  let s1 :=
    if negb (sid_init id =? side s) then
      let fully := (d =? 1) || (if half_send then negb (amem id (recvm s))
                               else negb (amem id (sendm s))) in
      if fully then
        ensure_remote_streams d
          (set_panic_if (pget d (alloc s) <=? 0)
             (set_alloc (pset d (pget d (alloc s) - 1) (alloc s)) s))
      else s
    else s in
  if half_send
  then set_panic_if (send_streams s1 <=? 0) (set_send_streams (send_streams s1 - 1) s1)
  else s1.

(** [stream_recv_freed]: the caller has already removed the entry from the map; [e] is the
    stream's final end (ghost). *)
Definition stream_recv_freed (id e : Z) (s : st) : st :=
  stream_freed id false
    (set_g_closed (g_closed s + e) (set_free_recv (free_recv s + 1) s)).

(** [on_stream_frame] *)
Definition on_stream_frame (notify : bool) (id : Z) (s : st) : st :=
  if sid_init id =? side s then
    if notify then set_events (events s ++ [[2; id]]) s else s
  else
    let d := sid_dir id in
    if pget d (next_remote s) <=? sid_index id then
      set_opened (pset d true (opened s))
        (set_next_remote (pset d (sid_index id + 1) (next_remote s)) s)
    else if notify then set_events (events s ++ [[2; id]]) s else s.

(** [add_read_credits]: (state, should_transmit). *)
Definition add_read_credits (c : Z) (s : st) : st * bool :=
  let s0 := set_g_credits (g_credits s + c) s in
  let s1 := if debt s0 <? c
            then set_debt 0 (set_local_max (sat_add (local_max s0) (c - debt s0)) s0)
            else set_debt (debt s0 - c) s0 in
  if VARINT_MAX <? local_max s1 then (s1, false)
  else (set_panic_if (local_max s1 <? sent_max_data s1) s1,
        rwin s1 / 8 <=? local_max s1 - sent_max_data s1).

(** [validate_receive_id] *)
Definition validate_receive_id (id : Z) (s : st) : option Z :=
  if sid_init id =? side s then
    if sid_dir id =? 1 then Some STREAM_STATE_ERROR
    else if pget 0 (nxt s) <=? sid_index id then Some STREAM_STATE_ERROR
    else None
  else if pget (sid_dir id) (max_remote s) <=? sid_index id then Some STREAM_LIMIT_ERROR
  else None.

(** [queue_max_stream_id]: (state, queued). *)
Definition queue_dir (d : Z) (s : st) : st * bool :=
  let diff := pget d (max_remote s) - pget d (sent_max_remote s) in
  let s1 := set_panic_if (diff <? 0) s in
  if pget d (max_conc s) / 8 <? diff then (set_p_msid (pset d true (p_msid s1)) s1, true)
  else (s1, false).
Definition queue_max_stream_id (s : st) : st * bool :=
  let '(s1, q0) := queue_dir 0 s in
  let '(s2, q1) := queue_dir 1 s1 in
  (s2, q0 || q1).

(** * Frames *)
(** [StreamsState::received]: result [Ok should_transmit] / [Err code]. *)
Definition received (fx : bool) (id off len : Z) (fin : bool) (s : st) : st * res bool :=
  match validate_receive_id id s with
  | Some c => (s, Err c)
  | None =>
      match alookup id (recvm s) with
      | None => (s, Ok false)
      | Some slot =>
          let r := rview s slot in
          let s1 := set_recvm (aset id (SOpen r) (recvm s)) s in
          if negb (is_receiving r) then (s1, Ok false)
          else match ingest fx r off len fin (data_recvd s) (local_max s) with
               | Err c => (s1, Err c)
               | Ok (r', nb, closed) =>
                   let s2 := set_data_recvd (sat_add (data_recvd s1) nb)
                               (set_recvm (aset id (SOpen r') (recvm s1)) s1) in
                   if negb (r_stopped r') then (on_stream_frame true id s2, Ok false)
                   else
                     let s3 := if closed
                               then stream_recv_freed id (eff_end r')
                                      (set_recvm (aremove id (recvm s2)) s2)
                               else s2 in
                     let '(s4, t) := add_read_credits nb s3 in
                     (s4, Ok t)
               end
      end
  end.

(** [StreamsState::received_reset] *)
Definition received_reset (fx : bool) (id code final : Z) (s : st) : st * res bool :=
  match validate_receive_id id s with
  | Some c => (s, Err c)
  | None =>
      match alookup id (recvm s) with
      | None => (s, Ok false)
      | Some slot =>
          let r := rview s slot in
          let s1 := set_recvm (aset id (SOpen r) (recvm s)) s in
          match recv_reset r code final (data_recvd s) (local_max s) with
          | Err c => (s1, Err c)
          | Ok (_, false) => (s1, Ok false)
          | Ok (r', true) =>
              let br := bytes_read r' in
              let stopped := r_stopped r' in
              let e := r_end r' in
              let s2 := set_recvm (aset id (SOpen r') (recvm s1)) s1 in
              let s3 := if stopped
                        then stream_recv_freed id final (set_recvm (aremove id (recvm s2)) s2)
                        else s2 in
              let s4 := on_stream_frame (negb stopped) id s3 in
              let credited := if fx && stopped then e else br in
              if negb (credited =? final) then
                let s5 := set_panic_if (final <? e)
                            (set_data_recvd (sat_add (data_recvd s4) (final - e)) s4) in
                let '(s6, t) := add_read_credits (final - credited)
                                  (set_panic_if (final <? credited) s5) in
                (s6, Ok t)
              else (s4, Ok false)
          end
      end
  end.

(** * Application: read / stop / received_reset *)
(** The [RecvStream::read] + [Chunks::next]* + [finalize] op of the hook.
    Output: [1] ClosedStream | [2] IllegalOrderedRead | [0; bytes; term; code; should_transmit]. *)
Definition read_op (fx : bool) (id : Z) (ordered : bool) (budget : Z) (s : st) : st * list Z :=
  match alookup id (recvm s) with
  | None => (s, [1])
  | Some slot =>
      let r := rview s slot in
      let s1 := set_recvm (aset id (SOpen r) (recvm s)) s in
      if r_stopped r then (s1, [1])
      else
        match asm_ensure (r_asm r) ordered with
        | None => (if fx then s1 else set_recvm (aremove id (recvm s1)) s1, [2])
        | Some a1 =>
            (* [Chunks] takes the [Recv] out of the map and [finalize] puts it back unless the
               stream ended; nothing looks at the map in between, so the entry is kept here and
               only removed when the stream is freed *)
            let '(a2, total, none) := asm_read a1 budget in
            let r2 := mkRecv (r_state r) a2 (r_sent_msd r) (r_end r) false in
            (* outcome of the last [next] call *)
            let '(term, code) :=
              if none then
                match r_state r2 with
                | RReset _ c => (3, c)
                | RRecv size =>
                    if match size with Some z => z =? r_end r2 | None => false end
                       && (bytes_read r2 =? r_end r2)
                    then (2, 0) else (1, 0)
                end
              else (0, 0) in
            let freed := (term =? 2) || (term =? 3) in
            let s3 := if freed
                      then stream_recv_freed id (eff_end r2) (set_recvm (aremove id (recvm s1)) s1)
                      else s1 in
            let s3 := set_panic_if ((term =? 3) && negb (total =? 0)) s3 in
            (* finalize *)
            let '(s4, q) := queue_max_stream_id s3 in
            let '(s5, t1) :=
              if freed then (s4, false)
              else match max_stream_data r2 (swin s4) with
                   | None => (set_panic true s4, false)
                   | Some (_, tr) =>
                       (set_recvm (aset id (SOpen r2) (recvm s4))
                          (if tr then set_p_msd (zadd id (p_msd s4)) s4 else s4), tr)
                   end in
            let '(s6, t2) := add_read_credits total s5 in
            let s7 := set_p_max_data (p_max_data s6 || t2) s6 in
            (s7, [0; total; term; code; b2z (q || t1 || t2)])
        end
  end.

(** [RecvStream::stop]: [0] | [1] ClosedStream. *)
Definition stop_op (fx : bool) (id code : Z) (s : st) : st * list Z :=
  match alookup id (recvm s) with
  | None => (s, [1])
  | Some slot =>
      let r := rview s slot in
      let s1 := set_recvm (aset id (SOpen r) (recvm s)) s in
      if r_stopped r then (s1, [1])
      else
        let r' := mkRecv (r_state r) (asm_clear (r_asm r)) (r_sent_msd r) (r_end r) true in
        let credits := if fx && negb (is_receiving r) then 0 else r_end r - bytes_read r in
        let s2 := set_panic_if (r_end r <? bytes_read r)
                    (set_recvm (aset id (SOpen r') (recvm s1)) s1) in
        let s3 := if is_receiving r then set_p_stop (p_stop s2 ++ [(id, code)]) s2 else s2 in
        let s4 := if negb (final_unknown r)
                  then stream_recv_freed id (eff_end r') (set_recvm (aremove id (recvm s3)) s3)
                  else s3 in
        let '(s5, t) := add_read_credits credits s4 in
        (if t then set_p_max_data true s5 else s5, [0])
  end.

(** [RecvStream::received_reset]: [1] ClosedStream | [0;0] None | [0;1;code]. *)
Definition rreset_op (id : Z) (s : st) : st * list Z :=
  match alookup id (recvm s) with
  | None => (s, [1])
  | Some (SOpen r) =>
      if r_stopped r then (s, [1])
      else match reset_code r with
           | None => (s, [0; 0])
           | Some c =>
               let s1 := stream_recv_freed id (eff_end r) (set_recvm (aremove id (recvm s)) s) in
               let '(s2, _) := queue_max_stream_id s1 in
               (s2, [0; 1; c])
           end
  | Some _ => (s, [0; 0])
  end.

(** [set_receive_window] + the Connection's [pending.max_data = true] when expanded. *)
Definition set_window_op (w : Z) (s : st) : st * list Z :=
  if rwin s <? w then
    (set_p_max_data true
       (set_g_expand (g_expand s + (w - rwin s))
          (set_rwin w (set_local_max (sat_add (local_max s) (w - rwin s)) s))), [0; 1])
  else (set_rwin w (set_debt (sat_add (debt s) (rwin s - w)) s), [0; 0]).

(** * Control frames *)
Definition tri_le (a b : Z * Z * Z) : bool :=
  let '(a1, a2, a3) := a in
  let '(b1, b2, b3) := b in
  (a1 <? b1) || ((a1 =? b1) && ((a2 <? b2) || ((a2 =? b2) && (a3 <=? b3)))).
Fixpoint tri_insert (x : Z * Z * Z) (l : list (Z * Z * Z)) : list (Z * Z * Z) :=
  match l with
  | [] => [x]
  | y :: r => if tri_le x y then x :: l else y :: tri_insert x r
  end.
Definition tri_sort (l : list (Z * Z * Z)) : list (Z * Z * Z) := fold_right tri_insert [] l.
Fixpoint tri_flat (l : list (Z * Z * Z)) : list Z :=
  match l with [] => [] | (a, b, c) :: r => a :: b :: c :: tri_flat r end.

Fixpoint emit_resets (l : list (Z * Z)) (s : st) : list (Z * Z * Z) :=
  match l with
  | [] => []
  | (id, _) :: r =>
      match alookup id (sendm s) with
      | Some (TSome sd) => (4, id, s_off sd) :: emit_resets r s
      | _ => emit_resets r s
      end
  end.

(** MAX_STREAM_DATA for every queued id: (state, frames). *)
Fixpoint emit_msd (ids : list Z) (s : st) : st * list (Z * Z * Z) :=
  match ids with
  | [] => (s, [])
  | id :: rest =>
      match alookup id (recvm s) with
      | Some (SOpen r) =>
          if can_send_fc r then
            match max_stream_data r (swin s) with
            | None => emit_msd rest (set_panic true s)
            | Some (m, _) =>
                let r' := mkRecv (r_state r) (r_asm r) (Z.max m (r_sent_msd r)) (r_end r)
                                 (r_stopped r) in
                (* [buf.write_var(max)] unwraps a VarInt conversion *)
                let s := set_panic_if (VARINT_MAX <? m) s in
                let '(s', fs) := emit_msd rest (set_recvm (aset id (SOpen r') (recvm s)) s) in
                (s', (2, id, m) :: fs)
            end
          else emit_msd rest s
      | _ => emit_msd rest s
      end
  end.

Definition emit_max_streams (d : Z) (s : st) : st * list (Z * Z * Z) :=
  if pget d (p_msid s) then
    (set_sent_max_remote (pset d (pget d (max_remote s)) (sent_max_remote s))
       (set_p_msid (pset d false (p_msid s)) s), [(3, d, pget d (max_remote s))])
  else (s, []).

(** [write_control_frames] with the hook's re-queue flags. *)
Definition control_op (f_md f_msd f_ms : bool) (s : st) : st * list Z * list Z :=
  let s := if f_md then set_p_max_data true s else s in
  let s := if f_msd then set_p_msd (fold_left (fun l id => zadd id l) (seen s) (p_msd s)) s else s in
  let s := if f_ms then set_p_msid (true, true) s else s in
  let f_reset := emit_resets (p_reset s) s in
  let f_stop := map (fun p => (5, fst p, snd p)) (p_stop s) in
  let s := set_p_stop [] (set_p_reset [] s) in
  let '(s, f_md) :=
    if p_max_data s then
      let m := Z.min (local_max s) VARINT_MAX in
      (set_sent_max_data (Z.max m (sent_max_data s)) (set_p_max_data false s), [(1, m, 0)])
    else (s, []) in
  let '(s, f_msd) := emit_msd (p_msd s) s in
  let s := set_p_msd [] s in
  let '(s, f_ms0) := emit_max_streams 0 s in
  let '(s, f_ms1) := emit_max_streams 1 s in
  let fs := tri_sort (f_reset ++ f_stop ++ f_md ++ f_msd ++ f_ms0 ++ f_ms1) in
  (s, [0; Z.of_nat (length fs)], tri_flat fs).

(** * Streams::open / accept; SendStream::reset; reset_acked (the rest is in StreamSM.v) *)
Definition open_op (d : Z) (s : st) : st * list Z :=
  if pget d (maxl s) <=? pget d (nxt s) then (s, [1])
  else
    let id := mk_sid (side s) d (pget d (nxt s)) in
    let s1 := set_nxt (pset d (pget d (nxt s) + 1) (nxt s)) s in
    let s2 := insert_stream false id s1 in
    (set_send_streams (send_streams s2 + 1) s2, [0; id]).

Definition accept_op (d : Z) (s : st) : st * list Z :=
  if pget d (next_remote s) =? pget d (next_rep s) then (s, [1])
  else
    let x := pget d (next_rep s) in
    let s1 := set_next_rep (pset d (x + 1) (next_rep s)) s in
    (if d =? 0 then set_send_streams (send_streams s1 + 1) s1 else s1,
     [0; mk_sid (1 - side s) d x]).

Definition with_send (id : Z) (sd : send) (s : st) : st :=
  set_sendm (aset id (TSome sd) (sendm s)) s.
Definition send_set_state (sd : send) (z : Z) : send :=
  mkSend z (s_stop sd) (s_off sd) (s_unacked sd) (s_unsent sd) (s_acks sd) (s_retx sd) (s_finp sd).

Definition sreset_op (id code : Z) (s : st) : st * list Z :=
  match alookup id (sendm s) with
  | None => (s, [3])
  | Some t =>
      let sd := sview t in
      if s_state sd =? 3 then (with_send id sd s, [3])
      else (set_g_reset (id :: g_reset s)
              (set_p_reset (p_reset s ++ [(id, code)]) (with_send id (send_set_state sd 3) s)), [0])
  end.

Definition reset_acked_op (id : Z) (s : st) : st * list Z :=
  match alookup id (sendm s) with
  | Some (TSome sd) =>
      if s_state sd =? 3
      then (stream_freed id true (set_sendm (aremove_all id (sendm s)) s), [0])
      else (s, [0])
  | _ => (s, [0])
  end.

(** * Observation probes (layout documented in the hook, flow_recv.rs) *)
Definition gprobe (s : st) : list Z :=
  [data_recvd s; local_max s; rwin s; debt s; sent_max_data s;
   fst (max_remote s); snd (max_remote s); fst (sent_max_remote s); snd (sent_max_remote s);
   fst (alloc s); snd (alloc s); fst (next_remote s); snd (next_remote s);
   fst (next_rep s); snd (next_rep s); fst (nxt s); snd (nxt s); send_streams s; free_recv s;
   b2z (p_max_data s); b2z (fst (p_msid s)); b2z (snd (p_msid s))].

Definition recv_fields (slot : Z) (r : recv) : list Z :=
  let '(tag, size, code) :=
    match r_state r with
    | RRecv None => (0, -1, -1)
    | RRecv (Some z) => (1, z, -1)
    | RReset z c => (2, z, c)
    end in
  [slot; tag; size; code; r_sent_msd r; r_end r; bytes_read r; b2z (r_stopped r)].

Definition sprobe (id : Z) (s : st) : list Z :=
  (match alookup id (recvm s) with
   | None => [0; 0; -1; -1; 0; 0; 0; 0]
   | Some SNone => [1; 0; -1; -1; 0; 0; 0; 0]
   | Some SFree => recv_fields 2 (recv_new (swin s))
   | Some (SOpen r) => recv_fields 3 r
   end)
  ++ (match alookup id (sendm s) with
      | None => [0; 0; -1; 0; 0]
      | Some TNone => [1; 0; -1; 0; 0]
      | Some (TSome sd) =>
          [2; s_state sd; match s_stop sd with Some c => c | None => -1 end; s_off sd;
           b2z (s_finp sd)]
      end)
  ++ [b2z (zmem id (p_msd s))].

Definition pad5 (r : list Z) : list Z := firstn 5 (r ++ [0; 0; 0; 0; 0]).
Definition res_out (r : res bool) : list Z :=
  match r with Err c => [1; c] | Ok t => [0; b2z t] end.
Definition see (id : Z) (s : st) : st := set_seen (zadd id (seen s)) s.
Definition note_tx (r : res bool) (s : st) : st :=
  match r with Ok true => set_p_max_data true s | _ => s end.

(** Initial state from the configuration op. *)
Definition init (sd mru mrb rw srw pmb pmu : Z) : st :=
  let s0 := mkSt sd [] [] 0 (0, 0) (pmb, pmu) (mrb, mru) (mrb, mru) (mrb, mru) (mrb, mru)
                 (0, 0) (false, false) (0, 0) 0 [] [] rw rw rw 0 srw 0
                 false (false, false) [] [] [] [] [] false 0 0 0 [] [] in
  insert_remote_range (Z.to_nat mru) 1 0 (insert_remote_range (Z.to_nat mrb) 0 0 s0).

(** One op of the receive-side component: (state, result, names a stream?, trailing list). *)
Definition step_core (fx : bool) (s : st) (op : list Z) : option (st * list Z * option Z * list Z) :=
  match op with
  | [] => None
  | c :: a =>
      if c =? 1 then
        match a with
        | [id; off; len; fin] =>
            let '(s', r) := received fx id off len (negb (fin =? 0)) (see id s) in
            Some (note_tx r s', res_out r, Some id, [])
        | _ => None
        end
      else if c =? 2 then
        match a with
        | [id; code; final] =>
            let '(s', r) := received_reset fx id code final (see id s) in
            Some (note_tx r s', res_out r, Some id, [])
        | _ => None
        end
      else if c =? 3 then
        match a with
        | [id; ordered; budget] =>
            let '(s', o) := read_op fx id (negb (ordered =? 0)) budget (see id s) in
            Some (s', o, Some id, [])
        | _ => None
        end
      else if c =? 4 then
        match a with
        | [id; code] => let '(s', o) := stop_op fx id code (see id s) in Some (s', o, Some id, [])
        | _ => None
        end
      else if c =? 5 then
        match a with
        | [id] => let '(s', o) := rreset_op id (see id s) in Some (s', o, Some id, [])
        | _ => None
        end
      else if c =? 6 then
        match a with
        | [w] => let '(s', o) := set_window_op w s in Some (s', o, None, [])
        | _ => None
        end
      else if c =? 7 then
        match a with
        | [x; y; z] =>
            let '(s', o, l) := control_op (negb (x =? 0)) (negb (y =? 0)) (negb (z =? 0)) s in
            Some (s', o, None, l)
        | _ => None
        end
      else if c =? 8 then
        match a with
        | [d] =>
            let '(s', o) := open_op (if d =? 0 then 0 else 1) s in
            Some (match o with [0; id] => see id s' | _ => s' end, o, None, [])
        | _ => None
        end
      else if c =? 9 then
        match a with
        | [d] =>
            let '(s', o) := accept_op (if d =? 0 then 0 else 1) s in
            Some (match o with [0; id] => see id s' | _ => s' end, o, None, [])
        | _ => None
        end
      else if c =? 12 then
        match a with
        | [id; code] => let '(s', o) := sreset_op id code s in Some (s', o, Some id, [])
        | _ => None
        end
      else if c =? 17 then
        match a with
        | [id] => let '(s', o) := reset_acked_op id s in Some (s', o, Some id, [])
        | _ => None
        end
      else None
  end.

Definition observe (s : st) (o : list Z) (id : option Z) (l : list Z) : list Z :=
  pad5 o ++ gprobe s ++ (match id with Some i => sprobe i s | None => [] end) ++ l.

Definition step (fx : bool) (s : st) (op : list Z) : st * list Z :=
  match step_core fx s op with
  | Some (s', o, id, l) => (s', observe s' o id l)
  | None => (s, [-1])
  end.

Fixpoint run_from (stepf : st -> list Z -> st * list Z) (s : st) (i : ops) : st * outs :=
  match i with
  | [] => (s, [])
  | op :: r =>
      let '(s1, o) := stepf s op in
      let '(s2, os) := run_from stepf s1 r in
      (s2, o :: os)
  end.

Definition run_with (stepf : st -> list Z -> st * list Z) (i : ops) : outs :=
  match i with
  | [0; sd; mru; mrb; rw; srw; pmb; pmu] :: r =>
      let s0 := init sd mru mrb rw srw pmb pmu in
      let '(s, os) := run_from stepf s0 r in
      if panic s then [PANIC] else (pad5 [0] ++ gprobe s0) :: os
  | _ => map (fun _ => [-1]) i
  end.

Definition run (i : ops) : outs := run_with (step true) i.
(** The code before the repairs (used by the [_refuted] witnesses). *)
Definition run_unfixed (i : ops) : outs := run_with (step false) i.

(** * Oracle: an independent ledger over the implementation's outputs

    It does not use the model above.  From the ops fed and the observations returned it keeps,
    per stream, the last stream probe, the bytes returned by reads, the largest end seen, the
    largest MAX_STREAM_DATA emitted; and globally the configured windows and the last MAX_DATA /
    MAX_STREAMS emitted.  After every op it checks the property's observable conclusions:
    - nothing is accepted beyond an advertised limit ([end <= advertised MAX_STREAM_DATA],
      [data_recvd <= local_max_data], stream index below the limit), a frame that must be
      rejected is rejected with the right code and leaves every probe unchanged;
    - accounting: [data_recvd] = sum of the largest ends seen; [bytes_read] = bytes returned;
    - unread data [<= receive_window + shrink debt]; per stream [<= stream_receive_window];
    - credit: [local_max_data <= W0 + expansions + consumed], every MAX_STREAM_DATA value
      [<= bytes returned by reads + window], MAX_STREAMS [<= initial + streams seen fully closed],
      advertised values never decrease;
    - stream credit: [max_remote] = initial + number of remotely initiated streams seen with both
      halves gone (exactly one credit per terminated stream, none before). *)
Definition NG : nat := 22.
Definition NS : nat := 14.
Definition zn (k : nat) (l : list Z) : Z := nth k l 0.

Record ledger := mkLg {
  lg_side : Z; lg_srw : Z; lg_w0 : Z; lg_mr0 : Z * Z;
  lg_G : list Z;
  lg_S : list (Z * list Z);
  lg_rd : list (Z * Z);
  lg_es : list (Z * Z);
  lg_adv : list (Z * Z);
  lg_md : Z; lg_ms : Z * Z;
  lg_w : Z; lg_exp : Z }.

Definition zget (k : Z) (m : list (Z * Z)) (d : Z) : Z :=
  match alookup k m with Some v => v | None => d end.

(** Stream probe of a stream never named so far. *)
Definition fresh_S (lg : ledger) (id : Z) : list Z :=
  let remote := negb (sid_init id =? lg_side lg) in
  let d := sid_dir id in
  let live_r := if remote then sid_index id <? pget d (zn 5 (lg_G lg), zn 6 (lg_G lg))
                else (d =? 0) && (sid_index id <? zn 15 (lg_G lg)) in
  let live_s := if remote then (d =? 0) && (sid_index id <? zn 5 (lg_G lg))
                else sid_index id <? pget d (zn 15 (lg_G lg), zn 16 (lg_G lg)) in
  [if live_r then 1 else 0; 0; -1; -1; 0; 0; 0; 0; if live_s then 1 else 0; 0; -1; 0; 0; 0].
Definition last_S (lg : ledger) (id : Z) : list Z :=
  match alookup id (lg_S lg) with Some s => s | None => fresh_S lg id end.

(** Receive half normalised: None/Free slots are an open fresh [Recv]. *)
Definition norm_recv (srw : Z) (s : list Z) : list Z :=
  let slot := zn 0 s in
  (* sent_max_stream_data (index 4) is compared with the ledger's advertised value instead *)
  if (slot =? 1) || (slot =? 2) then [3; 0; -1; -1; 0; 0; 0]
  else firstn 4 s ++ firstn 3 (skipn 5 s).

Definition s_live (s : list Z) : bool := negb (zn 0 s =? 0).
Definition s_receiving (s : list Z) : bool := s_live s && negb (zn 1 s =? 2).
Definition s_final (s : list Z) : option Z :=
  if (zn 0 s =? 3) && negb (zn 1 s =? 0) then Some (zn 2 s) else None.
Definition s_end (s : list Z) : Z := if zn 0 s =? 3 then zn 5 s else 0.
Definition s_read (s : list Z) : Z := if zn 0 s =? 3 then zn 6 s else 0.
Definition s_stopped (s : list Z) : bool := (zn 0 s =? 3) && (zn 7 s =? 1).
(** Bytes of the stream for which credit may have been issued. *)
Definition s_consumed (es : Z) (s : list Z) : Z :=
  if (zn 0 s =? 3) && negb (zn 7 s =? 1) && negb (zn 1 s =? 2) then zn 6 s
  else if (zn 0 s =? 1) || (zn 0 s =? 2) then 0 else es.

Fixpoint sum_consumed (lg : ledger) (ss : list (Z * list Z)) : Z :=
  match ss with
  | [] => 0
  | (id, s) :: r => s_consumed (zget id (lg_es lg) 0) s + sum_consumed lg r
  end.
Fixpoint sum_snd (m : list (Z * Z)) : Z :=
  match m with [] => 0 | (_, v) :: r => v + sum_snd r end.
(** Remotely initiated streams of direction [d] whose last probe shows both halves absent. *)
Fixpoint closed_count (lg : ledger) (d : Z) (ss : list (Z * list Z)) : Z :=
  match ss with
  | [] => 0
  | (id, s) :: r =>
      (if negb (sid_init id =? lg_side lg) && (sid_dir id =? d) && (zn 0 s =? 0) && (zn 8 s =? 0)
          && (sid_index id <? pget d (zn 5 (lg_G lg), zn 6 (lg_G lg)))
       then 1 else 0) + closed_count lg d r
  end.

Definition split_out (named : bool) (o : list Z) : list Z * list Z * list Z * list Z :=
  let r := firstn 5 o in
  let g := firstn NG (skipn 5 o) in
  let rest := skipn (5 + NG) o in
  if named then (r, g, firstn NS rest, skipn NS rest) else (r, g, [], rest).

(** Checks that hold after every op. *)
Definition check_global (lg : ledger) : bool :=
  let g := lg_G lg in
  let consumed := sum_consumed lg (lg_S lg) in
  (zn 0 g <=? zn 1 g)
  && ((U64MAX <=? zn 1 g) || (zn 1 g <=? lg_w0 lg + lg_exp lg + consumed))
  && (zn 0 g - consumed <=? zn 2 g + zn 3 g)
  && (zn 0 g =? sum_snd (lg_es lg))
  && (zn 2 g =? lg_w lg)
  && (zn 4 g =? lg_md lg) && (zn 7 g =? fst (lg_ms lg)) && (zn 8 g =? snd (lg_ms lg))
  && (zn 5 g =? fst (lg_mr0 lg) + closed_count lg 0 (lg_S lg))
  && (zn 6 g =? snd (lg_mr0 lg) + closed_count lg 1 (lg_S lg)).

Definition check_stream (lg : ledger) (id : Z) (s : list Z) : bool :=
  if zn 0 s =? 3 then
    (zn 6 s =? zget id (lg_rd lg) 0)
    && (zn 6 s <=? zn 5 s)
    && (zn 5 s <=? zget id (lg_adv lg) (lg_srw lg))
    && (zn 4 s =? zget id (lg_adv lg) (lg_srw lg))
    && (match s_final s with Some f => zn 5 s <=? f | None => true end)
    && (s_stopped s || (zn 1 s =? 2) || (zn 5 s - zn 6 s <=? lg_srw lg))
  else true.

(** Record the probes of an op. *)
Definition note (lg : ledger) (g : list Z) (id : option Z) (s : list Z) (es_add : Z) : ledger :=
  let lg1 := mkLg (lg_side lg) (lg_srw lg) (lg_w0 lg) (lg_mr0 lg) g (lg_S lg) (lg_rd lg)
                  (lg_es lg) (lg_adv lg) (lg_md lg) (lg_ms lg) (lg_w lg) (lg_exp lg) in
  match id with
  | None => lg1
  | Some i =>
      (* ids that do not exist yet (beyond the stream limit / not opened) are not recorded *)
      let exists_ := if sid_init i =? lg_side lg
                     then sid_index i <? pget (sid_dir i) (zn 15 g, zn 16 g)
                     else sid_index i <? pget (sid_dir i) (zn 5 g, zn 6 g) in
      if negb exists_ then lg1 else
      let es0 := zget i (lg_es lg) 0 in
      let es1 := Z.max es0 (Z.max es_add
                   (Z.max (s_end s) (match s_final s with Some f => if zn 1 s =? 2 then f else 0
                                                  | None => 0 end))) in
      mkLg (lg_side lg) (lg_srw lg) (lg_w0 lg) (lg_mr0 lg) g (aset i s (lg_S lg)) (lg_rd lg)
           (aset i es1 (lg_es lg)) (lg_adv lg) (lg_md lg) (lg_ms lg) (lg_w lg) (lg_exp lg)
  end.

Definition set_rd (lg : ledger) (id v : Z) : ledger :=
  mkLg (lg_side lg) (lg_srw lg) (lg_w0 lg) (lg_mr0 lg) (lg_G lg) (lg_S lg) (aset id v (lg_rd lg))
       (lg_es lg) (lg_adv lg) (lg_md lg) (lg_ms lg) (lg_w lg) (lg_exp lg).
Definition set_win (lg : ledger) (w e : Z) : ledger :=
  mkLg (lg_side lg) (lg_srw lg) (lg_w0 lg) (lg_mr0 lg) (lg_G lg) (lg_S lg) (lg_rd lg)
       (lg_es lg) (lg_adv lg) (lg_md lg) (lg_ms lg) w e.

(** What a frame for stream [id] with end / final [e] must produce, from the ledger before it.
    [Some c]: it must be rejected with code [c] ([0] = either FLOW_CONTROL or FINAL_SIZE);
    [None]: no rejection required. *)
Definition must_reject (lg : ledger) (id e : Z) (is_reset fin : bool) : option Z :=
  let g := lg_G lg in
  let s := last_S lg id in
  if sid_init id =? lg_side lg then
    if (sid_dir id =? 1) || (zn 15 g <=? sid_index id) then Some STREAM_STATE_ERROR
    else if negb (s_live s) then None
    else None
  else if pget (sid_dir id) (zn 5 g, zn 6 g) <=? sid_index id then Some STREAM_LIMIT_ERROR
  else None.

Definition must_reject_live (lg : ledger) (id e : Z) (is_reset fin : bool) : option Z :=
  let g := lg_G lg in
  let s := last_S lg id in
  if negb (s_live s) then None
  else if negb is_reset && negb (s_receiving s) then None
  else
    let adv := zget id (lg_adv lg) (lg_srw lg) in
    let new_bytes := Z.max 0 (e - s_end s) in
    if negb is_reset && (2 ^ 62 <=? e) then Some FLOW_CONTROL_ERROR
    else match s_final s with
         | Some f =>
             if is_reset then (if negb (e =? f) then Some FINAL_SIZE_ERROR else None)
             else if (f <? e) || (fin && negb (e =? f)) then Some FINAL_SIZE_ERROR
             else None
         | None =>
             if (is_reset || fin) && (e <? s_end s) then Some FINAL_SIZE_ERROR
             else if (adv <? e) || (zn 1 g <? zn 0 g + new_bytes) then Some FLOW_CONTROL_ERROR
             else None
         end.

Definition frame_check (lg : ledger) (id e : Z) (is_reset fin : bool) (r g s : list Z) : bool :=
  let want := match must_reject lg id e is_reset fin with
              | Some c => Some c
              | None => must_reject_live lg id e is_reset fin
              end in
  let rejected := zn 0 r =? 1 in
  (match want with
   | Some c => rejected && (zn 1 r =? c)
   | None => true
   end)
  && (if rejected then
        (* a rejected frame changes nothing observable *)
        lz_eqb g (lg_G lg)
        && lz_eqb (norm_recv (lg_srw lg) s) (norm_recv (lg_srw lg) (last_S lg id))
        && lz_eqb (firstn 5 (skipn 8 s)) (firstn 5 (skipn 8 (last_S lg id)))
      else true).

Fixpoint triples (l : list Z) : list (Z * Z * Z) :=
  match l with a :: b :: c :: r => (a, b, c) :: triples r | _ => [] end.

(** Control frames emitted: bounds and monotonicity; returns the updated ledger. *)
Fixpoint ctrl_check (lg : ledger) (fs : list (Z * Z * Z)) : ledger * bool :=
  match fs with
  | [] => (lg, true)
  | (k, a, v) :: r =>
      if k =? 1 then
        let v := a in
        let consumed := sum_consumed lg (lg_S lg) in
        let okf := (lg_md lg <=? v)
                   && ((VARINT_MAX <=? v) || (v <=? lg_w0 lg + lg_exp lg + consumed)) in
        let lg' := mkLg (lg_side lg) (lg_srw lg) (lg_w0 lg) (lg_mr0 lg) (lg_G lg) (lg_S lg)
                        (lg_rd lg) (lg_es lg) (lg_adv lg) (Z.max v (lg_md lg)) (lg_ms lg)
                        (lg_w lg) (lg_exp lg) in
        let '(lg'', okr) := ctrl_check lg' r in (lg'', okf && okr)
      else if k =? 2 then
        let okf := (v <=? zget a (lg_rd lg) 0 + lg_srw lg) in
        let lg' := mkLg (lg_side lg) (lg_srw lg) (lg_w0 lg) (lg_mr0 lg) (lg_G lg) (lg_S lg)
                        (lg_rd lg) (lg_es lg)
                        (aset a (Z.max v (zget a (lg_adv lg) (lg_srw lg))) (lg_adv lg))
                        (lg_md lg) (lg_ms lg) (lg_w lg) (lg_exp lg) in
        let '(lg'', okr) := ctrl_check lg' r in (lg'', okf && okr)
      else if k =? 3 then
        let okf := (pget a (lg_ms lg) <=? v)
                   && (v <=? pget a (lg_mr0 lg) + closed_count lg a (lg_S lg)) in
        let lg' := mkLg (lg_side lg) (lg_srw lg) (lg_w0 lg) (lg_mr0 lg) (lg_G lg) (lg_S lg)
                        (lg_rd lg) (lg_es lg) (lg_adv lg) (lg_md lg) (pset a v (lg_ms lg))
                        (lg_w lg) (lg_exp lg) in
        let '(lg'', okr) := ctrl_check lg' r in (lg'', okf && okr)
      else ctrl_check lg r
  end.

Definition oracle_step (lg : ledger) (op o : list Z) : ledger * bool :=
  match op with
  | [1; id; off; len; fin] =>
      let '(r, g, s, _) := split_out true o in
      let okf := frame_check lg id (off + len) false (negb (fin =? 0)) r g s in
      let pre := last_S lg id in
      let counted := if (zn 0 r =? 0) && s_receiving pre && negb (2 ^ 62 <=? off + len)
                     then off + len else 0 in
      let lg' := note lg g (Some id) s counted in
      (lg', okf && check_global lg' && check_stream lg' id s)
  | [2; id; code; final] =>
      let '(r, g, s, _) := split_out true o in
      let okf := frame_check lg id final true false r g s in
      let pre := last_S lg id in
      let counted := if (zn 0 r =? 0) && s_live pre then final else 0 in
      let lg' := note lg g (Some id) s counted in
      (lg', okf && check_global lg' && check_stream lg' id s)
  | [3; id; ordered; budget] =>
      let '(r, g, s, _) := split_out true o in
      let got := if zn 0 r =? 0 then zn 1 r else 0 in
      let lg1 := set_rd lg id (zget id (lg_rd lg) 0 + got) in
      let lg' := note lg1 g (Some id) s 0 in
      (lg', (0 <=? got) && (got <=? Z.max 0 budget)
            && check_global lg' && check_stream lg' id s)
  | [6; w] =>
      let '(_, g, _, _) := split_out false o in
      let lg1 := set_win lg w (lg_exp lg + Z.max 0 (w - lg_w lg)) in
      let lg' := note lg1 g None [] 0 in
      (lg', check_global lg')
  | [7; _; _; _] =>
      let '(_, g, _, l) := split_out false o in
      let '(lg1, okc) := ctrl_check lg (triples l) in
      let lg' := note lg1 g None [] 0 in
      (lg', okc && check_global lg')
  | [8; _] | [9; _] | [15] | [16; _] | [18] | [19; _] =>
      let '(_, g, _, _) := split_out false o in
      let lg' := note lg g None [] 0 in
      (lg', check_global lg')
  | _ :: id :: _ =>
      let '(_, g, s, _) := split_out true o in
      let lg' := note lg g (Some id) s 0 in
      (lg', check_global lg' && check_stream lg' id s)
  | _ => (lg, true)
  end.

Fixpoint oracle_from (lg : ledger) (i : ops) (o : outs) : bool :=
  match i, o with
  | [], [] => true
  | op :: i', out :: o' =>
      let '(lg', okk) := oracle_step lg op out in
      okk && oracle_from lg' i' o'
  | _, _ => false
  end.

Definition oracle (i : ops) (o : outs) : bool :=
  match o with
  | [[-999]] => true
  | _ =>
      match i, o with
      | [0; sd; mru; mrb; rw; srw; pmb; pmu] :: i', o0 :: o' =>
          let g0 := firstn NG (skipn 5 o0) in
          let lg := mkLg sd srw rw (mrb, mru) g0 [] [] [] [] rw (mrb, mru) rw 0 in
          check_global lg && oracle_from lg i' o'
      | _, _ => true
      end
  end.

(** Diagnostics: per-op verdicts of the oracle (not used by the check). *)
Fixpoint oracle_trace_from (lg : ledger) (i : ops) (o : outs) : list bool :=
  match i, o with
  | op :: i', out :: o' =>
      let '(lg', okk) := oracle_step lg op out in
      okk :: oracle_trace_from lg' i' o'
  | _, _ => []
  end.
Definition oracle_trace (i : ops) (o : outs) : list bool :=
  match i, o with
  | [0; sd; mru; mrb; rw; srw; pmb; pmu] :: i', o0 :: o' =>
      let g0 := firstn NG (skipn 5 o0) in
      let lg := mkLg sd srw rw (mrb, mru) g0 [] [] [] [] rw (mrb, mru) rw 0 in
      check_global lg :: oracle_trace_from lg i' o'
  | _, _ => []
  end.

Definition check_global_parts (lg : ledger) : list bool :=
  let g := lg_G lg in
  let consumed := sum_consumed lg (lg_S lg) in
  [(zn 0 g <=? zn 1 g);
   ((U64MAX <=? zn 1 g) || (zn 1 g <=? lg_w0 lg + lg_exp lg + consumed));
   (zn 0 g - consumed <=? zn 2 g + zn 3 g);
   (zn 0 g =? sum_snd (lg_es lg));
   (zn 2 g =? lg_w lg);
   (zn 4 g =? lg_md lg); (zn 7 g =? fst (lg_ms lg)); (zn 8 g =? snd (lg_ms lg));
   (zn 5 g =? fst (lg_mr0 lg) + closed_count lg 0 (lg_S lg));
   (zn 6 g =? snd (lg_mr0 lg) + closed_count lg 1 (lg_S lg))].
Fixpoint ledger_after (lg : ledger) (i : ops) (o : outs) : ledger :=
  match i, o with
  | op :: i', out :: o' => ledger_after (fst (oracle_step lg op out)) i' o'
  | _, _ => lg
  end.
Definition parts_after (i : ops) (o : outs) : list bool :=
  match i, o with
  | [0; sd; mru; mrb; rw; srw; pmb; pmu] :: i', o0 :: o' =>
      let g0 := firstn NG (skipn 5 o0) in
      let lg := mkLg sd srw rw (mrb, mru) g0 [] [] [] [] rw (mrb, mru) rw 0 in
      check_global_parts (ledger_after lg i' o')
  | _, _ => []
  end.
