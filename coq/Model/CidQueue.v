(** Model of [CidQueue] (quinn-proto/src/cid_queue.rs) — definitions only.

    A ring buffer of [L] slots ([L] = [CidQueue::LEN], generated constant [CID_QUEUE_LEN]), the
    index [cursor] of the active CID and its sequence number [offset].  A slot holds the CID
    (an integer id, see the hook) and its reset token ([None] for the handshake CID).

    Panics of the Rust code are explicit [None] results of [step]:
      - [expect("it is impossible to retire a CID without supplying a new one")] in [insert]
      - [token.expect("non-initial CID missing reset token")] in [insert]
      - [cid_data.1.unwrap()] in [next]
      - [debug_assert_eq!(self.offset, 0)] in [update_initial_cid] (debug builds = the harness)
      - [self.buffer[self.cursor].unwrap()] in [active]
    Slice indexing is always [x mod L] on a buffer of length [L].

    Op encoding (hook quinn-proto/src/verif_hooks/cid_queue.rs):
      [0; id] new | [1; seq; rpt; id] insert | [2] next | [3; id] update_initial_cid
    observation [active_seq; active_id; code; ...], see the hook. *)
From Coq Require Import ZArith List Bool.
From QV Require Import Lib.Corr gen.Constants.
Import ListNotations.
Open Scope Z_scope.

Definition data := (Z * option Z)%type.          (* (cid id, reset token id) *)
Record t := mk { buf : list (option data); cursor : Z; offset : Z }.

Inductive op :=
| New (id : Z)
| Insert (seq rpt id : Z)
| Next
| Update (id : Z).

Definition get (b : list (option data)) (i : Z) : option data := nth (Z.to_nat i) b None.

Fixpoint upd (b : list (option data)) (i : nat) (v : option data) : list (option data) :=
  match b, i with
  | [], _ => []
  | _ :: r, O => v :: r
  | x :: r, S j => x :: upd r j v
  end.
Definition set (b : list (option data)) (i : Z) (v : option data) := upd b (Z.to_nat i) v.

Definition new (L : Z) (id : Z) : t :=
  mk (Some (id, None) :: repeat None (Z.to_nat L - 1)) 0 0.

(** [for i in 0..n { buffer[(cursor + i) % LEN] = None }] *)
Fixpoint clear (L : Z) (b : list (option data)) (cur : Z) (n : nat) : list (option data) :=
  match n with
  | O => b
  | S k => set (clear L b cur k) ((cur + Z.of_nat k) mod L) None
  end.

(** [iter()]: occupied slots as (step, data), steps [k, k+n) from [cur]. *)
Fixpoint scan (L : Z) (b : list (option data)) (cur k : Z) (n : nat) : list (Z * data) :=
  match n with
  | O => []
  | S n' =>
      match get b ((cur + k) mod L) with
      | Some d => (k, d) :: scan L b cur (k + 1) n'
      | None => scan L b cur (k + 1) n'
      end
  end.
Definition iter (L : Z) (b : list (option data)) (cur : Z) : list (Z * data) :=
  scan L b cur 0 (Z.to_nat L).

Inductive insert_result :=
| InsOk                                   (* Ok(None) *)
| InsRetired (lo hi tok : Z)              (* Ok(Some((lo..hi, tok))) *)
| ErrRetired
| ErrExceedsLimit.

(** [None] = panic *)
Definition insert (L : Z) (s : t) (seq rpt id : Z) : option (t * insert_result) :=
  if seq <? offset s then Some (s, ErrRetired)
  else
    let index := seq - offset s in
    let rc := Z.max 0 (rpt - offset s) in
    if L + rc <=? index then Some (s, ErrExceedsLimit)
    else
      let b1 := clear L (buf s) (cursor s) (Z.to_nat (Z.min rc L)) in
      let b2 := set b1 ((cursor s + index) mod L) (Some (id, Some id)) in
      if rc =? 0 then Some (mk b2 (cursor s) (offset s), InsOk)
      else
        let cur1 := (cursor s + rc) mod L in
        match iter L b2 cur1 with
        | [] => None
        | (i, (_, tok)) :: _ =>
            match tok with
            | None => None
            | Some tk =>
                let off' := rpt + i in
                Some (mk b2 ((cur1 + i) mod L) off',
                      InsRetired (offset s) (Z.min off' (offset s + L)) tk)
            end
        end.

Definition next (L : Z) (s : t) : option (t * option (Z * Z * Z)) :=
  match iter L (buf s) (cursor s) with
  | _ :: (i, (_, tok)) :: _ =>
      match tok with
      | None => None
      | Some tk =>
          Some (mk (set (buf s) (cursor s) None) ((cursor s + i) mod L) (offset s + i),
                Some (tk, offset s, offset s + i))
      end
  | _ => Some (s, None)
  end.

Definition update_initial_cid (s : t) (id : Z) : option t :=
  if offset s =? 0 then Some (mk (set (buf s) (cursor s) (Some (id, None))) (cursor s) (offset s))
  else None.

(** [active()] panics on an empty cursor slot. *)
Definition active (s : t) : option Z :=
  match get (buf s) (cursor s) with
  | Some (id, _) => Some id
  | None => None
  end.
Definition active_seq (s : t) : Z := offset s.

(** One op: new state and the op-specific tail of the observation; [None] = panic. *)
Definition step (L : Z) (s : t) (o : op) : option (t * list Z) :=
  match o with
  | New id => Some (new L id, [0])
  | Insert seq rpt id =>
      match insert L s seq rpt id with
      | None => None
      | Some (s', InsOk) => Some (s', [0])
      | Some (s', InsRetired lo hi tk) => Some (s', [1; lo; hi; tk])
      | Some (s', ErrRetired) => Some (s', [2])
      | Some (s', ErrExceedsLimit) => Some (s', [3])
      end
  | Next =>
      match next L s with
      | None => None
      | Some (s', None) => Some (s', [0])
      | Some (s', Some (tk, lo, hi)) => Some (s', [1; tk; lo; hi])
      end
  | Update id =>
      match update_initial_cid s id with
      | None => None
      | Some s' => Some (s', [0])
      end
  end.

(** Full observation of one op (the hook reads [active_seq] and [active] after every op). *)
Definition observe (L : Z) (s : t) (o : op) : option (t * list Z) :=
  match step L s o with
  | None => None
  | Some (s', tail) =>
      match active s' with
      | None => None
      | Some a => Some (s', active_seq s' :: a :: tail)
      end
  end.

(** final state and the observations; [None] = some op panicked *)
Fixpoint run_ops (L : Z) (s : t) (os : list op) : option (t * list (list Z)) :=
  match os with
  | [] => Some (s, [])
  | o :: r =>
      match observe L s o with
      | None => None
      | Some (s', out) =>
          match run_ops L s' r with
          | None => None
          | Some (s'', outs) => Some (s'', out :: outs)
          end
      end
  end.

Definition decode_op (l : list Z) : option op :=
  match l with
  | [0; id] => Some (New id)
  | [1; seq; rpt; id] => Some (Insert seq rpt id)
  | [2] => Some Next
  | [3; id] => Some (Update id)
  | _ => None
  end.

Fixpoint decode_ops (i : ops) : option (list op) :=
  match i with
  | [] => Some []
  | l :: r =>
      match decode_op l, decode_ops r with
      | Some o, Some os => Some (o :: os)
      | _, _ => None
      end
  end.

Definition run_with (L : Z) (i : ops) : outs :=
  match decode_ops i with
  | None => [[-1]]
  | Some os =>
      match run_ops L (new L 0) os with
      | None => [PANIC]
      | Some (_, o) => o
      end
  end.

Definition run (i : ops) : outs := run_with CID_QUEUE_LEN i.

(** * Oracle on the implementation's outputs (the property, recomputed from the ops):
    no panic; after every op the reported active sequence number is 0 or the sequence number of
    an earlier insert that the implementation accepted, and is not below the [retire_prior_to] of
    any accepted insert; every returned retired range is non-empty, has at most [L] elements and
    ends at or below the new active sequence number, and the reset token reported with it is
    the token of the CID that is active afterwards (C04).  Ops of a case that call
    [update_initial_cid] after an insert/next are outside the caller's contract (debug
    assertion) and are exempt from the no-panic clause. *)
Fixpoint oracle_go (L : Z) (i : ops) (o : outs) (acc : list (Z * Z)) : bool :=
  match i, o with
  | [], [] => true
  | op :: i', out :: o' =>
      match out with
      | aseq :: aid :: code :: tl =>
          let acc' :=
            match op with
            | [0; _] => []
            | [1; seq; rpt; _] =>
                if (code =? 0) || (code =? 1) then (seq, rpt) :: acc else acc
            | _ => acc
            end in
          let ok_active :=
            ((aseq =? 0) || existsb (fun p => fst p =? aseq) acc')
            && forallb (fun p => snd p <=? aseq) acc' in
          let ok_range :=
            match op, code :: tl with
            | 1 :: _, [1; lo; hi; tk] => (lo <? hi) && (hi - lo <=? L) && (hi <=? aseq) && (tk =? aid)
            | [2], [1; tk; lo; hi] => (lo <? hi) && (hi =? aseq) && (tk =? aid)
            | _, _ => true
            end in
          ok_active && ok_range && oracle_go L i' o' acc'
      | _ => false
      end
  | _, _ => false
  end.

Fixpoint in_contract (i : ops) (started : bool) : bool :=
  match i with
  | [] => true
  | (0 :: _) :: r => in_contract r false
  | (3 :: _) :: r => negb started && in_contract r started
  | _ :: r => in_contract r true
  end.

Definition oracle (i : ops) (o : outs) : bool :=
  if llz_eqb o [PANIC] then negb (in_contract i false)
  else oracle_go CID_QUEUE_LEN i o [].
