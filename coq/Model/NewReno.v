(** Model of [NewReno] (quinn-proto/src/congestion/new_reno.rs) — definitions only.
    Exact: integer arithmetic is checked u64 ([None] = debug-build panic); the one float
    expression [(window as f32 * loss_reduction_factor) as u64] is an ORACLE value [o] supplied
    with each step. The theorems (Proofs/ControllersProofs.v) hold for every oracle value; [run]
    instantiates it with the exact IEEE result for the default factor 0.5 ([f32_half]). *)
From Coq Require Import ZArith List Bool.
From QV Require Import Lib.Corr Lib.Chk.
Import ListNotations.
Open Scope Z_scope.

Record st := mk {
  mtu : Z; window : Z; ssthresh : Z; rec_start : Z; bytes_acked : Z; iw : Z
}.

Definition min_window (m : Z) : Z := 2 * m.

Definition build (initial_window m : Z) : st :=
  mk m initial_window U64MAX 0 0 initial_window.

(** [w as f32]: round to nearest, ties to even, 24-bit significand. *)
Definition round_f32 (w : Z) : Z :=
  if w <? 2 ^ 24 then w
  else
    let e := Z.log2 w - 23 in
    let p := 2 ^ e in
    let q := w / p in
    let r := w mod p in
    let half := p / 2 in
    if (half <? r) || ((r =? half) && Z.odd q) then (q + 1) * p else q * p.

(** [(w as f32 * 0.5) as u64]. *)
Definition f32_half (w : Z) : Z := round_f32 w / 2.

Definition arg (a : list Z) (k : nat) : Z := nth k a 0.

Definition on_ack (s : st) (sent bytes app_limited : Z) : option st :=
  if nz app_limited || (sent <=? rec_start s) then Some s
  else if window s <? ssthresh s then
    do w <- cadd (window s) bytes;
    if ssthresh s <=? w
    then Some (mk (mtu s) w (ssthresh s) (rec_start s) (w - ssthresh s) (iw s))
    else Some (mk (mtu s) w (ssthresh s) (rec_start s) (bytes_acked s) (iw s))
  else
    do ba <- cadd (bytes_acked s) bytes;
    if window s <=? ba then
      do w <- cadd (window s) (mtu s);
      Some (mk (mtu s) w (ssthresh s) (rec_start s) (ba - window s) (iw s))
    else Some (mk (mtu s) (window s) (ssthresh s) (rec_start s) ba (iw s)).

(** [o] is the float product [(window as f32 * loss_reduction_factor) as u64]. *)
Definition on_congestion_event (s : st) (now sent persistent o : Z) : st :=
  if sent <=? rec_start s then s
  else
    let w := Z.max o (min_window (mtu s)) in
    let w' := if nz persistent then min_window (mtu s) else w in
    mk (mtu s) w' w now (bytes_acked s) (iw s).

Definition on_mtu_update (s : st) (new_mtu : Z) : st :=
  mk new_mtu (Z.max (window s) (min_window new_mtu)) (ssthresh s) (rec_start s)
     (bytes_acked s) (iw s).

(** One call [op = opcode :: args] with oracle value [o]; on_sent, on_end_acks and
    on_spurious_congestion_event are the trait's default no-ops. *)
Definition step (s : st) (op : list Z) (o : Z) : option st :=
  match op with
  | [] => Some s
  | c :: a =>
      if c =? 2 then on_ack s (arg a 1) (arg a 2) (arg a 3)
      else if c =? 4 then Some (on_congestion_event s (arg a 0) (arg a 1) (arg a 2) o)
      else if c =? 6 then Some (on_mtu_update s (arg a 0))
      else Some s
  end.

(** All reachable states: a history is a list of (op, oracle value). *)
Fixpoint steps (s : st) (l : list (list Z * Z)) : option st :=
  match l with
  | [] => Some s
  | (op, o) :: l' => match step s op o with Some s' => steps s' l' | None => None end
  end.

Definition obs (s : st) : list Z := [window s; ssthresh s; iw s].

Definition known_op (op : list Z) : bool :=
  match op with
  | [1; _; _; _] | [2; _; _; _; _; _] | [3; _; _; _; _; _] | [4; _; _; _; _; _] | [5] | [6; _] => true
  | _ => false
  end.

(** Interpreter over a whole case. [None] state = not built yet. *)
Fixpoint go (s : option st) (i : ops) : option outs :=
  match i with
  | [] => Some []
  | op :: i' =>
      match op with
      | [0; w; m] => let s' := build w m in do r <- go (Some s') i'; Some (obs s' :: r)
      | _ =>
          match s with
          | None => do r <- go s i'; Some ([-1] :: r)
          | Some s0 =>
              if known_op op then
                do s' <- step s0 op (f32_half (window s0));
                do r <- go (Some s') i'; Some (obs s' :: r)
              else do r <- go s i'; Some ([-1] :: r)
          end
      end
  end.

Definition run (i : ops) : outs :=
  match go None i with Some r => r | None => [PANIC] end.

(** Oracle on the implementation's outputs: after every call the reported window is at least two
    datagrams of the current MTU (tracked from the ops alone). *)
Fixpoint floor_ok (m : Z) (i : ops) (o : outs) : bool :=
  match i, o with
  | [], [] => true
  | op :: i', out :: o' =>
      let m' := match op with [0; _; m0] => m0 | [6; nm] => nm | _ => m end in
      if lz_eqb out [-1] then floor_ok m' i' o'
      else match out with
           | w :: _ => (2 * m' <=? w) && floor_ok m' i' o'
           | [] => false
           end
  | _, _ => false
  end.

(** The floor is promised only for an initial window of at least two datagrams. *)
Definition built_ok (i : ops) : bool :=
  match i with [0; w; m] :: _ => 2 * m <=? w | _ => true end.

Definition oracle (i : ops) (o : outs) : bool :=
  (* a panic is arithmetic overflow on absurd arguments: judged by model equality only *)
  if llz_eqb o [PANIC] then true
  else if built_ok i then floor_ok 0 i o else true.
