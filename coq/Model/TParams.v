(** Model of quinn-proto/src/transport_parameters.rs: [TransportParameters::write] / [read],
    [PreferredAddress::write] / [read], [decode_cid].  Definitions only.
    The reader is modelled as written, including the places where it does not use the declared
    length of a parameter (max_datagram_frame_size, min_ack_delay: the varint is read from the
    remaining input; preferred_address: bytes of the value beyond the fixed layout are left in
    the input). *)
From Coq Require Import ZArith List Bool.
From QV Require Import Lib.Bytes Lib.Corr Model.Varint.
Import ListNotations.
Open Scope Z_scope.

Definition MAX_CID : Z := 20.

(** The eleven integer parameters, in [TransportParameterId::SUPPORTED] order. *)
Definition int_ids : list Z := [1; 3; 4; 5; 6; 7; 8; 9; 10; 11; 14].
Definition int_defaults : list Z := [0; 65527; 0; 0; 0; 0; 0; 0; 3; 25; 2].
Definition NINT : nat := 11.
(* positions inside [ints] *)
Definition I_MAX_UDP : nat := 1.
Definition I_STREAMS_BIDI : nat := 6.
Definition I_STREAMS_UNI : nat := 7.
Definition I_ACK_DELAY_EXP : nat := 8.
Definition I_MAX_ACK_DELAY : nat := 9.
Definition I_ACTIVE_CID_LIMIT : nat := 10.

Definition ID_ODCID : Z := 0.
Definition ID_SRT : Z := 2.
Definition ID_DAM : Z := 12.
Definition ID_PA : Z := 13.
Definition ID_ISCID : Z := 15.
Definition ID_RSCID : Z := 16.
Definition ID_RESERVED : Z := 27.
Definition ID_MDFS : Z := 32.
Definition ID_GQB : Z := 10930.          (* 0x2AB2 *)
Definition ID_MAD : Z := 4278509083.     (* 0xFF04DE1B *)

Record paddr : Type := {
  pa_v4 : option (list Z * Z);   (* 4 address bytes, port *)
  pa_v6 : option (list Z * Z);   (* 16 address bytes, port *)
  pa_cid : list Z;
  pa_tok : list Z }.

Record tp : Type := {
  ints : list Z;
  dam : bool;                    (* disable_active_migration *)
  mdfs : option Z;               (* max_datagram_frame_size *)
  iscid : option (list Z);       (* initial_src_cid *)
  gqb : bool;                    (* grease_quic_bit *)
  mad : option Z;                (* min_ack_delay *)
  odcid : option (list Z);       (* original_dst_cid *)
  rscid : option (list Z);       (* retry_src_cid *)
  srt : option (list Z);         (* stateless_reset_token *)
  pa : option paddr }.

Definition tp_default : tp :=
  {| ints := int_defaults; dam := false; mdfs := None; iscid := None; gqb := false; mad := None;
     odcid := None; rscid := None; srt := None; pa := None |}.

Definition venc (x : Z) : list Z := match Varint.encode x with Some b => b | None => [] end.
Definition vsize (x : Z) : Z := match Varint.size x with Some s => s | None => 0 end.

(** * write *)
Definition zeros (n : nat) : list Z := repeat 0 n.

Definition pa_bytes (a : paddr) : list Z :=
  (match pa_v4 a with Some (ip, port) => ip ++ be_bytes 2 port | None => zeros 6 end)
  ++ (match pa_v6 a with Some (ip, port) => ip ++ be_bytes 2 port | None => zeros 18 end)
  ++ [zlen (pa_cid a)] ++ pa_cid a ++ pa_tok a.

Definition tlv (id : Z) (v : list Z) : list Z := venc id ++ venc (zlen v) ++ v.

Definition opt_tlv (id : Z) (v : option (list Z)) : list Z :=
  match v with Some b => tlv id b | None => [] end.

(** Item written for index [k] of [SUPPORTED]; [None] = index out of range (Rust panics). *)
Definition write_item (p : tp) (grease : option (Z * list Z)) (k : nat) : option (list Z) :=
  if Nat.ltb k NINT then
    let v := nth k (ints p) 0 in
    Some (if v =? nth k int_defaults 0 then [] else tlv (nth k int_ids 0) (venc v))
  else
    match k with
    | 11%nat => Some (match grease with Some (id, payload) => tlv id payload | None => [] end)
    | 12%nat => Some (opt_tlv ID_SRT (srt p))
    | 13%nat => Some (if dam p then tlv ID_DAM [] else [])
    | 14%nat => Some (match mdfs p with Some x => tlv ID_MDFS (venc x) | None => [] end)
    | 15%nat => Some (match pa p with Some a => tlv ID_PA (pa_bytes a) | None => [] end)
    | 16%nat => Some (opt_tlv ID_ODCID (odcid p))
    | 17%nat => Some (opt_tlv ID_ISCID (iscid p))
    | 18%nat => Some (opt_tlv ID_RSCID (rscid p))
    | 19%nat => Some (if gqb p then tlv ID_GQB [] else [])
    | 20%nat => Some (match mad p with Some x => tlv ID_MAD (venc x) | None => [] end)
    | _ => None
    end.

Fixpoint write (p : tp) (grease : option (Z * list Z)) (order : list nat) : option (list Z) :=
  match order with
  | [] => Some []
  | k :: tl =>
      match write_item p grease k, write p grease tl with
      | Some a, Some b => Some (a ++ b)
      | _, _ => None
      end
  end.

(** * read *)
Inductive perr : Type := Malformed | Illegal | OutOfFuel.

Inductive pres (A : Type) : Type :=
| POk (a : A) (rest : list Z)
| PErr (e : perr).
Arguments POk {A}.
Arguments PErr {A}.

Definition take (n : nat) (bs : list Z) : option (list Z * list Z) :=
  if Nat.ltb (length bs) n then None else Some (firstn n bs, skipn n bs).

Fixpoint index_of (x : Z) (l : list Z) : option nat :=
  match l with
  | [] => None
  | y :: tl => if x =? y then Some O else option_map S (index_of x tl)
  end.

Fixpoint upd {A} (n : nat) (v : A) (l : list A) : list A :=
  match l, n with
  | [], _ => []
  | _ :: tl, O => v :: tl
  | x :: tl, S k => x :: upd k v tl
  end.

Definition is_some {A} (o : option A) : bool := match o with Some _ => true | None => false end.

(** [decode_cid(len, value, r)] *)
Definition decode_cid (len : Z) (cur : option (list Z)) (r : list Z) : pres (list Z) :=
  if (MAX_CID <? len) || is_some cur || (zlen r <? len) then PErr Malformed
  else POk (firstn (Z.to_nat len) r) (skipn (Z.to_nat len) r).

Definition all_zero (l : list Z) : bool := forallb (Z.eqb 0) l.

(** [PreferredAddress::read] on the [len]-limited view [v]; returns the number of bytes consumed. *)
Definition read_pa (v : list Z) : pres (paddr * nat) :=
  match take 25 v with
  | None => PErr Malformed
  | Some (fixed, r1) =>
      let ip4 := firstn 4 fixed in
      let port4 := be_val (firstn 2 (skipn 4 fixed)) 0 in
      let ip6 := firstn 16 (skipn 6 fixed) in
      let port6 := be_val (firstn 2 (skipn 22 fixed)) 0 in
      let cid_len := nth 24 fixed 0 in
      if (zlen r1 <? cid_len) || (MAX_CID <? cid_len) then PErr Malformed
      else
        let cid := firstn (Z.to_nat cid_len) r1 in
        let r2 := skipn (Z.to_nat cid_len) r1 in
        match take 16 r2 with
        | None => PErr Malformed
        | Some (tok, _) =>
            let a4 := if all_zero ip4 && (port4 =? 0) then None else Some (ip4, port4) in
            let a6 := if all_zero ip6 && (port6 =? 0) then None else Some (ip6, port6) in
            if negb (is_some a4) && negb (is_some a6) then PErr Illegal
            else POk ({| pa_v4 := a4; pa_v6 := a6; pa_cid := cid; pa_tok := tok |},
                      (25 + Z.to_nat cid_len + 16)%nat) []
        end
  end.

Definition get_var (bs : list Z) : pres Z :=
  match Varint.decode bs with
  | Some (v, r) => POk v r
  | None => PErr Malformed
  end.

Definition set_ints (st : tp) (l : list Z) : tp :=
  {| ints := l; dam := dam st; mdfs := mdfs st; iscid := iscid st; gqb := gqb st; mad := mad st;
     odcid := odcid st; rscid := rscid st; srt := srt st; pa := pa st |}.
Definition set_dam (st : tp) : tp :=
  {| ints := ints st; dam := true; mdfs := mdfs st; iscid := iscid st; gqb := gqb st; mad := mad st;
     odcid := odcid st; rscid := rscid st; srt := srt st; pa := pa st |}.
Definition set_mdfs (st : tp) (v : Z) : tp :=
  {| ints := ints st; dam := dam st; mdfs := Some v; iscid := iscid st; gqb := gqb st; mad := mad st;
     odcid := odcid st; rscid := rscid st; srt := srt st; pa := pa st |}.
Definition set_iscid (st : tp) (v : list Z) : tp :=
  {| ints := ints st; dam := dam st; mdfs := mdfs st; iscid := Some v; gqb := gqb st; mad := mad st;
     odcid := odcid st; rscid := rscid st; srt := srt st; pa := pa st |}.
Definition set_gqb (st : tp) : tp :=
  {| ints := ints st; dam := dam st; mdfs := mdfs st; iscid := iscid st; gqb := true; mad := mad st;
     odcid := odcid st; rscid := rscid st; srt := srt st; pa := pa st |}.
Definition set_mad (st : tp) (v : Z) : tp :=
  {| ints := ints st; dam := dam st; mdfs := mdfs st; iscid := iscid st; gqb := gqb st; mad := Some v;
     odcid := odcid st; rscid := rscid st; srt := srt st; pa := pa st |}.
Definition set_odcid (st : tp) (v : list Z) : tp :=
  {| ints := ints st; dam := dam st; mdfs := mdfs st; iscid := iscid st; gqb := gqb st; mad := mad st;
     odcid := Some v; rscid := rscid st; srt := srt st; pa := pa st |}.
Definition set_rscid (st : tp) (v : list Z) : tp :=
  {| ints := ints st; dam := dam st; mdfs := mdfs st; iscid := iscid st; gqb := gqb st; mad := mad st;
     odcid := odcid st; rscid := Some v; srt := srt st; pa := pa st |}.
Definition set_srt (st : tp) (v : list Z) : tp :=
  {| ints := ints st; dam := dam st; mdfs := mdfs st; iscid := iscid st; gqb := gqb st; mad := mad st;
     odcid := odcid st; rscid := rscid st; srt := Some v; pa := pa st |}.
Definition set_pa (st : tp) (v : paddr) : tp :=
  {| ints := ints st; dam := dam st; mdfs := mdfs st; iscid := iscid st; gqb := gqb st; mad := mad st;
     odcid := odcid st; rscid := rscid st; srt := srt st; pa := Some v |}.

(** State of the loop: the parameters so far and the duplicate flags of the integer parameters. *)
Definition state : Type := (tp * list bool)%type.

(** One parameter: [id] and [len] have been read, [r] is the remaining input ([len <= |r|]). *)
Definition read_param (s : state) (id len : Z) (r : list Z) : pres state :=
  let '(st, got) := s in
  let skip := POk s (skipn (Z.to_nat len) r) in
  if id =? ID_ODCID then
    match decode_cid len (odcid st) r with
    | POk c r' => POk (set_odcid st c, got) r'
    | PErr e => PErr e
    end
  else if id =? ID_SRT then
    if negb (len =? 16) || is_some (srt st) then PErr Malformed
    else POk (set_srt st (firstn 16 r), got) (skipn 16 r)
  else if id =? ID_DAM then
    if negb (len =? 0) || dam st then PErr Malformed else POk (set_dam st, got) r
  else if id =? ID_PA then
    if is_some (pa st) then PErr Malformed
    else
      match read_pa (firstn (Z.to_nat len) r) with
      | POk (a, used) _ => POk (set_pa st a, got) (skipn used r)
      | PErr e => PErr e
      end
  else if id =? ID_ISCID then
    match decode_cid len (iscid st) r with
    | POk c r' => POk (set_iscid st c, got) r'
    | PErr e => PErr e
    end
  else if id =? ID_RSCID then
    match decode_cid len (rscid st) r with
    | POk c r' => POk (set_rscid st c, got) r'
    | PErr e => PErr e
    end
  else if id =? ID_MDFS then
    if (8 <? len) || is_some (mdfs st) then PErr Malformed
    else
      match get_var r with
      | POk v r' => POk (set_mdfs st v, got) r'
      | PErr e => PErr e
      end
  else if id =? ID_GQB then
    if len =? 0 then POk (set_gqb st, got) r else PErr Malformed
  else if id =? ID_MAD then
    match get_var r with
    | POk v r' => POk (set_mad st v, got) r'
    | PErr e => PErr e
    end
  else
    match index_of id int_ids with
    | Some k =>
        match get_var r with
        | POk v r' =>
            if negb (len =? vsize v) || nth k got false then PErr Malformed
            else POk (set_ints st (upd k v (ints st)), upd k true got) r'
        | PErr e => PErr e
        end
    | None => skip   (* reserved (0x1b) and unknown ids are ignored *)
    end.

Inductive rres : Type :=
| ROk (p : tp)
| RErr (e : perr).

Definition nthi (st : tp) (k : nat) : Z := nth k (ints st) 0.

(** Semantic validation at the end of [read]; [server] = the reader is a server. *)
Definition validate (msc : Z) (server : bool) (st : tp) : bool :=
  negb ((20 <? nthi st I_ACK_DELAY_EXP)
        || (2 ^ 14 <=? nthi st I_MAX_ACK_DELAY)
        || (nthi st I_ACTIVE_CID_LIMIT <? 2)
        || (nthi st I_MAX_UDP <? 1200)
        || (msc <? nthi st I_STREAMS_BIDI)
        || (msc <? nthi st I_STREAMS_UNI)
        || (match mad st with Some m => nthi st I_MAX_ACK_DELAY * 1000 <? m | None => false end)
        || (server && (is_some (odcid st) || is_some (pa st) || is_some (rscid st) || is_some (srt st)))
        || (match pa st with Some a => zlen (pa_cid a) =? 0 | None => false end)).

Fixpoint read_loop (fuel : nat) (s : state) (bs : list Z) : pres state :=
  match bs with
  | [] => POk s []
  | _ :: _ =>
      match fuel with
      | O => PErr OutOfFuel (* model artefact, proved unreachable *)
      | S k =>
          match get_var bs with
          | PErr e => PErr e
          | POk id r1 =>
              match get_var r1 with
              | PErr e => PErr e
              | POk len r2 =>
                  if zlen r2 <? len then PErr Malformed
                  else
                    match read_param s id len r2 with
                    | PErr e => PErr e
                    | POk s' r3 => read_loop k s' r3
                    end
              end
          end
      end
  end.

Definition init_state : state := (tp_default, repeat false NINT).

Definition read (msc : Z) (server : bool) (bs : list Z) : rres :=
  match read_loop (length bs) init_state bs with
  | PErr e => RErr e
  | POk (st, _) _ => if validate msc server st then ROk st else RErr Illegal
  end.

(** * Well-formed parameter sets: representation invariants of the Rust types plus the semantic
    validation [read] applies. *)
Definition in62 (x : Z) : bool := (0 <=? x) && (x <? 2 ^ 62).
Definition wf_cid (c : list Z) : bool := (zlen c <=? MAX_CID) && all_bytes c.
Definition wf_ocid (c : option (list Z)) : bool := match c with Some b => wf_cid b | None => true end.
Definition wf_tok (t : list Z) : bool := Nat.eqb (length t) 16 && all_bytes t.
Definition wf_addr (n : nat) (a : option (list Z * Z)) : bool :=
  match a with
  | Some (ip, port) =>
      Nat.eqb (length ip) n && all_bytes ip && (0 <=? port) && (port <? 2 ^ 16)
      && negb (all_zero ip && (port =? 0))
  | None => true
  end.
Definition wf_pa (a : paddr) : bool :=
  wf_addr 4 (pa_v4 a) && wf_addr 16 (pa_v6 a) && (is_some (pa_v4 a) || is_some (pa_v6 a))
  && wf_cid (pa_cid a) && wf_tok (pa_tok a).

Definition wf_tp (msc : Z) (server : bool) (p : tp) : bool :=
  Nat.eqb (length (ints p)) NINT && forallb in62 (ints p)
  && (match mdfs p with Some x => in62 x | None => true end)
  && (match mad p with Some x => in62 x | None => true end)
  && wf_ocid (iscid p) && wf_ocid (odcid p) && wf_ocid (rscid p)
  && (match srt p with Some t => wf_tok t | None => true end)
  && (match pa p with Some a => wf_pa a | None => true end)
  && validate msc server p.

(** * Integer interface shared with the hook [verif_hooks::tparams] *)
Definition zb (x : Z) : bool := negb (x =? 0).
Definition b2z (b : bool) : Z := if b then 1 else 0.
Definition lb (d : list Z) : list Z := zlen d :: d.

Definition pop (l : list Z) : option (Z * list Z) :=
  match l with x :: tl => Some (x, tl) | [] => None end.
Definition popn (n : nat) (l : list Z) : option (list Z * list Z) := take n l.
Definition poplb (l : list Z) : option (list Z * list Z) :=
  match l with
  | n :: tl => if (n <? 0) || (zlen tl <? n) then None else take (Z.to_nat n) tl
  | [] => None
  end.

Definition obind {A B} (o : option A) (k : A -> option B) : option B :=
  match o with Some a => k a | None => None end.
Notation "'let?' x := o 'in' k" := (obind o (fun x => k)) (at level 200, x pattern, right associativity).

Definition parse_ocid (l : list Z) : option (option (list Z) * list Z) :=
  let? (has, l1) := pop l in
  let? (c, l2) := poplb l1 in
  if MAX_CID <? zlen c then None else Some (if zb has then Some c else None, l2).

Definition parse_tp (l : list Z) : option (tp * list Z) :=
  let? (iv, l1) := popn NINT l in
  let? (d, l2) := pop l1 in
  let? (hm, l3) := pop l2 in
  let? (m, l4) := pop l3 in
  let? (isc, l5) := parse_ocid l4 in
  let? (g, l6) := pop l5 in
  let? (ha, l7) := pop l6 in
  let? (a, l8) := pop l7 in
  let? (odc, l9) := parse_ocid l8 in
  let? (rsc, l10) := parse_ocid l9 in
  let? (hs, l11) := pop l10 in
  let? (tok, l12) := popn 16 l11 in
  let? (hp, l13) := pop l12 in
  let? (h4, l14) := pop l13 in
  let? (ip4, l15) := popn 4 l14 in
  let? (port4, l16) := pop l15 in
  let? (h6, l17) := pop l16 in
  let? (ip6, l18) := popn 16 l17 in
  let? (port6, l19) := pop l18 in
  let? (pcid, l20) := poplb l19 in
  let? (ptok, l21) := popn 16 l20 in
  if MAX_CID <? zlen pcid then None
  else
    Some ({| ints := iv; dam := zb d; mdfs := if zb hm then Some m else None; iscid := isc;
             gqb := zb g; mad := if zb ha then Some a else None; odcid := odc; rscid := rsc;
             srt := if zb hs then Some tok else None;
             pa := if zb hp then
                     Some {| pa_v4 := if zb h4 then Some (ip4, port4 mod 2 ^ 16) else None;
                             pa_v6 := if zb h6 then Some (ip6, port6 mod 2 ^ 16) else None;
                             pa_cid := pcid; pa_tok := ptok |}
                   else None |}, l21).

Definition render_ocid (c : option (list Z)) : list Z :=
  match c with Some b => 1 :: lb b | None => [0; 0] end.

Definition render_tp (p : tp) : list Z :=
  ints p ++ [b2z (dam p)]
  ++ (match mdfs p with Some v => [1; v] | None => [0; 0] end)
  ++ render_ocid (iscid p) ++ [b2z (gqb p)]
  ++ (match mad p with Some v => [1; v] | None => [0; 0] end)
  ++ render_ocid (odcid p) ++ render_ocid (rscid p)
  ++ (match srt p with Some t => 1 :: t | None => zeros 17 end)
  ++ (match pa p with
      | Some a =>
          [1]
          ++ (match pa_v4 a with Some (ip, port) => 1 :: ip ++ [port] | None => zeros 6 end)
          ++ (match pa_v6 a with Some (ip, port) => 1 :: ip ++ [port] | None => zeros 18 end)
          ++ lb (pa_cid a) ++ pa_tok a
      | None => zeros (1 + 6 + 18 + 1 + 16)
      end).

Definition render_read (r : rres) : list Z :=
  match r with
  | ROk p => 0 :: render_tp p
  | RErr Illegal => [1]
  | RErr Malformed => [2]
  | RErr OutOfFuel => [-2]
  end.

(** [o0..o20, has_grease, grease_id, lb(payload), desc] *)
Definition parse_write (l : list Z) : option (list nat * option (Z * list Z) * tp) :=
  let? (ord, l1) := popn 21 l in
  let? (hg, l2) := pop l1 in
  let? (gid, l3) := pop l2 in
  let? (gp, l4) := poplb l3 in
  let? (p, l5) := parse_tp l4 in
  match l5 with
  | [] => Some (map (fun x => Z.to_nat (x mod 256)) ord, if zb hg then Some (gid, gp) else None, p)
  | _ => None
  end.

Definition MSC : Z := 2 ^ 60.

Definition step (op : list Z) : option (list Z) :=
  match op with
  | 0 :: tl =>
      match parse_write tl with
      | Some (ord, g, p) =>
          match write p g ord with Some b => Some (0 :: b) | None => None end
      | None => Some [-1]
      end
  | 1 :: side :: bs => Some (render_read (read MSC (zb side) bs))
  | 2 :: side :: tl =>
      match parse_write tl with
      | Some (ord, g, p) =>
          match write p g ord with
          | Some b => Some (render_read (read MSC (zb side) b))
          | None => None
          end
      | None => Some [-1]
      end
  | _ => Some [-1]
  end.

Fixpoint run_steps (i : ops) : option outs :=
  match i with
  | [] => Some []
  | op :: tl =>
      match step op, run_steps tl with
      | Some o, Some os => Some (o :: os)
      | _, _ => None
      end
  end.

Definition run (i : ops) : outs :=
  match run_steps i with
  | Some o => o
  | None => [PANIC]
  end.

(** * Property oracle: write-then-read with the real code (op 2) of a well-formed, valid
    parameter set, in any order that writes every parameter exactly once, returns that set. *)
Definition is_perm21 (ord : list nat) : bool :=
  forallb (fun k => Nat.eqb (count_occ Nat.eq_dec ord k) 1) (seq 0 21) && Nat.eqb (length ord) 21.

Definition wf_grease (g : option (Z * list Z)) : bool :=
  match g with
  | Some (id, payload) => in62 id && (id mod 31 =? 27) && (zlen payload <=? 16) && all_bytes payload
  | None => true
  end.

Definition oracle_step (op out : list Z) : bool :=
  match op with
  | 2 :: side :: tl =>
      match parse_write tl with
      | Some (ord, g, p) =>
          if wf_tp MSC (zb side) p && is_perm21 ord && wf_grease g
          then lz_eqb out (0 :: render_tp p) else true
      | None => true
      end
  | _ => true
  end.

Fixpoint oracle_list (i : ops) (o : outs) : bool :=
  match i, o with
  | [], [] => true
  | a :: i', b :: o' => oracle_step a b && oracle_list i' o'
  | _, _ => false
  end.

Definition op_must_not_panic (op : list Z) : bool :=
  match op with
  | 1 :: _ => true
  | 2 :: side :: tl =>
      match parse_write tl with
      | Some (ord, g, p) => wf_tp MSC (zb side) p && is_perm21 ord && wf_grease g
      | None => true
      end
  | _ => false
  end.

Definition oracle (i : ops) (o : outs) : bool :=
  match o with
  | [[-999]] => negb (forallb op_must_not_panic i)
  | _ => oracle_list i o
  end.
