(** C18 — the wake-up protocol of quinn's async API (quinn/src/{connection,recv_stream,
    send_stream}.rs), as a labelled transition system whose steps are WHOLE CRITICAL SECTIONS of
    the connection [Mutex] (every application poll and every driver poll of quinn runs entirely
    under [ConnectionInner::state]).

    What is transcribed from the source (names in brackets):
    - the registrations: [State::blocked_readers], [State::blocked_writers] (ONE waker per
      stream: [FxHashMap<StreamId, Waker>]), [State::stopped] ([FxHashMap<StreamId,
      Arc<Notify>>]), the [Notify]s of [Shared] ([connected], [handshake_confirmed],
      [stream_budget_available[dir]], [stream_incoming[dir]], [datagram_received],
      [datagrams_unblocked], [closed]), [State::driver] and [Shared::ref_count];
    - [AppPoll]: [poll_read_generic], [SendStream::execute_poll], [poll_open], [poll_accept],
      [ReadDatagram::poll], [SendDatagram::poll], [Connection::closed], [handshake_confirmed],
      [authenticated], [Connecting::poll], [SendStream::stopped]: try the operation under the
      lock; if it is not ready register the waker and return Pending — one atomic step. The
      ORDER of the checks (buffered data before [error] for read / accept / read_datagram /
      stopped; [error] first for write / open / send_datagram) is the source's;
    - [AppDrop]: dropping a pending future. [Notified::drop] removes the waiter from its
      [Notify]; the stream futures ([Read], [ReadChunk], the [poll_fn] of [write]) have NO [Drop]:
      the entry in [blocked_readers] / [blocked_writers] stays (a stale waker);
    - [DrvPoll evs]: one poll of [ConnectionDriver]: protocol changes (arguments of the events) and
      [State::forward_app_events] — which registration is drained and woken for which
      [proto::Event] / [StreamEvent];
    - [State::terminate], [State::close], [implicit_close], the [Drop] impls of [RecvStream],
      [SendStream], [ConnectionRef].
    tokio's [Notify::notify_waiters] is modelled by its documented contract: every [Notified]
    that is registered (or was created before the call) is woken, nothing is stored for later.

    A model task is a leaf future with its own waker ([join!]/[select!] of k operations = k model
    tasks that may additionally be polled spuriously, which the scheduler may always do). *)
From Coq Require Import ZArith List Bool Arith.
Import ListNotations.

(** * Small maps *)
Definition upd {A} (f : nat -> A) (k : nat) (v : A) : nat -> A :=
  fun x => if Nat.eqb x k then v else f x.
Definition updb {A} (f : bool -> A) (k : bool) (v : A) : bool -> A :=
  fun x => if Bool.eqb x k then v else f x.

(** association list stream -> task (one waker per stream) *)
Definition amap := list (nat * nat).
Fixpoint aget (m : amap) (k : nat) : option nat :=
  match m with
  | [] => None
  | (k', v) :: r => if Nat.eqb k' k then Some v else aget r k
  end.
Fixpoint arem (m : amap) (k : nat) : amap :=
  match m with
  | [] => []
  | (k', v) :: r => if Nat.eqb k' k then arem r k else (k', v) :: arem r k
  end.
Definition aset (m : amap) (k v : nat) : amap := (k, v) :: arem m k.
(** is task [t] the waker stored under some key *)
Fixpoint aval (m : amap) (t : nat) : bool :=
  match m with
  | [] => false
  | (_, v) :: r => Nat.eqb v t || aval r t
  end.

Definition nonempty {A} (l : list A) : bool := match l with [] => false | _ => true end.

(** * Operations an application task can be pending on; [bool] = direction (true = Bi) *)
Inductive op :=
| OConnect                (* the [Connecting] future *)
| OAuth                   (* [Connection::authenticated] *)
| OHsConf                 (* [Connection::handshake_confirmed] *)
| OOpen (d : bool)
| OAccept (d : bool)
| ORead (s : nat)         (* read / read_chunk / read_chunks (and each step of read_to_end / read_exact) *)
| OWrite (s : nat)        (* write / write_chunks (each step of write_all) *)
| OStopped (s : nat)      (* [SendStream::stopped] — a 'static future, independent of the handle *)
| ORecvDgram
| OSendDgram              (* [send_datagram_wait] *)
| OClosed.

(** the [Notify] objects *)
Inductive notify :=
| NConnected | NHsConf | NBudget (d : bool) | NIncoming (d : bool)
| NDgramRecv | NDgramUnblk | NClosed | NStopped (s : nat).

Definition notify_eqb (a b : notify) : bool :=
  match a, b with
  | NConnected, NConnected | NHsConf, NHsConf | NDgramRecv, NDgramRecv
  | NDgramUnblk, NDgramUnblk | NClosed, NClosed => true
  | NBudget x, NBudget y | NIncoming x, NIncoming y => Bool.eqb x y
  | NStopped x, NStopped y => Nat.eqb x y
  | _, _ => false
  end.

Definition notify_of (o : op) : option notify :=
  match o with
  | OConnect | OAuth => Some NConnected
  | OHsConf => Some NHsConf
  | OOpen d => Some (NBudget d)
  | OAccept d => Some (NIncoming d)
  | OStopped s => Some (NStopped s)
  | ORecvDgram => Some NDgramRecv
  | OSendDgram => Some NDgramUnblk
  | OClosed => Some NClosed
  | ORead _ | OWrite _ => None
  end.

(** result of a poll *)
Inductive res :=
| ROk | RErr | REnd
| RData (l : list Z)      (* bytes returned by a read *)
| RWrote (n : nat)
| RStream (s : nat)       (* accept / open *)
| RDgram (id : Z).
Inductive outcome := Pending | Ready (r : res) | NotOk.   (* NotOk: the label violates the API's borrow rules *)

(** * State *)
Record st := mk {
  (* protocol state as seen through quinn-proto's API *)
  connected : bool; hsconf : bool;
  err : option Z;                       (* [State::error] *)
  budget : bool -> nat;                 (* streams [streams().open(dir)] can still hand out *)
  incoming : bool -> list nat;          (* remotely opened streams not yet accepted, in order *)
  seen : nat -> bool;                   (* stream id in use *)
  rx : nat -> list Z;                   (* bytes buffered for ordered reading *)
  rx_end : nat -> bool;                 (* FIN/RESET received, or stopped: a read does not block *)
  wcredit : nat -> nat;                 (* bytes a write can take now *)
  w_end : nat -> bool;                  (* stopped by the peer / finished / reset: a write does not block *)
  stop_done : nat -> bool;              (* [send_stream_stopped] yields Some: stopped, or the send half is gone *)
  dq : list Z;                          (* received datagrams *)
  dspace : bool;                        (* the datagram send buffer is not blocked *)
  (* ghost history for the integrity statements *)
  arrived : nat -> list Z; delivered : nat -> list Z; discarded : nat -> bool;
  d_arrived : list Z; d_delivered : list Z;
  (* registrations *)
  br : amap; bw : amap;                 (* blocked_readers, blocked_writers *)
  nwait : notify -> nat -> bool;        (* registered [Notified]s *)
  skeys : list nat;                     (* keys of [State::stopped] *)
  (* tasks *)
  pend : nat -> option op;              (* the live future of task t returned Pending on this op *)
  runnable : nat -> bool;               (* woken and not yet polled again *)
  rborrow : nat -> option nat;          (* the task whose live future holds [&mut RecvStream s] *)
  wborrow : nat -> option nat;
  (* handles and teardown *)
  recv_h : nat -> bool; send_h : nat -> bool; all_read : nat -> bool;
  refcnt : Z;                           (* [Shared::ref_count]; -1 = the usize wrapped *)
  nhandles : Z;                         (* ghost: live API handles (Connecting/Connection clones, stream handles) *)
  inner_closed : bool;                  (* [proto::Connection::is_closed] *)
  drained : bool;
  driver_alive : bool; drv_waker : bool; drv_runnable : bool; drv_work : bool;
  ep_entry : bool                       (* the endpoint still has a [senders] entry for this connection *)
}.

Definition init : st := {|
  connected := false; hsconf := false; err := None;
  budget := fun _ => 0; incoming := fun _ => []; seen := fun _ => false;
  rx := fun _ => []; rx_end := fun _ => false; wcredit := fun _ => 0; w_end := fun _ => false;
  stop_done := fun _ => false; dq := []; dspace := false;
  arrived := fun _ => []; delivered := fun _ => []; discarded := fun _ => false;
  d_arrived := []; d_delivered := [];
  br := []; bw := []; nwait := fun _ _ => false; skeys := [];
  pend := fun _ => None; runnable := fun _ => false;
  rborrow := fun _ => None; wborrow := fun _ => None;
  recv_h := fun _ => false; send_h := fun _ => false; all_read := fun _ => false;
  (* [Connecting::new]: Arc::new (count 0), one clone for the driver (count 1); the
     [Connecting] itself is the one live handle *)
  refcnt := 1; nhandles := 1; inner_closed := false; drained := false;
  driver_alive := true; drv_waker := false; drv_runnable := true; drv_work := false;
  ep_entry := true |}.

(** setters (Coq 8.16 has no record update) *)
Definition set_proto (s : st) c h e b i se r re wc we sd q ds : st :=
  mk c h e b i se r re wc we sd q ds
     (arrived s) (delivered s) (discarded s) (d_arrived s) (d_delivered s)
     (br s) (bw s) (nwait s) (skeys s) (pend s) (runnable s) (rborrow s) (wborrow s)
     (recv_h s) (send_h s) (all_read s) (refcnt s) (nhandles s) (inner_closed s) (drained s)
     (driver_alive s) (drv_waker s) (drv_runnable s) (drv_work s) (ep_entry s).
Definition set_connected s v := set_proto s v (hsconf s) (err s) (budget s) (incoming s) (seen s) (rx s) (rx_end s) (wcredit s) (w_end s) (stop_done s) (dq s) (dspace s).
Definition set_hsconf s v := set_proto s (connected s) v (err s) (budget s) (incoming s) (seen s) (rx s) (rx_end s) (wcredit s) (w_end s) (stop_done s) (dq s) (dspace s).
Definition set_err s v := set_proto s (connected s) (hsconf s) v (budget s) (incoming s) (seen s) (rx s) (rx_end s) (wcredit s) (w_end s) (stop_done s) (dq s) (dspace s).
Definition set_budget s v := set_proto s (connected s) (hsconf s) (err s) v (incoming s) (seen s) (rx s) (rx_end s) (wcredit s) (w_end s) (stop_done s) (dq s) (dspace s).
Definition set_incoming s v := set_proto s (connected s) (hsconf s) (err s) (budget s) v (seen s) (rx s) (rx_end s) (wcredit s) (w_end s) (stop_done s) (dq s) (dspace s).
Definition set_seen s v := set_proto s (connected s) (hsconf s) (err s) (budget s) (incoming s) v (rx s) (rx_end s) (wcredit s) (w_end s) (stop_done s) (dq s) (dspace s).
Definition set_rx s v := set_proto s (connected s) (hsconf s) (err s) (budget s) (incoming s) (seen s) v (rx_end s) (wcredit s) (w_end s) (stop_done s) (dq s) (dspace s).
Definition set_rx_end s v := set_proto s (connected s) (hsconf s) (err s) (budget s) (incoming s) (seen s) (rx s) v (wcredit s) (w_end s) (stop_done s) (dq s) (dspace s).
Definition set_wcredit s v := set_proto s (connected s) (hsconf s) (err s) (budget s) (incoming s) (seen s) (rx s) (rx_end s) v (w_end s) (stop_done s) (dq s) (dspace s).
Definition set_w_end s v := set_proto s (connected s) (hsconf s) (err s) (budget s) (incoming s) (seen s) (rx s) (rx_end s) (wcredit s) v (stop_done s) (dq s) (dspace s).
Definition set_stop_done s v := set_proto s (connected s) (hsconf s) (err s) (budget s) (incoming s) (seen s) (rx s) (rx_end s) (wcredit s) (w_end s) v (dq s) (dspace s).
Definition set_dq s v := set_proto s (connected s) (hsconf s) (err s) (budget s) (incoming s) (seen s) (rx s) (rx_end s) (wcredit s) (w_end s) (stop_done s) v (dspace s).
Definition set_dspace s v := set_proto s (connected s) (hsconf s) (err s) (budget s) (incoming s) (seen s) (rx s) (rx_end s) (wcredit s) (w_end s) (stop_done s) (dq s) v.

Definition set_ghost (s : st) a d x da dd : st :=
  mk (connected s) (hsconf s) (err s) (budget s) (incoming s) (seen s) (rx s) (rx_end s) (wcredit s)
     (w_end s) (stop_done s) (dq s) (dspace s) a d x da dd
     (br s) (bw s) (nwait s) (skeys s) (pend s) (runnable s) (rborrow s) (wborrow s)
     (recv_h s) (send_h s) (all_read s) (refcnt s) (nhandles s) (inner_closed s) (drained s)
     (driver_alive s) (drv_waker s) (drv_runnable s) (drv_work s) (ep_entry s).
Definition set_arrived s v := set_ghost s v (delivered s) (discarded s) (d_arrived s) (d_delivered s).
Definition set_delivered s v := set_ghost s (arrived s) v (discarded s) (d_arrived s) (d_delivered s).
Definition set_discarded s v := set_ghost s (arrived s) (delivered s) v (d_arrived s) (d_delivered s).
Definition set_d_arrived s v := set_ghost s (arrived s) (delivered s) (discarded s) v (d_delivered s).
Definition set_d_delivered s v := set_ghost s (arrived s) (delivered s) (discarded s) (d_arrived s) v.

Definition set_reg (s : st) r w n k : st :=
  mk (connected s) (hsconf s) (err s) (budget s) (incoming s) (seen s) (rx s) (rx_end s) (wcredit s)
     (w_end s) (stop_done s) (dq s) (dspace s)
     (arrived s) (delivered s) (discarded s) (d_arrived s) (d_delivered s)
     r w n k (pend s) (runnable s) (rborrow s) (wborrow s)
     (recv_h s) (send_h s) (all_read s) (refcnt s) (nhandles s) (inner_closed s) (drained s)
     (driver_alive s) (drv_waker s) (drv_runnable s) (drv_work s) (ep_entry s).
Definition set_br s v := set_reg s v (bw s) (nwait s) (skeys s).
Definition set_bw s v := set_reg s (br s) v (nwait s) (skeys s).
Definition set_nwait s v := set_reg s (br s) (bw s) v (skeys s).
Definition set_skeys s v := set_reg s (br s) (bw s) (nwait s) v.

Definition set_tasks (s : st) p r rb wb : st :=
  mk (connected s) (hsconf s) (err s) (budget s) (incoming s) (seen s) (rx s) (rx_end s) (wcredit s)
     (w_end s) (stop_done s) (dq s) (dspace s)
     (arrived s) (delivered s) (discarded s) (d_arrived s) (d_delivered s)
     (br s) (bw s) (nwait s) (skeys s) p r rb wb
     (recv_h s) (send_h s) (all_read s) (refcnt s) (nhandles s) (inner_closed s) (drained s)
     (driver_alive s) (drv_waker s) (drv_runnable s) (drv_work s) (ep_entry s).
Definition set_pend s v := set_tasks s v (runnable s) (rborrow s) (wborrow s).
Definition set_runnable s v := set_tasks s (pend s) v (rborrow s) (wborrow s).
Definition set_rborrow s v := set_tasks s (pend s) (runnable s) v (wborrow s).
Definition set_wborrow s v := set_tasks s (pend s) (runnable s) (rborrow s) v.

Definition set_h (s : st) rh sh ar rc nh ic dr da dw drn dwk ee : st :=
  mk (connected s) (hsconf s) (err s) (budget s) (incoming s) (seen s) (rx s) (rx_end s) (wcredit s)
     (w_end s) (stop_done s) (dq s) (dspace s)
     (arrived s) (delivered s) (discarded s) (d_arrived s) (d_delivered s)
     (br s) (bw s) (nwait s) (skeys s) (pend s) (runnable s) (rborrow s) (wborrow s)
     rh sh ar rc nh ic dr da dw drn dwk ee.
Definition set_recv_h s v := set_h s v (send_h s) (all_read s) (refcnt s) (nhandles s) (inner_closed s) (drained s) (driver_alive s) (drv_waker s) (drv_runnable s) (drv_work s) (ep_entry s).
Definition set_send_h s v := set_h s (recv_h s) v (all_read s) (refcnt s) (nhandles s) (inner_closed s) (drained s) (driver_alive s) (drv_waker s) (drv_runnable s) (drv_work s) (ep_entry s).
Definition set_all_read s v := set_h s (recv_h s) (send_h s) v (refcnt s) (nhandles s) (inner_closed s) (drained s) (driver_alive s) (drv_waker s) (drv_runnable s) (drv_work s) (ep_entry s).
Definition set_refs s rc nh := set_h s (recv_h s) (send_h s) (all_read s) rc nh (inner_closed s) (drained s) (driver_alive s) (drv_waker s) (drv_runnable s) (drv_work s) (ep_entry s).
Definition set_inner_closed s v := set_h s (recv_h s) (send_h s) (all_read s) (refcnt s) (nhandles s) v (drained s) (driver_alive s) (drv_waker s) (drv_runnable s) (drv_work s) (ep_entry s).
Definition set_drained s v ee := set_h s (recv_h s) (send_h s) (all_read s) (refcnt s) (nhandles s) (inner_closed s) v (driver_alive s) (drv_waker s) (drv_runnable s) (drv_work s) ee.
Definition set_drv s da dw drn dwk := set_h s (recv_h s) (send_h s) (all_read s) (refcnt s) (nhandles s) (inner_closed s) (drained s) da dw drn dwk (ep_entry s).

(** * Wake primitives *)
Definition closed (s : st) : bool := match err s with Some _ => true | None => false end.

(** [Waker::wake] of an application task *)
Definition wake_task (s : st) (t : nat) : st := set_runnable s (upd (runnable s) t true).
(** [wake_stream(id, &mut blocked_readers/writers)]: remove the entry and wake it *)
Definition wake_reader (s : st) (k : nat) : st :=
  match aget (br s) k with
  | Some t => wake_task (set_br s (arem (br s) k)) t
  | None => s
  end.
Definition wake_writer (s : st) (k : nat) : st :=
  match aget (bw s) k with
  | Some t => wake_task (set_bw s (arem (bw s) k)) t
  | None => s
  end.
(** [wake_all]: drain the map, wake every stored waker *)
Definition wake_all_readers (s : st) : st :=
  set_br (set_runnable s (fun t => runnable s t || aval (br s) t)) [].
Definition wake_all_writers (s : st) : st :=
  set_bw (set_runnable s (fun t => runnable s t || aval (bw s) t)) [].
(** [Notify::notify_waiters] *)
Definition notify_waiters (s : st) (n : notify) : st :=
  set_nwait (set_runnable s (fun t => runnable s t || nwait s n t))
            (fun n' t => if notify_eqb n' n then false else nwait s n' t).
(** [wake_stream_notify(id, &mut stopped)]: remove the map entry, notify its waiters *)
Definition rem_key (l : list nat) (k : nat) : list nat := filter (fun x => negb (Nat.eqb x k)) l.
Definition memb (l : list nat) (k : nat) : bool := existsb (Nat.eqb k) l.
Definition wake_stopped (s : st) (k : nat) : st :=
  if memb (skeys s) k then set_skeys (notify_waiters s (NStopped k)) (rem_key (skeys s) k) else s.
(** [wake_all_notify(&mut stopped)] *)
Definition wake_all_stopped (s : st) : st :=
  set_skeys
    (set_nwait (set_runnable s (fun t => runnable s t || existsb (fun k => nwait s (NStopped k) t) (skeys s)))
               (fun n t => match n with
                           | NStopped k => if memb (skeys s) k then false else nwait s n t
                           | _ => nwait s n t
                           end))
    [].
(** [State::wake]: wake the driver if it left its waker *)
Definition wake_driver (s : st) : st :=
  if drv_waker s then set_drv s (driver_alive s) false true (drv_work s) else s.
(** an application call that leaves something to transmit: sets the work flag, then [wake] *)
Definition need_driver (s : st) : st :=
  wake_driver (set_drv s (driver_alive s) (drv_waker s) (drv_runnable s) true).

(** [State::terminate] *)
Definition terminate (s : st) (code : Z) : st :=
  let s := set_err s (Some code) in
  let s := wake_all_writers s in
  let s := wake_all_readers s in
  let s := notify_waiters s (NBudget false) in
  let s := notify_waiters s (NBudget true) in
  let s := notify_waiters s (NIncoming false) in
  let s := notify_waiters s (NIncoming true) in
  let s := notify_waiters s NDgramRecv in
  let s := notify_waiters s NDgramUnblk in
  let s := notify_waiters s NHsConf in
  let s := wake_all_stopped s in
  let s := notify_waiters s NClosed in
  notify_waiters s NConnected.

(** [State::close] ([Connection::close], [implicit_close], [ConnectionEvent::Close]) *)
Definition LOCALLY_CLOSED : Z := 7.
Definition close_conn (s : st) : st :=
  need_driver (terminate (set_inner_closed s true) LOCALLY_CLOSED).

(** [ConnectionRef::drop]: [fetch_sub] returning <= 1 runs the last-reference branch *)
Definition drop_ref (s : st) (is_handle : bool) : st :=
  let old := refcnt s in
  let s := set_refs s (old - 1) (if is_handle then nhandles s - 1 else nhandles s) in
  if Z.ltb 1 old then s
  else if inner_closed s then s else close_conn s.
Definition add_ref (s : st) : st := set_refs s (refcnt s + 1) (nhandles s + 1).

(** * The condition of an operation: polling it now would not return Pending *)
Definition cond (s : st) (o : op) : bool :=
  match o with
  | OConnect | OAuth => connected s || closed s
  | OHsConf => hsconf s || closed s
  | OOpen d => Nat.ltb 0 (budget s d) || closed s
  | OAccept d => nonempty (incoming s d) || closed s
  | ORead k => nonempty (rx s k) || rx_end s k || closed s
  | OWrite k => Nat.ltb 0 (wcredit s k) || w_end s k || closed s
  | OStopped k => stop_done s k || closed s
  | ORecvDgram => nonempty (dq s) || closed s
  | OSendDgram => dspace s || closed s
  | OClosed => closed s
  end.

(** release what the live future of [t] holds: its [Notified] (removed from the Notify by
    [Notified::drop]) and its [&mut] borrow; the [blocked_readers/writers] entries are NOT touched *)
Definition release (s : st) (t : nat) : st :=
  match pend s t with
  | None => s
  | Some o =>
      let s := set_pend s (upd (pend s) t None) in
      match o with
      | ORead k => set_rborrow s (upd (rborrow s) k None)
      | OWrite k => set_wborrow s (upd (wborrow s) k None)
      | _ => match notify_of o with
             | Some n => set_nwait s (fun n' t' => if notify_eqb n' n && Nat.eqb t' t then false else nwait s n' t')
             | None => s
             end
      end
  end.

(** register the waker for [o] and return Pending *)
Definition register (s : st) (t : nat) (o : op) : st :=
  let s := set_pend s (upd (pend s) t (Some o)) in
  match o with
  | ORead k => set_rborrow (set_br s (aset (br s) k t)) (upd (rborrow s) k (Some t))
  | OWrite k => set_wborrow (set_bw s (aset (bw s) k t)) (upd (wborrow s) k (Some t))
  | OStopped k =>
      let s := if memb (skeys s) k then s else set_skeys s (k :: skeys s) in
      set_nwait s (fun n' t' => if notify_eqb n' (NStopped k) && Nat.eqb t' t then true else nwait s n' t')
  | _ => match notify_of o with
         | Some n => set_nwait s (fun n' t' => if notify_eqb n' n && Nat.eqb t' t then true else nwait s n' t')
         | None => s
         end
  end.

Definition free_borrow (b : option nat) (t : nat) : bool :=
  match b with None => true | Some t' => Nat.eqb t' t end.

(** API rules a label must respect to be a possible call ([&mut self] on the stream handles,
    a handle must exist, a fresh id for a new stream) *)
Definition poll_ok (s : st) (t : nat) (o : op) (n : nat) : bool :=
  match o with
  | ORead k => recv_h s k && free_borrow (rborrow s k) t && Nat.ltb 0 n && negb (all_read s k)
  | OWrite k => send_h s k && free_borrow (wborrow s k) t && Nat.ltb 0 n
  | OStopped k => seen s k
  | OOpen _ => negb (seen s n)
  | _ => true
  end.

(** try the operation (the Ready branches), [None] = it would block *)
Definition try_op (s : st) (o : op) (n : nat) : option (st * res) :=
  match o with
  | OConnect => if connected s then Some (s, ROk) else if closed s then Some (s, RErr) else None
  | OAuth => if closed s then Some (s, RErr) else if connected s then Some (s, ROk) else None
  | OHsConf => if closed s then Some (s, RErr) else if hsconf s then Some (s, ROk) else None
  | OOpen d =>
      if closed s then Some (s, RErr)
      else if Nat.ltb 0 (budget s d) then
        let s := set_budget s (updb (budget s) d (budget s d - 1)) in
        let s := set_seen s (upd (seen s) n true) in
        let s := add_ref (set_send_h s (upd (send_h s) n true)) in
        let s := if d then add_ref (set_recv_h s (upd (recv_h s) n true)) else s in
        Some (s, RStream n)
      else None
  | OAccept d =>
      match incoming s d with
      | k :: rest =>
          let s := set_incoming s (updb (incoming s) d rest) in
          let s := add_ref (set_recv_h s (upd (recv_h s) k true)) in
          let s := if d then add_ref (set_send_h s (upd (send_h s) k true)) else s in
          Some (need_driver s, RStream k)           (* [state.wake()]: more stream credit to send *)
      | [] => if closed s then Some (s, RErr) else None
      end
  | ORead k =>
      match rx s k with
      | _ :: _ =>
          let got := firstn n (rx s k) in
          let s := set_rx s (upd (rx s) k (skipn n (rx s k))) in
          let s := set_delivered s (upd (delivered s) k (delivered s k ++ got)) in
          Some (need_driver s, RData got)
      | [] =>
          if rx_end s k then Some (set_all_read s (upd (all_read s) k true), REnd)
          else if closed s then Some (s, RErr) else None
      end
  | OWrite k =>
      if closed s then Some (s, RErr)
      else if w_end s k then Some (s, RErr)
      else if Nat.ltb 0 (wcredit s k) then
        let w := Nat.min n (wcredit s k) in
        Some (need_driver (set_wcredit s (upd (wcredit s) k (wcredit s k - w))), RWrote w)
      else None
  | OStopped k => if stop_done s k then Some (s, ROk) else if closed s then Some (s, RErr) else None
  | ORecvDgram =>
      match dq s with
      | d :: rest => Some (set_d_delivered (set_dq s rest) (d_delivered s ++ [d]), RDgram d)
      | [] => if closed s then Some (s, RErr) else None
      end
  | OSendDgram => if closed s then Some (s, RErr) else if dspace s then Some (need_driver s, ROk) else None
  | OClosed => if closed s then Some (s, ROk) else None
  end.

(** [AppPoll t o n]: task [t] polls a future of operation [o] (a fresh one, or its live pending
    one). A task has one live future: polling another operation drops the previous one. *)
Definition app_poll (s : st) (t : nat) (o : op) (n : nat) : st * outcome :=
  if negb (poll_ok s t o n) then (s, NotOk) else
  let s := release s t in
  let s := set_runnable s (upd (runnable s) t false) in
  match try_op s o n with
  | Some (s', r) => (s', Ready r)
  | None => (register s t o, Pending)
  end.

(** * Driver: protocol changes and the events [forward_app_events] turns into wake-ups *)
Inductive pev :=
| PConnected                               (* Event::Connected *)
| PHsConfirmed                             (* Event::HandshakeConfirmed *)
| POpened (d : bool) (k : nat) (bytes : list Z) (fin : bool)
                                           (* first frame of a remote stream: StreamEvent::Opened, NO Readable *)
| PData (k : nat) (bytes : list Z) (fin : bool)   (* StreamEvent::Readable *)
| PReset (k : nat)                         (* RESET_STREAM: StreamEvent::Readable *)
| PCredit (k : nat) (n : nat)              (* StreamEvent::Writable *)
| PStopped (k : nat)                       (* StreamEvent::Stopped: stopped waiters AND the blocked writer *)
| PFinished (k : nat)                      (* StreamEvent::Finished *)
| PResetAcked (k : nat)                    (* [StreamsState::reset_acked]: the send half is freed, NO event *)
| PAvailable (d : bool) (n : nat)          (* StreamEvent::Available *)
| PDgram (id : Z)                          (* Event::DatagramReceived *)
| PDgramUnblocked                          (* Event::DatagramsUnblocked *)
| PLost (code : Z)                         (* Event::ConnectionLost -> terminate *)
| PDrained                                 (* the close/drain timer fired: [is_drained], EndpointEvent::Drained forwarded *)
| PSpurious (o : op).                      (* the event of [o] without any change (duplicate frames...) *)

Definition drv_event (s : st) (e : pev) : st :=
  match e with
  | PConnected => notify_waiters (set_connected s true) NConnected
  | PHsConfirmed => notify_waiters (set_hsconf s true) NHsConf
  | POpened d k bytes fin =>
      if seen s k then s else
      let s := set_seen s (upd (seen s) k true) in
      let s := set_incoming s (updb (incoming s) d (incoming s d ++ [k])) in
      let s := set_rx s (upd (rx s) k bytes) in
      let s := set_arrived s (upd (arrived s) k bytes) in
      let s := set_rx_end s (upd (rx_end s) k fin) in
      notify_waiters s (NIncoming d)
  | PData k bytes fin =>
      if negb (seen s k) || rx_end s k then s else
      let s := set_rx s (upd (rx s) k (rx s k ++ bytes)) in
      let s := set_arrived s (upd (arrived s) k (arrived s k ++ bytes)) in
      let s := set_rx_end s (upd (rx_end s) k fin) in
      wake_reader s k
  | PReset k =>
      if negb (seen s k) then s else
      let s := set_discarded (set_rx s (upd (rx s) k [])) (upd (discarded s) k true) in
      wake_reader (set_rx_end s (upd (rx_end s) k true)) k
  | PCredit k n =>
      if negb (seen s k) then s else
      wake_writer (set_wcredit s (upd (wcredit s) k (wcredit s k + n))) k
  | PStopped k =>
      if negb (seen s k) then s else
      let s := set_stop_done (set_w_end s (upd (w_end s) k true)) (upd (stop_done s) k true) in
      wake_writer (wake_stopped s k) k
  | PFinished k =>
      if negb (seen s k) then s else
      wake_stopped (set_stop_done s (upd (stop_done s) k true)) k
  | PResetAcked k =>
      if negb (seen s k) then s else set_stop_done s (upd (stop_done s) k true)
  | PAvailable d n => notify_waiters (set_budget s (updb (budget s) d (budget s d + n))) (NBudget d)
  | PDgram id => notify_waiters (set_d_arrived (set_dq s (dq s ++ [id])) (d_arrived s ++ [id])) NDgramRecv
  | PDgramUnblocked => notify_waiters (set_dspace s true) NDgramUnblk
  | PLost code => terminate s code
  | PDrained => if closed s then set_drained s true false else s
  | PSpurious o =>
      match o with
      | ORead k => wake_reader s k
      | OWrite k => wake_writer s k
      | OStopped k => wake_stopped s k
      | _ => match notify_of o with Some n => notify_waiters s n | None => s end
      end
  end.

(** one poll of [ConnectionDriver]: clear the wake flag, process/forward the events, transmit
    everything (work done), then either exit (drained: the driver's [ConnectionRef] is dropped)
    or leave the waker in [State::driver] *)
Definition drv_poll (s : st) (evs : list pev) : st :=
  if negb (driver_alive s) then s else
  let s := set_drv s true false false (drv_work s) in
  let s := fold_left drv_event evs s in
  if drained s then drop_ref (set_drv s false false false false) false
  else set_drv s true true (drv_runnable s) false.

(** * Labels *)
Inductive label :=
| AppPoll (t : nat) (o : op) (n : nat)
| AppDrop (t : nat)                       (* drop the live pending future of task t *)
| DrvPoll (evs : list pev)
| AppClose                                (* Connection::close (also ConnectionEvent::Close from Endpoint::close) *)
| AppStop (k : nat)                       (* RecvStream::stop *)
| AppFinish (k : nat)                     (* SendStream::finish *)
| AppReset (k : nat)                      (* SendStream::reset *)
| HClone                                  (* Connection::clone *)
| HDropConn                               (* drop a Connection / Connecting handle *)
| HDropRecv (k : nat)                     (* drop the RecvStream *)
| HDropSend (k : nat).                    (* drop the SendStream *)

Definition step (s : st) (l : label) : st * outcome :=
  match l with
  | AppPoll t o n => app_poll s t o n
  | AppDrop t => (release s t, Pending)
  | DrvPoll evs => (drv_poll s evs, Pending)
  | AppClose => (if Z.ltb 0 (nhandles s) then close_conn s else s, Pending)
  | AppStop k =>
      if recv_h s k then
        match rborrow s k with
        | Some _ => (s, NotOk)
        | None =>
            (* stop(): discard, ClosedStream from now on; [blocked_readers.remove] *)
            let s := set_discarded (set_rx s (upd (rx s) k [])) (upd (discarded s) k true) in
            let s := set_rx_end s (upd (rx_end s) k true) in
            let s := set_all_read s (upd (all_read s) k true) in
            (need_driver (set_br s (arem (br s) k)), Pending)
        end
      else (s, NotOk)
  | AppFinish k =>
      if send_h s k then
        match wborrow s k with
        | Some _ => (s, NotOk)
        | None => (need_driver (set_w_end s (upd (w_end s) k true)), Pending)
        end
      else (s, NotOk)
  | AppReset k =>
      if send_h s k then
        match wborrow s k with
        | Some _ => (s, NotOk)
        | None => (need_driver (set_w_end s (upd (w_end s) k true)), Pending)
        end
      else (s, NotOk)
  | HClone => (if Z.ltb 0 (nhandles s) then add_ref s else s, Pending)
  | HDropConn => (if Z.ltb 0 (nhandles s) then drop_ref s true else s, Pending)
  | HDropRecv k =>
      if recv_h s k then
        match rborrow s k with
        | Some _ => (s, NotOk)
        | None =>
            let s := set_recv_h s (upd (recv_h s) k false) in
            let s :=
              if all_read s k then s   (* debug_assert!(!blocked_readers.contains_key) — see [recv_drop_assert] *)
              else
                let s := set_br s (arem (br s) k) in
                if closed s then s
                else
                  let s := set_discarded (set_rx s (upd (rx s) k [])) (upd (discarded s) k true) in
                  need_driver (set_rx_end s (upd (rx_end s) k true)) in
            (drop_ref s true, Pending)
        end
      else (s, NotOk)
  | HDropSend k =>
      if send_h s k then
        match wborrow s k with
        | Some _ => (s, NotOk)
        | None =>
            let s := set_send_h s (upd (send_h s) k false) in
            let s := set_bw s (arem (bw s) k) in
            let s := if closed s then s else need_driver (set_w_end s (upd (w_end s) k true)) in
            (drop_ref s true, Pending)
        end
      else (s, NotOk)
  end.

Definition step' (s : st) (l : label) : st := fst (step s l).
Definition run (ls : list label) : st := fold_left step' ls init.

(** the known class: a [stopped()] future pending while the local [reset()] is acknowledged *)
Fixpoint pev_no_reset_ack (evs : list pev) : bool :=
  match evs with
  | [] => true
  | PResetAcked _ :: _ => false
  | _ :: r => pev_no_reset_ack r
  end.
Definition label_no_reset_ack (l : label) : bool :=
  match l with DrvPoll evs => pev_no_reset_ack evs | _ => true end.

(** * A socket send error inside a driver poll ([State::drive_transmit] returning [Err])
    Since the fix ade9d8a the driver terminates the connection before it exits; before it,
    [ConnectionDriver::poll] returned with [?]: no [terminate], the events of that poll not
    forwarded. Both are given as extra steps (not labels of [step]); Proofs/AsyncConnIoError.v
    shows that the fixed one preserves the invariant and the old one does not. *)
Definition IO_ERROR : Z := 2.
Definition drv_io_error (s : st) : st :=
  if negb (driver_alive s) then s else
  drop_ref (set_drv (terminate s IO_ERROR) false false false false) false.
Definition drv_io_error_unfixed (s : st) : st :=
  if negb (driver_alive s) then s else
  drop_ref (set_drv s false false false false) false.
