(** Model of the stateless-reset sizing and rate limit and of the short-Initial gate of
    [Endpoint::handle] for datagrams of unknown connections (quinn-proto/src/endpoint.rs:
    [stateless_reset], [handle_first_packet]) — definitions only.

    The padding length of a reset is drawn from the endpoint's rng when the inciting datagram is
    large enough: RELATIONAL. The observed reset size is supplied with the op as a trailing hint
    (read back from a first run of the hook, which ignores it); the model accepts exactly the sizes
    in the interval the code can produce and echoes it. Theorems hold for every admissible size. *)
From Coq Require Import ZArith List Bool.
From QV Require Import Lib.Corr Lib.Chk gen.Constants.
Import ListNotations.
Open Scope Z_scope.

Definition TOKEN : Z := RESET_TOKEN_SIZE.
Definition MIN_PADDING_LEN : Z := 5.                    (* inner const of stateless_reset *)
Definition IDEAL_MIN_PADDING_LEN : Z := MIN_PADDING_LEN + MAX_CID_SIZE.
Definition CID_LEN : Z := 8.                            (* the hook's connection-ID generator *)

Record st := mk { has_server : bool; interval : Z; last : option Z }.

(** [max_padding_len]: [None] = the datagram is not larger than the minimum reset. *)
Definition max_padding (len : Z) : option Z :=
  let headroom := len - TOKEN in
  if (0 <=? headroom) && (MIN_PADDING_LEN <? headroom) then Some (headroom - 1) else None.

(** Sizes [stateless_reset] can produce for an inciting datagram of [len] bytes. *)
Definition size_ok (len sz : Z) : bool :=
  match max_padding len with
  | None => false
  | Some mp =>
      if mp <=? IDEAL_MIN_PADDING_LEN then sz =? mp + TOKEN
      else (IDEAL_MIN_PADDING_LEN + TOKEN <=? sz) && (sz <? mp + TOKEN)
  end.

Inductive verdict := RateLimited | TooSmall | Reset.

Definition decide (s : st) (now len : Z) : verdict :=
  match last s with
  | Some l => if now <? l + interval s then RateLimited
              else match max_padding len with Some _ => Reset | None => TooSmall end
  | None => match max_padding len with Some _ => Reset | None => TooSmall end
  end.

(** [stateless_reset(now, len)] with the observed size [hint]: new state, emitted size if any;
    outer [None] = the hint is not a size the code can produce. *)
Definition stateless_reset (s : st) (now len hint : Z) : option (st * option Z) :=
  match decide s now len with
  | Reset => if size_ok len hint then Some (mk (has_server s) (interval s) (Some now), Some hint) else None
  | _ => Some (s, None)
  end.

Definition none_out (consulted : Z) : list Z := [0; 0; consulted; 0; 0; 0].

(** One datagram: kind 1 = short header, 2 = supported-version Initial of exactly [len] bytes. *)
Definition handle (s : st) (kind now len hint : Z) : option (st * list Z) :=
  if kind =? 1 then
    if len <? 1 + CID_LEN then Some (s, none_out 0)               (* header does not parse *)
    else do r <- stateless_reset s now len hint;
         Some (fst r, match snd r with Some sz => [1; sz; 0; 0; 0; 1] | None => none_out 0 end)
  else if kind =? 2 then
    if has_server s then
      if len <? MIN_INITIAL_SIZE then Some (s, none_out 0)        (* ignored before any state or crypto *)
      else Some (s, none_out 1)                                   (* the hook's crypto layer refuses *)
    else do r <- stateless_reset s now len hint;
         Some (fst r, match snd r with Some sz => [1; sz; 0; 0; 0; 1] | None => none_out 0 end)
  else Some (s, [-1]).

Fixpoint go (s : option st) (i : ops) : outs :=
  match i with
  | [] => []
  | op :: i' =>
      match op with
      | 0 :: srv :: iv :: _ => [0] :: go (Some (mk (nz srv) iv None)) i'
      | [kind; now; len; _fill; hint] =>
          match s with
          | None => [-1] :: go s i'
          | Some s0 =>
              if (kind =? 2) && (len <? 20) then [-1] :: go s i'
              else match handle s0 kind now len hint with
                   | Some (s1, o) => o :: go (Some s1) i'
                   | None => [-2] :: go s i'
                   end
          end
      | _ => [-1] :: go s i'
      end
  end.

Definition run (i : ops) : outs := go None i.

(** Oracle on the implementation's outputs (from the ops alone): a response is strictly smaller
    than its inciting datagram and looks like a short-header packet; nothing answers a datagram
    of at most MIN_PADDING_LEN + TOKEN bytes; two responses are at least [interval] apart; with a
    server configuration an Initial below MIN_INITIAL_SIZE gets no response, consults no crypto
    and creates no state. [lastr] = time of the last response seen. *)
Fixpoint resets_ok (srv : bool) (iv : Z) (lastr : option Z) (i : ops) (o : outs) : bool :=
  match i, o with
  | [], [] => true
  | op :: i', out :: o' =>
      match op, out with
      | 0 :: s :: v :: _, _ => resets_ok (nz s) v None i' o'
      | kind :: now :: len :: _, [k; sz; consulted; conns; bufd; short] =>
          if k =? 1 then
            (sz <? len) && (MIN_PADDING_LEN + TOKEN <? len) && (short =? 1) &&
            (match lastr with Some l => l + iv <=? now | None => true end) &&
            resets_ok srv iv (Some now) i' o'
          else
            (if (kind =? 2) && srv && (len <? MIN_INITIAL_SIZE)
             then (k =? 0) && (consulted =? 0) && (conns =? 0) && (bufd =? 0) else true) &&
            resets_ok srv iv lastr i' o'
      | _, _ => resets_ok srv iv lastr i' o'
      end
  | _, _ => false
  end.

Definition oracle (i : ops) (o : outs) : bool :=
  if llz_eqb o [PANIC] then false else resets_ok false 0 None i o.

(** ---- trace semantics for the theorems: a history of (now, len, admissible size choice) ---- *)
Fixpoint emitted (s : st) (evs : list (Z * Z * Z)) : option (list (Z * Z * Z)) :=
  match evs with
  | [] => Some []
  | (now, len, choice) :: evs' =>
      do r <- stateless_reset s now len choice;
      do rest <- emitted (fst r) evs';
      Some (match snd r with Some sz => (now, len, sz) :: rest | None => rest end)
  end.
