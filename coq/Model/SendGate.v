(** Model of the blocking branches of [Connection::poll_transmit]
    (quinn-proto/src/connection/mod.rs, the block "Is 1 more datagram allowed?") — definitions only.

    One evaluation of the gate = one attempt to start a datagram in packet-number space [i]:
      - nothing to send in the space ([space_can_send] empty and no close packet)   -> NothingToSend
      - [path.anti_amplification_blocked(...)]                                       -> BlockedAntiAmp
      - [if ack_eliciting && !close && spaces[space_id].loss_probes == 0]:
          [in_flight.bytes + bytes_to_send >= congestion.window()]                   -> BlockedCongestion
          [pacing.delay(..) = Some(delay)] => [timers.set(Timer::Pacing, delay)]     -> BlockedPacing delay
      - otherwise a packet is definitely sent                                         -> Sends
    The pacer's answer (float arithmetic, pacing.rs) is an oracle value [g_delay]. *)
From Coq Require Import ZArith List Bool.
Import ListNotations.
Open Scope Z_scope.

Inductive verdict :=
| Sends
| NothingToSend
| BlockedAntiAmp
| BlockedCongestion
| BlockedPacing (deadline : Z).

Record gate_in := mkGate {
  g_can_send : bool;       (* space_can_send non-empty, or a close packet is due in a space with keys *)
  g_close : bool;          (* the CONNECTION_CLOSE packet *)
  g_ack_eliciting : bool;  (* what is pending is ack-eliciting *)
  g_probes : Z;            (* spaces[space_id].loss_probes *)
  g_antiamp : bool;        (* path.anti_amplification_blocked(segment_size * num_datagrams + 1) *)
  g_in_flight : Z;         (* path.in_flight.bytes *)
  g_bytes : Z;             (* bytes_to_send = segment_size + untracked_bytes *)
  g_window : Z;            (* path.congestion.window() *)
  g_delay : option Z       (* path.pacing.delay(...) *)
}.

Definition gate (g : gate_in) : verdict :=
  if negb (g_can_send g) then NothingToSend
  else if g_antiamp g then BlockedAntiAmp
  else if g_ack_eliciting g && negb (g_close g) && (g_probes g =? 0) then
    if g_window g <=? g_in_flight g + g_bytes g then BlockedCongestion
    else match g_delay g with
         | Some d => BlockedPacing d
         | None => Sends
         end
  else Sends.

(** "Allocate space for another datagram": a datagram started while probes are pending consumes one. *)
Definition probes_after (g : gate_in) : Z :=
  match gate g with
  | Sends => if 0 <? g_probes g then g_probes g - 1 else g_probes g
  | _ => g_probes g
  end.

(** [Timer::Pacing] after the attempt, given its previous value. *)
Definition pacing_after (g : gate_in) (prev : option Z) : option Z :=
  match gate g with
  | BlockedPacing d => Some d
  | _ => prev
  end.

(** The variant of the gate that a mutant ("apply the congestion gate also when loss probes are
    pending") would compute; used only to show that the theorem distinguishes the two. *)
Definition gate_no_probe_exemption (g : gate_in) : verdict :=
  if negb (g_can_send g) then NothingToSend
  else if g_antiamp g then BlockedAntiAmp
  else if g_ack_eliciting g && negb (g_close g) then
    if g_window g <=? g_in_flight g + g_bytes g then BlockedCongestion
    else match g_delay g with Some d => BlockedPacing d | None => Sends end
  else Sends.
