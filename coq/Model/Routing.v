(** Model of datagram routing in quinn-proto/src/endpoint.rs — definitions only.

    What is modelled: [ConnectionIndex] (its five maps and [insert_initial_incoming],
    [remove_initial], [insert_initial], [insert_conn], [retire], [remove], [get]),
    [ResetTokenTable], [ConnectionMeta], the [connections] slab (LIFO reuse of vacant slots, as in
    the [slab] crate), the pending [Incoming]s with their buffer accounting, [new_cid] (uniqueness
    loop over an oracle stream of generated CIDs), [cids_exhausted], and the call sequences of
    [Endpoint::connect], [handle] / [handle_first_packet], [accept], [refuse]/[ignore],
    [handle_event] ([NeedIdentifiers], [RetireConnectionId], [ResetToken], [Drained]).

    Keys of all maps are [list Z]: a CID is its bytes, a remote address [r] is [[r]], a four-tuple
    is [[r; l]] ([l = 0]: no local address), a reset-token entry is [[r; t]], a handle is [[ch]].
    The hook ([verif_hooks/routing.rs]) documents the operation encoding.

    [variant]: the two repairs made to the code (see Props/C09.v) can be switched off, giving the
    model of the code as it was; [run] is the model of the current (repaired) tree. *)
From Coq Require Import ZArith List Bool.
From QV Require Import Lib.Corr.
Import ListNotations.
Open Scope Z_scope.

Definition key := list Z.
Definition amap (V : Type) := list (key * V).

Fixpoint lookup {V} (k : key) (m : amap V) : option V :=
  match m with
  | [] => None
  | (k', v) :: m' => if lz_eqb k k' then Some v else lookup k m'
  end.

Fixpoint remove {V} (k : key) (m : amap V) : amap V :=
  match m with
  | [] => []
  | (k', v) :: m' => if lz_eqb k k' then remove k m' else (k', v) :: remove k m'
  end.

Definition insert {V} (k : key) (v : V) (m : amap V) : amap V := (k, v) :: remove k m.

Definition mem {V} (k : key) (m : amap V) : bool :=
  match lookup k m with Some _ => true | None => false end.

Definition size {V} (m : amap V) : Z := Z.of_nat (length m).

(** Remove [k] only while it still maps to [ch] (the repaired [ConnectionIndex::remove]). *)
Definition remove_if (k : key) (ch : Z) (m : amap Z) : amap Z :=
  match lookup k m with
  | Some c => if c =? ch then remove k m else m
  | None => m
  end.

Definition is_nil (k : key) : bool := match k with [] => true | _ => false end.

Inductive route := RInc (k : Z) | RConn (ch : Z).

(** [ConnectionMeta]; [m_inc] is a ghost: the incarnation number of the slot's occupant. *)
Record meta := mkMeta {
  m_inc : Z;
  m_init : key;
  m_issued : Z;
  m_loc : amap key;          (* [[seq]] -> cid *)
  m_remote : Z;
  m_local : Z;
  m_server : bool;
  m_tok : option (Z * Z);    (* (remote, token) *)
}.

Record incoming := mkInc {
  i_dcid : key;
  i_remote : Z;
  i_local : Z;
  i_bad : Z;
  i_bytes : Z;
}.

Record variant := mkVariant {
  v_guard : bool;     (* [remove]/token replacement only delete entries still owned by the connection *)
  v_cleanup : bool;   (* [connect] forgets the CID again when the crypto session cannot be started *)
}.

Record st := mkSt {
  s_len : Z;                  (* local CID length of the endpoint's generator *)
  s_pref : bool;              (* server config has a preferred address *)
  s_init : amap route;        (* connection_ids_initial *)
  s_ids : amap Z;             (* connection_ids *)
  s_in : amap Z;              (* incoming_connection_remotes *)
  s_out : amap Z;             (* outgoing_connection_remotes *)
  s_tok : amap Z;             (* connection_reset_tokens *)
  s_conns : amap meta;        (* occupied slab slots, key [[ch]] *)
  s_free : list Z;            (* vacant slab slots, most recently vacated first *)
  s_hwm : Z;                  (* number of slab entries ever allocated *)
  s_incs : amap incoming;     (* pending Incomings, key [[k]] (k-th created) *)
  s_nincs : Z;
  s_buf : Z;                  (* all_incoming_buffers_total_bytes *)
  s_epoch : Z;                (* ghost: connections created so far *)
}.

Definition init_st (len : Z) (pref : bool) : st :=
  mkSt len pref [] [] [] [] [] [] [] 0 [] 0 0 0.

Definition set_init (s : st) v := mkSt (s_len s) (s_pref s) v (s_ids s) (s_in s) (s_out s) (s_tok s) (s_conns s) (s_free s) (s_hwm s) (s_incs s) (s_nincs s) (s_buf s) (s_epoch s).
Definition set_ids (s : st) v := mkSt (s_len s) (s_pref s) (s_init s) v (s_in s) (s_out s) (s_tok s) (s_conns s) (s_free s) (s_hwm s) (s_incs s) (s_nincs s) (s_buf s) (s_epoch s).
Definition set_in (s : st) v := mkSt (s_len s) (s_pref s) (s_init s) (s_ids s) v (s_out s) (s_tok s) (s_conns s) (s_free s) (s_hwm s) (s_incs s) (s_nincs s) (s_buf s) (s_epoch s).
Definition set_out (s : st) v := mkSt (s_len s) (s_pref s) (s_init s) (s_ids s) (s_in s) v (s_tok s) (s_conns s) (s_free s) (s_hwm s) (s_incs s) (s_nincs s) (s_buf s) (s_epoch s).
Definition set_tok (s : st) v := mkSt (s_len s) (s_pref s) (s_init s) (s_ids s) (s_in s) (s_out s) v (s_conns s) (s_free s) (s_hwm s) (s_incs s) (s_nincs s) (s_buf s) (s_epoch s).
Definition set_conns (s : st) v := mkSt (s_len s) (s_pref s) (s_init s) (s_ids s) (s_in s) (s_out s) (s_tok s) v (s_free s) (s_hwm s) (s_incs s) (s_nincs s) (s_buf s) (s_epoch s).
Definition set_incs (s : st) v n b := mkSt (s_len s) (s_pref s) (s_init s) (s_ids s) (s_in s) (s_out s) (s_tok s) (s_conns s) (s_free s) (s_hwm s) v n b (s_epoch s).

(** ** The slab *)
Definition vacant_key (s : st) : Z :=
  match s_free s with k :: _ => k | [] => s_hwm s end.

(** [Slab::insert] at the vacant key; also advances the ghost epoch. *)
Definition slab_insert (s : st) (m : meta) : st :=
  let ch := vacant_key s in
  match s_free s with
  | _ :: f => mkSt (s_len s) (s_pref s) (s_init s) (s_ids s) (s_in s) (s_out s) (s_tok s)
                   (insert [ch] m (s_conns s)) f (s_hwm s) (s_incs s) (s_nincs s) (s_buf s) (s_epoch s + 1)
  | [] => mkSt (s_len s) (s_pref s) (s_init s) (s_ids s) (s_in s) (s_out s) (s_tok s)
               (insert [ch] m (s_conns s)) [] (s_hwm s + 1) (s_incs s) (s_nincs s) (s_buf s) (s_epoch s + 1)
  end.

(** [Slab::try_remove]. *)
Definition slab_remove (s : st) (ch : Z) : option (meta * st) :=
  match lookup [ch] (s_conns s) with
  | Some m => Some (m, mkSt (s_len s) (s_pref s) (s_init s) (s_ids s) (s_in s) (s_out s) (s_tok s)
                           (remove [ch] (s_conns s)) (ch :: s_free s) (s_hwm s) (s_incs s) (s_nincs s)
                           (s_buf s) (s_epoch s))
  | None => None
  end.

Definition update_conn (s : st) (ch : Z) (m : meta) : st := set_conns s (insert [ch] m (s_conns s)).

(** ** CID generation *)
Fixpoint chunks (fuel n : nat) (l : list Z) : list key :=
  match fuel with
  | O => []
  | S f => match l with [] => [] | _ => firstn n l :: chunks f n (skipn n l) end
  end.

(** [ncand :: bytes] -> the candidate CIDs of this op. *)
Definition parse_cands (len : Z) (rest : list Z) : option (list key) :=
  match rest with
  | [] => None
  | n :: bytes =>
      if (0 <=? n) && (Z.of_nat (length bytes) =? n * len)
      then Some (if len =? 0 then [] else chunks (length bytes) (Z.to_nat len) bytes)
      else None
  end.

Definition DRY : key -> list key := fun c => repeat c 64.

(** What the oracle generator returns during one op: the candidates, then 64 times the all-0xEE
    CID; one more call panics (the hook's bound on the [new_cid] loop). *)
Definition stream (len : Z) (cands : list key) : list key :=
  cands ++ DRY (repeat 238 (Z.to_nat len)).

(** [Endpoint::new_cid]: first generated CID that is vacant in [connection_ids]; [None] = the
    loop does not terminate on this stream. *)
Fixpoint first_vacant (ids : amap Z) (str : list key) : option (key * list key) :=
  match str with
  | [] => None
  | c :: rest => if mem c ids then first_vacant ids rest else Some (c, rest)
  end.

Definition new_cid (s : st) (ch : Z) (str : list key) : option (key * st * list key) :=
  if s_len s =? 0 then Some ([], s, str)
  else match first_vacant (s_ids s) str with
       | Some (c, rest) => Some (c, set_ids s (insert c ch (s_ids s)), rest)
       | None => None
       end.

Definition cids_exhausted (s : st) : bool :=
  if (s_len s =? 0) || (4 <? s_len s) then false
  else let space := 256 ^ s_len s in space - space / 4 <? size (s_ids s).

(** ** ConnectionIndex *)
Definition remove_initial (s : st) (dcid : key) : option st :=
  if is_nil dcid then Some s
  else if mem dcid (s_init s) then Some (set_init s (remove dcid (s_init s)))
  else None.   (* debug_assert!(removed.is_some()) *)

Definition insert_initial (s : st) (dcid : key) (r : route) : st :=
  if is_nil dcid then s else set_init s (insert dcid r (s_init s)).

Definition insert_conn (s : st) (r l : Z) (cid : key) (ch : Z) (server : bool) : st :=
  if is_nil cid then
    if server then set_in s (insert [r; l] ch (s_in s)) else set_out s (insert [r] ch (s_out s))
  else set_ids s (insert cid ch (s_ids s)).

Fixpoint remove_all (ks : list key) (m : amap Z) : amap Z :=
  match ks with [] => m | k :: ks' => remove_all ks' (remove k m) end.

Definition tok_key (rt : Z * Z) : key := [fst rt; snd rt].

Definition tok_remove (v : variant) (rt : Z * Z) (ch : Z) (m : amap Z) : amap Z :=
  if v_guard v then remove_if (tok_key rt) ch m else remove (tok_key rt) m.

(** [ConnectionIndex::remove(conn)] ([ch] is used by the repaired code only). *)
Definition index_remove (v : variant) (s : st) (ch : Z) (m : meta) : option st :=
  match (if m_server m then remove_initial s (m_init m) else Some s) with
  | None => None
  | Some s1 =>
      let s2 := set_ids s1 (remove_all (map snd (m_loc m)) (s_ids s1)) in
      let s3 := set_in s2 (if v_guard v then remove_if [m_remote m; m_local m] ch (s_in s2)
                           else remove [m_remote m; m_local m] (s_in s2)) in
      let s4 := set_out s3 (if v_guard v then remove_if [m_remote m] ch (s_out s3)
                            else remove [m_remote m] (s_out s3)) in
      Some (match m_tok m with
            | Some rt => set_tok s4 (tok_remove v rt ch (s_tok s4))
            | None => s4
            end)
  end.

(** [ConnectionIndex::get]; [kind]: 0 short header, 1 Initial, 2 0-RTT, 3 Handshake. *)
Definition get (s : st) (kind r l t : Z) (dcid : key) : option route :=
  match (if is_nil dcid then None else lookup dcid (s_ids s)) with
  | Some ch => Some (RConn ch)
  | None =>
      match (if (kind =? 1) || (kind =? 2) then lookup dcid (s_init s) else None) with
      | Some rt => Some rt
      | None =>
          match (if is_nil dcid then
                   match lookup [r; l] (s_in s) with
                   | Some ch => Some ch
                   | None => lookup [r] (s_out s)
                   end
                 else None) with
          | Some ch => Some (RConn ch)
          | None =>
              match lookup [r; t] (s_tok s) with
              | Some ch => Some (RConn ch)
              | None => None
              end
          end
      end
  end.

(** ** Endpoint operations.  Result [None] = the implementation panics. *)
Definition res := option (st * list Z).

Definition INC_BUF : Z := 10485760.
Definition INC_BUF_TOTAL : Z := 104857600.
Definition MIN_INITIAL : Z := 1200.

(** [add_connection] after the CIDs were generated. *)
Definition add_connection (s : st) (ch : Z) (init : key) (locs : amap key) (issued : Z)
           (loc : key) (r l : Z) (server : bool) : st :=
  let m := mkMeta (s_epoch s) init issued locs r l server None in
  insert_conn (slab_insert s m) r l loc ch server.

Definition do_drained (v : variant) (s : st) (ch : Z) : option st :=
  match slab_remove s ch with
  | Some (m, s1) => index_remove v s1 ch m
  | None => Some s
  end.

Definition op_connect (v : variant) (s : st) (r fail : Z) (cands : list key) : res :=
  if cids_exhausted s then Some (s, [1; 1])
  else if r =? 0 then Some (s, [1; 2])
  else
    let ch := vacant_key s in
    match new_cid s ch (stream (s_len s) cands) with
    | None => None
    | Some (loc, s1, _) =>
        if negb (fail =? 0) then
          Some (if v_cleanup v then set_ids s1 (remove loc (s_ids s1)) else s1, [1; 4])
        else
          Some (add_connection s1 ch (repeat 193 8) [([0], loc)] 1 loc r 0 false, [0; ch])
    end.

Definition datagram_len (kind bad : Z) : Z :=
  if kind =? 0 then 100 else if (kind =? 1) && (bad =? 2) then 600 else MIN_INITIAL.

Definition op_datagram (s : st) (kind r l t bad : Z) (dcid : key) : res :=
  let len := datagram_len kind bad in
  match get s kind r l t dcid with
  | Some (RConn ch) => Some (s, [1; ch])
  | Some (RInc k) =>
      match lookup [k] (s_incs s) with
      | None => None   (* incoming_buffers[idx] on a vacant slot *)
      | Some i =>
          if (i_bytes i + len <=? INC_BUF) && (s_buf s + len <=? INC_BUF_TOTAL) then
            let i' := mkInc (i_dcid i) (i_remote i) (i_local i) (i_bad i) (i_bytes i + len) in
            let s' := set_incs s (insert [k] i' (s_incs s)) (s_nincs s) (s_buf s + len) in
            Some (s', [0; s_buf s'])
          else Some (s, [0; s_buf s])
      end
  | None =>
      if kind =? 1 then
        if len <? MIN_INITIAL then Some (s, [0; s_buf s])
        else if cids_exhausted s then Some (s, [0; s_buf s])
        else if Z.of_nat (length dcid) <? 8 then Some (s, [3; 1])
        else
          let k := s_nincs s in
          let s1 := set_incs s (insert [k] (mkInc dcid r l bad 0) (s_incs s)) (k + 1) (s_buf s) in
          Some (insert_initial s1 dcid (RInc k), [2; k])
      else if negb (kind =? 0) then Some (s, [0; s_buf s])
      else if is_nil dcid then Some (s, [0; s_buf s])
      else Some (s, [3; 0])
  end.

Definition op_accept (v : variant) (s : st) (k stale : Z) (cands : list key) : res :=
  match lookup [k] (s_incs s) with
  | None => Some (s, [-1])
  | Some i =>
      let s0 := set_incs s (remove [k] (s_incs s)) (s_nincs s) (s_buf s - i_bytes i) in
      if negb (stale =? 0) then
        match remove_initial s0 (i_dcid i) with Some s1 => Some (s1, [1; 1]) | None => None end
      else if cids_exhausted s0 then
        match remove_initial s0 (i_dcid i) with Some s1 => Some (s1, [1; 2]) | None => None end
      else
        let ch := vacant_key s0 in
        match new_cid s0 ch (stream (s_len s) cands) with
        | None => None
        | Some (loc, s1, str1) =>
            match (if s_pref s then
                     match new_cid s1 ch str1 with
                     | Some (c2, s2, _) => Some (s2, [([1], c2); ([0], loc)], 2)
                     | None => None
                     end
                   else Some (s1, [([0], loc)], 1)) with
            | None => None
            | Some (s2, locs, issued) =>
                let s3 := add_connection s2 ch (i_dcid i) locs issued loc (i_remote i) (i_local i) true in
                let s4 := insert_initial s3 (i_dcid i) (RConn ch) in
                if i_bad i =? 1 then
                  match do_drained v s4 ch with Some s5 => Some (s5, [1; 3]) | None => None end
                else Some (s4, [0; ch])
            end
        end
  end.

Definition op_reject (s : st) (k : Z) : res :=
  match lookup [k] (s_incs s) with
  | None => Some (s, [-1])
  | Some i =>
      match remove_initial s (i_dcid i) with
      | None => None
      | Some s1 => Some (set_incs s1 (remove [k] (s_incs s1)) (s_nincs s1) (s_buf s1 - i_bytes i), [0])
      end
  end.

(** [send_new_identifiers]: output is [seq :: cid] per issued CID, concatenated. *)
Fixpoint issue (s : st) (ch : Z) (n : nat) (str : list key) : option (st * list Z) :=
  match n with
  | O => Some (s, [])
  | S n' =>
      match new_cid s ch str with
      | None => None
      | Some (c, s1, str1) =>
          match lookup [ch] (s_conns s1) with
          | None => None   (* self.connections[ch] *)
          | Some m =>
              let seq := m_issued m in
              let m' := mkMeta (m_inc m) (m_init m) (seq + 1) (insert [seq] c (m_loc m))
                               (m_remote m) (m_local m) (m_server m) (m_tok m) in
              match issue (update_conn s1 ch m') ch n' str1 with
              | None => None
              | Some (s2, o) => Some (s2, (seq :: c) ++ o)
              end
          end
      end
  end.

Definition op_issue (s : st) (ch n : Z) (cands : list key) : res :=
  match issue s ch (Z.to_nat n) (stream (s_len s) cands) with
  | None => None
  | Some (s1, o) => Some (s1, 0 :: n :: o)
  end.

Definition op_retire (s : st) (ch seq allow : Z) (cands : list key) : res :=
  match lookup [ch] (s_conns s) with
  | None => None
  | Some m =>
      match lookup [seq] (m_loc m) with
      | None => Some (s, [0])
      | Some c =>
          let m' := mkMeta (m_inc m) (m_init m) (m_issued m) (remove [seq] (m_loc m))
                           (m_remote m) (m_local m) (m_server m) (m_tok m) in
          let s1 := update_conn s ch m' in
          let s2 := set_ids s1 (remove c (s_ids s1)) in
          if negb (allow =? 0) then
            match issue s2 ch 1 (stream (s_len s) cands) with
            | None => None
            | Some (s3, o) => Some (s3, 1 :: o)
            end
          else Some (s2, [0])
      end
  end.

Definition op_token (v : variant) (s : st) (ch r t : Z) : res :=
  match lookup [ch] (s_conns s) with
  | None => None
  | Some m =>
      let m' := mkMeta (m_inc m) (m_init m) (m_issued m) (m_loc m) (m_remote m) (m_local m)
                       (m_server m) (Some (r, t)) in
      let s1 := update_conn s ch m' in
      let s2 := match m_tok m with
                | Some old => set_tok s1 (tok_remove v old ch (s_tok s1))
                | None => s1
                end in
      Some (set_tok s2 (insert [r; t] ch (s_tok s2)), [0])
  end.

Definition op_drained (v : variant) (s : st) (ch : Z) : res :=
  match do_drained v s ch with
  | None => None
  | Some s1 => Some (s1, [0; size (s_conns s1)])
  end.

Definition in_range (lo hi x : Z) : bool := (lo <=? x) && (x <=? hi).

(** One operation on an existing endpoint. *)
Definition step_v (v : variant) (s : st) (op : list Z) : res :=
  let bad := Some (s, [-1]) in
  match op with
  | [] => bad
  | opc :: args =>
      if opc =? 1 then
        match args with
        | r :: fail :: rest =>
            match parse_cands (s_len s) rest with
            | Some cands => op_connect v s r fail cands
            | None => bad
            end
        | _ => bad
        end
      else if opc =? 2 then
        match args with
        | kind :: r :: l :: t :: b :: dlen :: dcid =>
            if in_range 0 3 kind && in_range 0 20 dlen && (Z.of_nat (length dcid) =? dlen)
               && ((negb (kind =? 0)) || (dlen =? s_len s))
            then op_datagram s kind r l t b dcid else bad
        | _ => bad
        end
      else if opc =? 3 then
        match args with
        | k :: stale :: rest =>
            match parse_cands (s_len s) rest with
            | Some cands => op_accept v s k stale cands
            | None => bad
            end
        | _ => bad
        end
      else if opc =? 4 then
        match args with
        | [k; _] => op_reject s k
        | _ => bad
        end
      else if opc =? 5 then
        match args with
        | ch :: n :: rest =>
            match parse_cands (s_len s) rest with
            | Some cands => if (0 <=? ch) && in_range 0 64 n then op_issue s ch n cands else bad
            | None => bad
            end
        | _ => bad
        end
      else if opc =? 6 then
        match args with
        | ch :: seq :: allow :: rest =>
            match parse_cands (s_len s) rest with
            | Some cands => if (0 <=? ch) && (0 <=? seq) then op_retire s ch seq allow cands else bad
            | None => bad
            end
        | _ => bad
        end
      else if opc =? 7 then
        match args with
        | [ch; r; t] => if 0 <=? ch then op_token v s ch r t else bad
        | _ => bad
        end
      else if opc =? 8 then
        match args with
        | [ch] => if 0 <=? ch then op_drained v s ch else bad
        | _ => bad
        end
      else bad
  end.

(** The interpreter of the hook: op 0 creates the endpoint. *)
Inductive sim := NoEp | Ep (s : st) | Panicked.

Definition sim_step (v : variant) (x : sim) (op : list Z) : sim * list Z :=
  match x with
  | Panicked => (Panicked, [])
  | _ =>
      match op with
      | [] => (x, [-1])
      | 0 :: args =>
          match args with
          | [len; pref] =>
              if in_range 0 20 len then (Ep (init_st len (negb (pref =? 0))), [0]) else (x, [-1])
          | _ => (x, [-1])
          end
      | _ =>
          match x with
          | Ep s => match step_v v s op with
                    | Some (s', o) => (Ep s', o)
                    | None => (Panicked, [])
                    end
          | _ => (x, [-1])
          end
      end
  end.

Fixpoint sim_run (v : variant) (x : sim) (i : ops) : sim * outs :=
  match i with
  | [] => (x, [])
  | op :: i' =>
      let '(x1, o) := sim_step v x op in
      let '(x2, os) := sim_run v x1 i' in
      (x2, o :: os)
  end.

Definition run_v (v : variant) (i : ops) : outs :=
  match sim_run v NoEp i with
  | (Panicked, _) => [PANIC]
  | (_, o) => o
  end.

Definition fixed : variant := mkVariant true true.
Definition original : variant := mkVariant false false.

Definition run : ops -> outs := run_v fixed.
Definition run_orig : ops -> outs := run_v original.
Definition step := step_v fixed.

(** * The correspondence oracle: an independent ownership ledger

    Written against the operations and the IMPLEMENTATION's outputs only.  The ledger is the
    history of ownership events, newest first; who owns a CID / initial DCID / address tuple /
    reset token *now* is read off the history ("the most recent grant, unless its holder has
    since given it up"), and every routing result must agree with it. *)
Inductive event :=
| EAssign (ch seq : Z) (c : key)       (* CID [c] issued to [ch] under sequence number [seq] *)
| ERetire (ch seq : Z)
| ECreate (ch : Z) (server : bool) (r l : Z) (init : key)
| EDrain (ch : Z)
| EInc (k : Z) (dcid : key)            (* Incoming [k] created for initial DCID [dcid] *)
| EIncDone (k : Z)
| ETok (ch r t : Z).

Definition zmem (x : Z) (l : list Z) : bool := existsb (Z.eqb x) l.
Definition zzmem (x y : Z) (l : list (Z * Z)) : bool :=
  existsb (fun p => (fst p =? x) && (snd p =? y)) l.

(** Scan newest-first; [dead]: handles drained since, [ret]: (ch, seq) retired since. *)
Fixpoint cid_owner (c : key) (dead : list Z) (ret : list (Z * Z)) (h : list event) : option Z :=
  match h with
  | [] => None
  | EAssign ch seq c' :: h' =>
      if lz_eqb c c' then (if zmem ch dead || zzmem ch seq ret then None else Some ch)
      else cid_owner c dead ret h'
  | ERetire ch seq :: h' => cid_owner c dead ((ch, seq) :: ret) h'
  | EDrain ch :: h' => cid_owner c (ch :: dead) ret h'
  | _ :: h' => cid_owner c dead ret h'
  end.

Fixpoint init_owner (x : key) (dead done : list Z) (h : list event) : option route :=
  match h with
  | [] => None
  | ECreate ch true _ _ x' :: h' =>
      if lz_eqb x x' then (if zmem ch dead then None else Some (RConn ch))
      else init_owner x dead done h'
  | EInc k x' :: h' =>
      if lz_eqb x x' then (if zmem k done then None else Some (RInc k))
      else init_owner x dead done h'
  | EDrain ch :: h' => init_owner x (ch :: dead) done h'
  | EIncDone k :: h' => init_owner x dead (k :: done) h'
  | _ :: h' => init_owner x dead done h'
  end.

(** The most recent zero-length-CID connection that claimed the tuple, while it is alive. *)
Fixpoint tuple_owner (server : bool) (r l : Z) (dead : list Z) (h : list event) : option Z :=
  match h with
  | [] => None
  | ECreate ch sv r' l' _ :: h' =>
      if Bool.eqb sv server && (r =? r') && (server && (l =? l') || negb server)
      then (if zmem ch dead then None else Some ch)
      else tuple_owner server r l dead h'
  | EDrain ch :: h' => tuple_owner server r l (ch :: dead) h'
  | _ :: h' => tuple_owner server r l dead h'
  end.

(** The most recent registrant of (r, t), unless it drained or registered another token since. *)
Fixpoint tok_owner (r t : Z) (gone : list Z) (h : list event) : option Z :=
  match h with
  | [] => None
  | ETok ch r' t' :: h' =>
      if (r =? r') && (t =? t') then (if zmem ch gone then None else Some ch)
      else tok_owner r t (ch :: gone) h'
  | EDrain ch :: h' => tok_owner r t (ch :: gone) h'
  | _ :: h' => tok_owner r t gone h'
  end.

Fixpoint alive (ch : Z) (h : list event) : bool :=
  match h with
  | [] => false
  | ECreate ch' _ _ _ _ :: h' => if ch =? ch' then true else alive ch h'
  | EDrain ch' :: h' => if ch =? ch' then false else alive ch h'
  | _ :: h' => alive ch h'
  end.

Fixpoint pending (k : Z) (h : list event) : option key :=
  match h with
  | [] => None
  | EInc k' d :: h' => if k =? k' then Some d else pending k h'
  | EIncDone k' :: h' => if k =? k' then None else pending k h'
  | _ :: h' => pending k h'
  end.

(** Who must receive a datagram, by ownership. *)
Definition owner (len : Z) (h : list event) (kind r l t : Z) (dcid : key) : option route :=
  match (if is_nil dcid then None else cid_owner dcid [] [] h) with
  | Some ch => Some (RConn ch)
  | None =>
      match (if ((kind =? 1) || (kind =? 2)) && negb (is_nil dcid) then init_owner dcid [] [] h else None) with
      | Some x => Some x
      | None =>
          match (if is_nil dcid && (len =? 0) then
                   match tuple_owner true r l [] h with
                   | Some ch => Some ch
                   | None => tuple_owner false r 0 [] h
                   end
                 else None) with
          | Some ch => Some (RConn ch)
          | None => match tok_owner r t [] h with Some ch => Some (RConn ch) | None => None end
          end
      end
  end.

(** First candidate nobody owns: the CID a correct [new_cid] must pick. *)
Fixpoint first_unowned (h : list event) (str : list key) : option key :=
  match str with
  | [] => None
  | c :: rest => match cid_owner c [] [] h with Some _ => first_unowned h rest | None => Some c end
  end.

(** [seq :: cid] groups of an issue output. *)
Fixpoint split_issued (fuel : nat) (n : nat) (o : list Z) : option (list (Z * key)) :=
  match fuel with
  | O => match o with [] => Some [] | _ => None end
  | S f =>
      match o with
      | [] => Some []
      | seq :: rest =>
          if Nat.ltb (length rest) n then None
          else match split_issued f n (skipn n rest) with
               | Some tl => Some ((seq, firstn n rest) :: tl)
               | None => None
               end
      end
  end.

(** Issued CIDs must be fresh (unowned) candidates of the op; returns the extended history. *)
Fixpoint log_issued (len : Z) (h : list event) (ch : Z) (str : list key) (l : list (Z * key))
  : option (list event) :=
  match l with
  | [] => Some h
  | (seq, c) :: l' =>
      if (len =? 0) then log_issued len (EAssign ch seq c :: h) ch str l'
      else
        match cid_owner c [] [] h with
        | Some _ => None
        | None =>
            if existsb (lz_eqb c) str
            then log_issued len (EAssign ch seq c :: h) ch str l'
            else None
        end
  end.

Record ledger := mkLedger {
  g_len : Z;
  g_pref : bool;
  g_hist : list event;
  g_incs : amap (Z * Z);    (* pending Incoming k -> its tuple *)
  g_bad : amap Z;           (* Incoming k -> bad flag of the creating datagram *)
}.

Definition with_hist (g : ledger) (h : list event) : ledger :=
  mkLedger (g_len g) (g_pref g) h (g_incs g) (g_bad g).

(** One op against the ledger: [None] = the implementation's output contradicts ownership. *)
Definition oracle_step (g : ledger) (op out : list Z) : option ledger :=
  let h := g_hist g in
  let len := g_len g in
  match op with
  | 1 :: r :: fail :: rest =>
      match parse_cands len rest, out with
      | Some cands, [0; ch] =>
          if alive ch h then None     (* a handle is never shared by two live connections *)
          else
            let h1 := ECreate ch false r 0 [] :: h in
            if len =? 0 then Some (with_hist g (EAssign ch 0 [] :: h1))
            else match first_unowned h (stream len cands) with
                 | Some c => Some (with_hist g (EAssign ch 0 c :: h1))
                 | None => None
                 end
      | Some _, [1; _] => Some g
      | None, [-1] => Some g
      | _, _ => None
      end
  | 2 :: kind :: r :: l :: t :: b :: dlen :: dcid =>
      match out with
      | [-1] => Some g
      | _ =>
          match owner len h kind r l t dcid, out with
          | Some (RConn ch), [1; ch'] => if ch =? ch' then Some g else None
          | Some (RInc _), [0; _] => Some g
          | None, [0; _] => Some g
          | None, [3; _] => Some g
          | None, [2; k] =>
              if kind =? 1 then
                Some (mkLedger len (g_pref g) (EInc k dcid :: h) (insert [k] (r, l) (g_incs g))
                               (insert [k] b (g_bad g)))
              else None
          | _, _ => None
          end
      end
  | 3 :: k :: stale :: rest =>
      match parse_cands len rest, out with
      | Some cands, [0; ch] =>
          match pending k h, lookup [k] (g_incs g) with
          | Some d, Some (r, l) =>
              if alive ch h then None
              else
                let h1 := ECreate ch true r l d :: EIncDone k :: h in
                if len =? 0 then Some (with_hist g (EAssign ch 0 [] :: h1))
                else
                  match first_unowned h (stream len cands) with
                  | None => None
                  | Some c =>
                      let h2 := EAssign ch 0 c :: h1 in
                      if g_pref g then
                        match first_unowned h2 (stream len cands) with
                        | Some c2 => Some (with_hist g (EAssign ch 1 c2 :: h2))
                        | None => None
                        end
                      else Some (with_hist g h2)
                  end
          | _, _ => None
          end
      | Some _, [1; e] =>
          match pending k h with
          | Some d =>
              if e =? 3 then
                (* the connection existed for a moment (first packet rejected, then Drained): it
                   was the last claimant of its tuple and initial DCID; ghost handle [-1 - k] *)
                match lookup [k] (g_incs g) with
                | Some (r, l) =>
                    Some (with_hist g (EDrain (-1 - k) :: ECreate (-1 - k) true r l d :: EIncDone k :: h))
                | None => None
                end
              else Some (with_hist g (EIncDone k :: h))
          | None => None
          end
      | _, [-1] => Some g
      | _, _ => None
      end
  | [4; k; _] =>
      match out with
      | [0] => match pending k h with Some _ => Some (with_hist g (EIncDone k :: h)) | None => None end
      | [-1] => Some g
      | _ => None
      end
  | 5 :: ch :: n :: rest =>
      match parse_cands len rest, out with
      | Some cands, 0 :: m :: o =>
          if negb (m =? n) then None
          else match split_issued (length o) (Z.to_nat len) o with
               | Some l =>
                   if Z.of_nat (length l) =? n then
                     match log_issued len h ch (stream len cands) l with
                     | Some h' => Some (with_hist g h')
                     | None => None
                     end
                   else None
               | None => None
               end
      | _, [-1] => Some g
      | _, _ => None
      end
  | 6 :: ch :: seq :: allow :: rest =>
      match parse_cands len rest, out with
      | Some _, [0] => Some (with_hist g (ERetire ch seq :: h))
      | Some cands, 1 :: o =>
          match split_issued (length o) (Z.to_nat len) o with
          | Some [(sq, c)] =>
              match log_issued len (ERetire ch seq :: h) ch (stream len cands) [(sq, c)] with
              | Some h' => Some (with_hist g h')
              | None => None
              end
          | _ => None
          end
      | _, [-1] => Some g
      | _, _ => None
      end
  | [7; ch; r; t] =>
      match out with
      | [0] => Some (with_hist g (ETok ch r t :: h))
      | [-1] => Some g
      | _ => None
      end
  | [8; ch] =>
      match out with
      | [0; _] => Some (with_hist g (if alive ch h then EDrain ch :: h else h))
      | [-1] => Some g
      | _ => None
      end
  | _ => match out with [-1] => Some g | _ => None end
  end.

Fixpoint oracle_run (g : option ledger) (i : ops) (o : outs) : bool :=
  match i, o with
  | [], [] => true
  | op :: i', out :: o' =>
      match op with
      | 0 :: args =>
          match args, out with
          | [len; pref], [0] => oracle_run (Some (mkLedger len (negb (pref =? 0)) [] [] [])) i' o'
          | _, [-1] => oracle_run g i' o'
          | _, _ => false
          end
      | _ =>
          match g with
          | None => match out with [-1] => oracle_run g i' o' | _ => false end
          | Some g0 =>
              match oracle_step g0 op out with
              | Some g1 => oracle_run (Some g1) i' o'
              | None => false
              end
          end
      end
  | _, _ => false
  end.

(** A case in which the implementation panicked is judged by model equality only. *)
Definition oracle (i : ops) (o : outs) : bool :=
  match o with
  | [[-999]] => true
  | _ => oracle_run None i o
  end.
