(** Model of quinn-proto/src/varint.rs (Codec for VarInt) — definitions only.
    Masks and shifts are written arithmetically: [(0b01 << 14) | x] with [x < 2^14] is
    [2^14 + x]; [buf[0] >> 6] is [/ 64]; [& 0x3f] is [mod 64]. *)
From Coq Require Import ZArith List Bool.
From QV Require Import Lib.Bytes Lib.Corr.
Import ListNotations.
Open Scope Z_scope.

Definition size (x : Z) : option Z :=
  if x <? 0 then None
  else if x <? 2 ^ 6 then Some 1
  else if x <? 2 ^ 14 then Some 2
  else if x <? 2 ^ 30 then Some 4
  else if x <? 2 ^ 62 then Some 8
  else None.

(** [VarInt::from_u64(x)] then [encode]; [None] when [x >= 2^62] (VarIntBoundsExceeded). *)
Definition encode (x : Z) : option (list Z) :=
  if x <? 0 then None
  else if x <? 2 ^ 6 then Some (be_bytes 1 x)
  else if x <? 2 ^ 14 then Some (be_bytes 2 (2 ^ 14 + x))
  else if x <? 2 ^ 30 then Some (be_bytes 4 (2 ^ 31 + x))
  else if x <? 2 ^ 62 then Some (be_bytes 8 (3 * 2 ^ 62 + x))
  else None.

(** Number of bytes following the first one, from the two tag bits. *)
Definition extra (tag : Z) : nat :=
  if tag =? 0 then 0%nat else if tag =? 1 then 1%nat else if tag =? 2 then 3%nat else 7%nat.

(** [VarInt::decode]: value and remaining input, or [None] (UnexpectedEnd). *)
Definition decode (bs : list Z) : option (Z * list Z) :=
  match bs with
  | [] => None
  | b0 :: r =>
      let n := extra (b0 / 64) in
      if Nat.ltb (length r) n then None
      else Some (be_val (firstn n r) (b0 mod 64), skipn n r)
  end.

(** Integer-encoded interface shared with the Rust hook [verif_hooks::codec::varint]. *)
Definition step (op : list Z) : list Z :=
  match op with
  | [0; x] => match encode x with Some b => 0 :: b | None => [1] end
  | 1 :: bs =>
      match decode bs with
      | Some (v, r) => [0; v; zlen bs - zlen r]
      | None => [1]
      end
  | [2; x] => match size x with Some s => [0; s] | None => [1] end
  | _ => [-1]
  end.

Definition run (i : ops) : outs := map step i.

(** Property oracle on implementation outputs: whatever bytes the implementation produced for
    [encode x] decode (by the model decoder) back to [x] consuming all of them, and have the
    announced size. *)
Definition oracle_step (op out : list Z) : bool :=
  match op, out with
  | [0; x], 0 :: b =>
      match decode b with
      | Some (v, []) => Z.eqb v x
      | _ => false
      end
  | [0; x], _ => negb ((0 <=? x) && (x <? 2 ^ 62))
  | _, _ => true
  end.

Fixpoint oracle (i : ops) (o : outs) : bool :=
  match i, o with
  | [], [] => true
  | a :: i', b :: o' => oracle_step a b && oracle i' o'
  | _, _ => false
  end.
