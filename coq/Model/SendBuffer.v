(** Model of quinn-proto/src/connection/send_buffer.rs — definitions only.

    [unacked_segments : VecDeque<Bytes>] is a list of byte lists; [acks] and [retransmits] are the
    BTree [RangeSet] model.  Arithmetic that panics in the Rust code (debug assertions, checked
    subtraction in the debug profile, [expect], slice indexing) yields [None]; [run] then returns
    [Corr.PANIC] for the whole case. *)
From Coq Require Import ZArith List Bool.
From QV Require Import Lib.Corr Lib.Bytes Lib.RangeSpec Model.RangeSet.
Import ListNotations.
Open Scope Z_scope.

Record t := mk {
  segs : list (list Z);
  unacked_len : Z;
  offset : Z;
  unsent : Z;
  acks : rmap;
  retransmits : rmap
}.

Definition init : t := mk [] 0 0 0 [] [].

Definition csub (a b : Z) : option Z := if b <=? a then Some (a - b) else None.
Definition U64_MAX : Z := 2 ^ 64 - 1.

Definition write (s : t) (d : list Z) : t :=
  mk (segs s ++ [d]) (unacked_len s + zlen d) (offset s + zlen d) (unsent s) (acks s)
     (retransmits s).

(** the inner [while to_advance > 0] loop of [ack]; [None] = [expect("Expected buffered data")] *)
Fixpoint advance (sg : list (list Z)) (n : Z) : option (list (list Z)) :=
  if n <=? 0 then Some sg
  else
    match sg with
    | [] => None
    | f :: r =>
        if zlen f <=? n then advance r (n - zlen f)
        else Some (skipn (Z.to_nat n) f :: r)
    end.

(** the outer [while self.acks.min() == Some(self.offset - self.unacked_len)] loop, structural on
    the ack map (each iteration pops its head) *)
Fixpoint ack_loop (a : rmap) (sg : list (list Z)) (ulen off : Z)
  : option (rmap * list (list Z) * Z) :=
  match a with
  | [] => Some ([], sg, ulen)
  | (s, e) :: r =>
      match csub off ulen with
      | None => None
      | Some base =>
          if s =? base then
            match csub e s with
            | None => None
            | Some adv =>
                match csub ulen adv, advance sg adv with
                | Some ulen', Some sg' => ack_loop r sg' ulen' off
                | _, _ => None
                end
            end
          else Some (a, sg, ulen)
      end
  end.

Definition ack (s : t) (rs re : Z) : option t :=
  match csub (offset s) (unacked_len s) with
  | None => None
  | Some base =>
      let rs' := Z.max base rs in
      let re' := Z.max base re in
      let a1 := snd (RangeSet.insert rs' re' (acks s)) in
      match ack_loop a1 (segs s) (unacked_len s) (offset s) with
      | None => None
      | Some (a2, sg, ulen) => Some (mk sg ulen (offset s) (unsent s) a2 (retransmits s))
      end
  end.

(** [VarInt::size]; [None] = panic("malformed VarInt") *)
Definition varint_size (x : Z) : option Z :=
  if x <? 2 ^ 6 then Some 1
  else if x <? 2 ^ 14 then Some 2
  else if x <? 2 ^ 30 then Some 4
  else if x <? 2 ^ 62 then Some 8
  else None.

(** the common arithmetic of both branches of [poll_transmit]: given the start of the range, the
    limit ([range.end] / [self.offset]) and [max_len], the end of the transmitted range and the
    [encode_length] flag *)
Definition budget (start limit max_len : Z) : option (Z * bool) :=
  match (if start =? 0 then Some max_len
         else match varint_size start with
              | Some sz => csub max_len sz
              | None => None
              end) with
  | None => None
  | Some m1 =>
      match csub limit start with
      | None => None
      | Some avail =>
          let enc := avail <? m1 in
          match (if enc then csub m1 8 else Some m1) with
          | None => None
          | Some m2 => Some (Z.min limit (Z.min U64_MAX (m2 + start)), enc)
          end
      end
  end.

Definition poll_transmit (s : t) (max_len : Z) : option (t * (Z * Z * bool)) :=
  if max_len <? 16 then None                                 (* debug_assert *)
  else
    match RangeSet.pop_min (retransmits s) with
    | (Some (rs, re), rt) =>
        match budget rs re max_len with
        | None => None
        | Some (e, enc) =>
            let rt' := if e =? re then rt else snd (RangeSet.insert e re rt) in
            Some (mk (segs s) (unacked_len s) (offset s) (unsent s) (acks s) rt', (rs, e, enc))
        end
    | (None, _) =>
        match budget (unsent s) (offset s) max_len with
        | None => None
        | Some (e, enc) =>
            Some (mk (segs s) (unacked_len s) (offset s) e (acks s) (retransmits s),
                  (unsent s, e, enc))
        end
    end.

(** [get]: scan of the segments; [None] = panic (subtraction overflow / slice index) *)
Fixpoint get_from (sg : list (list Z)) (seg_off gs ge : Z) : option (list Z) :=
  match sg with
  | [] => Some []
  | f :: r =>
      if (seg_off <=? gs) && (gs <? seg_off + zlen f) then
        let st := gs - seg_off in
        match csub ge seg_off with
        | None => None
        | Some en =>
            let en' := Z.min en (zlen f) in
            if en' <? st then None
            else Some (firstn (Z.to_nat (en' - st)) (skipn (Z.to_nat st) f))
        end
      else get_from r (seg_off + zlen f) gs ge
  end.

Definition get (s : t) (gs ge : Z) : option (list Z) :=
  match csub (offset s) (unacked_len s) with
  | None => None
  | Some base => get_from (segs s) base gs ge
  end.

(** the copy loop of [write_stream_frames]: [Some (data, true)] = the whole range was copied,
    [Some (data, false)] = [get] returned an empty slice while [start != end] (the real loop
    spins); fuel = number of segments + 1 (every non-empty [get] finishes a segment or the range) *)
Fixpoint copy_loop (fuel : nat) (s : t) (gs ge : Z) (acc : list Z) : option (list Z * bool) :=
  if gs =? ge then Some (acc, true)
  else
    match fuel with
    | O => Some (acc, false)
    | S f =>
        match get s gs ge with
        | None => None
        | Some [] => Some (acc, false)
        | Some d => copy_loop f s (gs + zlen d) ge (acc ++ d)
        end
    end.

Definition retransmit (s : t) (rs re : Z) : option t :=
  if unsent s <? re then None                                (* debug_assert *)
  else Some (mk (segs s) (unacked_len s) (offset s) (unsent s) (acks s)
                (snd (RangeSet.insert rs re (retransmits s)))).

Definition retransmit_all_for_0rtt (s : t) : option t :=
  if offset s =? unacked_len s
  then Some (mk (segs s) (unacked_len s) (offset s) 0 (acks s) (retransmits s))
  else None.                                                  (* debug_assert_eq *)

Definition range_sum (m : rmap) : Z := fold_left (fun acc '(s, e) => acc + (e - s)) m 0.

Definition unacked (s : t) : option Z := csub (unacked_len s) (range_sum (acks s)).

Definition probe (s : t) : list Z :=
  [unacked_len s; offset s; unsent s; Z.of_nat (length (segs s))] ++ map zlen (segs s) ++
  Z.of_nat (length (acks s)) :: flat (acks s) ++
  Z.of_nat (length (retransmits s)) :: flat (retransmits s).

Definition step (s : t) (op : list Z) : option (t * list Z) :=
  match op with
  | 0 :: d => Some (write s d, [0])
  | [1; max_len] =>
      match poll_transmit s max_len with
      | None => None
      | Some (s', (rs, re, enc)) =>
          match copy_loop (S (length (segs s'))) s' rs re [] with
          | None => None
          | Some (d, ok) => Some (s', (if ok then 0 else 2) :: rs :: re :: b2z enc :: d)
          end
      end
  | [2; rs; re] => match ack s rs re with Some s' => Some (s', [0]) | None => None end
  | [3; gs; ge] => match get s gs ge with Some d => Some (s, d) | None => None end
  | [4; rs; re] => match retransmit s rs re with Some s' => Some (s', [0]) | None => None end
  | [5] => match retransmit_all_for_0rtt s with Some s' => Some (s', [0]) | None => None end
  | [6] =>
      match unacked s with
      | None => None
      | Some u =>
          Some (s, [b2z (unacked_len s =? 0); u; offset s;
                    b2z (negb (unsent s =? offset s) ||
                         match retransmits s with [] => false | _ => true end)])
      end
  | [7] => Some (s, probe s)
  | _ => Some (s, [-1])
  end.

Fixpoint run_from (s : t) (i : ops) : option outs :=
  match i with
  | [] => Some []
  | op :: r =>
      match step s op with
      | None => None
      | Some (s', o) =>
          match run_from s' r with
          | None => None
          | Some os => Some (o :: os)
          end
      end
  end.

Definition run (i : ops) : outs :=
  match run_from init i with
  | Some o => o
  | None => [PANIC]
  end.

(* ---------------------------------------------------------------- property oracle *)
(** The oracle keeps its own bookkeeping from the ops and the IMPLEMENTATION's outputs only:
    [written] (concatenation of the writes), the set of in-flight offsets (a [RangeSpec] log:
    ranges returned by poll_transmit are added, acked / lost ranges removed) and the acked set.
    The environment is VALID while: max_len >= 16; ack(r) and retransmit(r) only for non-empty r
    wholly in flight; retransmit_all_for_0rtt only before any ack AND while no lost range is waiting
    for retransmission (its caller's situation: 0-RTT data is never acknowledged or declared lost
    before the restart), and it empties the in-flight set (all 0-RTT packets are discarded).
    With a lost range pending, the restart makes those bytes both "to retransmit" and "unsent" and
    they are handed out twice (harmless duplicate; Props/C01.v records it as the counterexample to
    the strict ownership invariant).  From the first invalid op on the oracle is vacuous.
    While valid it requires: no panic; every poll_transmit yields the whole range
    ([copy loop] not stuck), [0 <= start <= end <= length written], the data equals
    [slice written start (end - start)], the range was not in flight nor acked, its wire size fits
    [max_len]; [is_fully_acked, unacked, offset, has_unsent_data] agree with the bookkeeping
    (in particular every written byte is in flight, acknowledged, or still pending: none is forgotten). *)
Definition slice (l : list Z) (off len : Z) : list Z :=
  firstn (Z.to_nat len) (skipn (Z.to_nat off) l).

Definition total (c : list (Z * Z)) : Z := fold_left (fun acc '(s, e) => acc + (e - s)) c 0.

Definition vsize (x : Z) : Z :=
  if x <? 2 ^ 6 then 1 else if x <? 2 ^ 14 then 2 else if x <? 2 ^ 30 then 4 else 8.

Fixpoint oracle_from (written : list Z) (inflight acked lost : log) (i : ops) (o : outs) : bool :=
  match i, o with
  | [], [] => true
  | op :: i', out :: o' =>
      match op, out with
      | 0 :: d, _ => oracle_from (written ++ d) inflight acked lost i' o'
      | [1; max_len], tag :: rs :: re :: enc :: d =>
          if max_len <? 16 then true
          else
            (tag =? 0) && (0 <=? rs) && (rs <=? re) && (re <=? zlen written) &&
            lz_eqb d (slice written rs (re - rs)) &&
            negb (meets_range (canon inflight) rs re) && negb (meets_range (canon acked) rs re) &&
            (* the frame fits: offset varint (0 omitted) + optional 8-byte length + data *)
            ((if rs =? 0 then 0 else vsize rs) + (if enc =? 0 then 0 else 8) + (re - rs) <=? max_len) &&
            oracle_from written (if rs <? re then (true, rs, re) :: inflight else inflight) acked
                        (if rs <? re then (false, rs, re) :: lost else lost) i' o'
      | [2; rs; re], _ =>
          if (rs <? re) && contains_range (canon inflight) rs re
          then oracle_from written ((false, rs, re) :: inflight) ((true, rs, re) :: acked) lost i' o'
          else true
      | [4; rs; re], _ =>
          if (rs <? re) && contains_range (canon inflight) rs re
          then oracle_from written ((false, rs, re) :: inflight) acked ((true, rs, re) :: lost) i' o'
          else true
      | [5], _ =>
          match acked, canon lost with
          | [], [] => oracle_from written [] acked [] i' o'
          | _, _ => true
          end
      | [6], [fully; un; off; pending] =>
          let nacked := total (canon acked) in
          (off =? zlen written) && (un =? zlen written - nacked) &&
          (fully =? b2z (nacked =? zlen written)) &&
          (* no byte is forgotten: data is pending exactly when some written byte is neither
             in flight nor acknowledged *)
          (pending =? b2z (nacked + total (canon inflight) <? zlen written)) &&
          oracle_from written inflight acked lost i' o'
      | [3; _; _], _ => true            (* raw get with arbitrary arguments may panic: stop *)
      | _, _ => oracle_from written inflight acked lost i' o'
      end
  | op :: _, [] => false
  | [], _ :: _ => false
  end.

(** a panic is a violation unless the oracle reaches an invalid op first: the implementation's
    output for a panicking case is just [[-999]], so validity is decided on the ops alone by
    replaying the bookkeeping with the MODEL's poll_transmit ranges is not possible here; instead
    the generator marks cases that contain no invalid op with a leading [[8; 1]] op. *)
Definition declared_valid (i : ops) : bool :=
  match i with
  | [8; 1] :: _ => true
  | _ => false
  end.

Definition oracle (i : ops) (o : outs) : bool :=
  match o with
  | [[-999]] => negb (declared_valid i)
  | _ => oracle_from [] [] [] [] i o
  end.
