(** Model of [AckFrequencyState] (quinn-proto/src/connection/ack_frequency.rs) — definitions only.
    Durations are integer microseconds.

    Panics of the Rust code are explicit [None] results:
      - [Duration::clamp(min, max)] asserts [min <= max]
      - [assert!(self.next_outgoing_sequence_number <= VarInt::MAX)] in [next_sequence_number]

    [candidate_pre_fix] is [candidate_max_ack_delay] as it was before the repair of defect F4
    (upper clamp bound [max(rtt, 25 ms)], below the peer's [min_ack_delay] when that exceeds both);
    [candidate] is the repaired code (upper bound raised to at least [min_ack_delay]), which is what
    [run] and the correspondence check use.

    Op encoding (hook quinn-proto/src/connection/verif_hooks/ack_frequency.rs):
      [0; default_max_ack_delay] new | [1; rtt; cfg|-1; min|-1] candidate_max_ack_delay
      | [2] next_sequence_number | [3; pn; requested] ack_frequency_sent | [4; pn] on_acked
      | [5; seq; threshold; request_max_ack_delay; reordering] ack_frequency_received
      | [6; rtt; cfg|-1; min|-1] should_send_ack_frequency
    observation [...; peer_max_ack_delay; max_ack_delay; max_ack_delay_for_pto]. *)
From Coq Require Import ZArith List Bool.
From QV Require Import Lib.Corr gen.Constants.
Import ListNotations.
Open Scope Z_scope.

Definition MIN_AUTOMATIC_ACK_DELAY : Z := 25000.
Definition PROTOCOL_VIOLATION : Z := 10.

Record t := mk {
  in_flight : option (Z * Z);
  next_seq : Z;
  peer_max_ack_delay : Z;
  last_frame : option Z;
  max_ack_delay : Z
}.

Inductive op :=
| New (d : Z)
| Candidate (rtt : Z) (cfg minad : option Z)
| NextSeq
| Sent (pn requested : Z)
| Acked (pn : Z)
| Received (seq thr req reord : Z)
| ShouldSend (rtt : Z) (cfg minad : option Z).

Definition new (d : Z) : t := mk None 0 d None d.

(** [Ord::clamp]: panics when [lo > hi] *)
Definition clamp (x lo hi : Z) : option Z :=
  if hi <? lo then None
  else Some (if x <? lo then lo else if hi <? x then hi else x).

Definition opt_default (o : option Z) (d : Z) : Z := match o with Some v => v | None => d end.

(** the code before the repair (defect F4) *)
Definition candidate_pre_fix (s : t) (rtt : Z) (cfg minad : option Z) : option Z :=
  clamp (opt_default cfg (peer_max_ack_delay s)) (opt_default minad 0)
        (Z.max rtt MIN_AUTOMATIC_ACK_DELAY).

(** the repaired code *)
Definition candidate (s : t) (rtt : Z) (cfg minad : option Z) : option Z :=
  let lo := opt_default minad 0 in
  clamp (opt_default cfg (peer_max_ack_delay s)) lo
        (Z.max (Z.max rtt MIN_AUTOMATIC_ACK_DELAY) lo).

Definition max_ack_delay_for_pto (s : t) : Z :=
  match in_flight s with
  | Some (_, d) => Z.max (peer_max_ack_delay s) d
  | None => peer_max_ack_delay s
  end.

Definition projection (s : t) : list Z :=
  [peer_max_ack_delay s; max_ack_delay s; max_ack_delay_for_pto s].

Section WithCandidate.
  (** the model is parameterised by the version of [candidate_max_ack_delay] *)
  Variable cand : t -> Z -> option Z -> option Z -> option Z.

  (** [None] = panic *)
  Definition step (s : t) (o : op) : option (t * list Z) :=
    match o with
    | New d => let s' := new d in Some (s', 0 :: projection s')
    | Candidate rtt cfg minad =>
        match cand s rtt cfg minad with
        | None => None
        | Some d => Some (s, 0 :: d :: projection s)
        end
    | NextSeq =>
        if VARINT_MAX <? next_seq s then None
        else
          let s' := mk (in_flight s) (next_seq s + 1) (peer_max_ack_delay s) (last_frame s)
                       (max_ack_delay s) in
          Some (s', 0 :: next_seq s :: projection s')
    | Sent pn req =>
        let s' := mk (Some (pn, req)) (next_seq s) (peer_max_ack_delay s) (last_frame s)
                     (max_ack_delay s) in
        Some (s', 0 :: projection s')
    | Acked pn =>
        let s' := match in_flight s with
                  | Some (n, req) =>
                      if n =? pn then mk None (next_seq s) req (last_frame s) (max_ack_delay s)
                      else s
                  | None => s
                  end in
        Some (s', 0 :: projection s')
    | Received seq thr req reord =>
        let stale := match last_frame s with Some h => seq <=? h | None => false end in
        if stale then Some (s, 0 :: 0 :: projection s)
        else
          let s1 := mk (in_flight s) (next_seq s) (peer_max_ack_delay s) (Some seq)
                       (max_ack_delay s) in
          if req <? TIMER_GRANULARITY_US then Some (s1, 1 :: PROTOCOL_VIOLATION :: projection s1)
          else
            let s2 := mk (in_flight s) (next_seq s) (peer_max_ack_delay s) (Some seq) req in
            Some (s2, 0 :: 1 :: projection s2)
    | ShouldSend rtt cfg minad =>
        if next_seq s =? 0 then Some (s, 0 :: projection s)
        else
          match cand s rtt cfg minad with
          | None => None
          | Some _ => Some (s, 0 :: projection s)
          end
    end.

  Fixpoint run_ops (s : t) (os : list op) : option (list (list Z)) :=
    match os with
    | [] => Some []
    | o :: r =>
        match step s o with
        | None => None
        | Some (s', out) =>
            match run_ops s' r with
            | None => None
            | Some outs => Some (out :: outs)
            end
        end
    end.
End WithCandidate.

Definition optz (x : Z) : option Z := if x <? 0 then None else Some x.

Definition decode_op (l : list Z) : option op :=
  match l with
  | [0; d] => Some (New d)
  | [1; rtt; cfg; m] => Some (Candidate rtt (optz cfg) (optz m))
  | [2] => Some NextSeq
  | [3; pn; req] => Some (Sent pn req)
  | [4; pn] => Some (Acked pn)
  | [5; seq; thr; req; reord] => Some (Received seq thr req reord)
  | [6; rtt; cfg; m] => Some (ShouldSend rtt (optz cfg) (optz m))
  | _ => None
  end.

Fixpoint decode_ops (i : ops) : option (list op) :=
  match i with
  | [] => Some []
  | l :: r =>
      match decode_op l, decode_ops r with
      | Some o, Some os => Some (o :: os)
      | _, _ => None
      end
  end.

Definition run_gen (cand : t -> Z -> option Z -> option Z -> option Z) (i : ops) : outs :=
  match decode_ops i with
  | None => [[-1]]
  | Some os =>
      match run_ops cand (new MIN_AUTOMATIC_ACK_DELAY) os with
      | None => [PANIC]
      | Some o => o
      end
  end.

Definition run (i : ops) : outs := run_gen candidate i.
Definition run_pre_fix (i : ops) : outs := run_gen candidate_pre_fix i.

(** * Oracle on the implementation's outputs: no panic (for any parameter set — the generator only
    produces values transport-parameter validation admits); every candidate is at least the peer's
    [min_ack_delay], and at most [max(rtt, 25 ms)] whenever that bound is not below
    [min_ack_delay]; a requested max_ack_delay below the timer granularity is rejected with
    PROTOCOL_VIOLATION and never becomes [max_ack_delay]. *)
Fixpoint oracle_go (i : ops) (o : outs) : bool :=
  match i, o with
  | [], [] => true
  | op :: i', out :: o' =>
      match op, out with
      | [1; rtt; _; m], [0; d; _; _; _] =>
          let lo := Z.max 0 m in
          let hi := Z.max rtt MIN_AUTOMATIC_ACK_DELAY in
          (lo <=? d) && ((hi <? lo) || (d <=? hi))
      | [5; _; _; req; _], [tag; v; _; mad; _] =>
          if tag =? 1 then (v =? PROTOCOL_VIOLATION) && (req <? TIMER_GRANULARITY_US)
          else if v =? 1 then (TIMER_GRANULARITY_US <=? req) && (mad =? req) else true
      | _, _ => true
      end
      && oracle_go i' o'
  | _, _ => false
  end.

Definition oracle (i : ops) (o : outs) : bool :=
  if llz_eqb o [PANIC] then false else oracle_go i o.

(** used to check that [run_pre_fix] reproduces the unrepaired code (panics included) *)
Definition oracle_true (i : ops) (o : outs) : bool := true.
