(** Model of the send halves of [StreamsState] and of the remaining application / transport entry
    points used by C11 (quinn-proto/src/connection/streams/{mod,send,state}.rs and the range-level
    behaviour of [SendBuffer]) — definitions only.  The state record, the receive side and
    open/accept/reset/reset_acked are in Model/FlowRecv.v; [step] here extends [FlowRecv.step_core].

    Send-side flow control is configured large by the hook and never binds: [write] accepts every
    byte (assumption recorded in checks/C11.py).  [unacked_data]/[data_sent] are not modelled. *)
From Coq Require Import ZArith List Bool.
From QV Require Import Lib.Corr Model.FlowRecv Model.StreamSpec.
Import ListNotations.
Open Scope Z_scope.

Definition is_pending (sd : send) : bool :=
  negb (s_unsent sd =? s_off sd) || negb (match s_retx sd with [] => true | _ => false end)
  || s_finp sd.

Definition push_pending (id : Z) (s : st) : st := set_pendq (pendq s ++ [id]) s.

(** [SendStream::write]: [0; n] | [2; code] Stopped | [3] ClosedStream. *)
Definition write_op (id len : Z) (s : st) : st * list Z :=
  match alookup id (sendm s) with
  | None => (s, [3])
  | Some t =>
      let sd := sview t in
      let s1 := with_send id sd s in
      if negb (s_state sd =? 0) then (s1, [3])
      else match s_stop sd with
           | Some c => (s1, [2; c])
           | None =>
               let n := Z.max 0 len in
               let sd' := mkSend 0 None (s_off sd + n) (s_unacked sd + n) (s_unsent sd)
                                 (s_acks sd) (s_retx sd) (s_finp sd) in
               let s2 := with_send id sd' s1 in
               (if is_pending sd then s2 else push_pending id s2, [0; n])
           end
  end.

(** [SendStream::finish]: [0] | [2; code] | [3]. *)
Definition finish_op (id : Z) (s : st) : st * list Z :=
  match alookup id (sendm s) with
  | None => (s, [3])
  | Some t =>
      let sd := sview t in
      let s1 := with_send id sd s in
      match s_stop sd with
      | Some c => (s1, [2; c])
      | None =>
          if s_state sd =? 0 then
            let sd' := mkSend 1 None (s_off sd) (s_unacked sd) (s_unsent sd) (s_acks sd)
                              (s_retx sd) true in
            let s2 := with_send id sd' s1 in
            (if is_pending sd then s2 else push_pending id s2, [0])
          else (s1, [3])
      end
  end.

(** [SendStream::stopped]: [0; 0] | [0; 1; code] | [3]. *)
Definition stopped_op (id : Z) (s : st) : st * list Z :=
  match alookup id (sendm s) with
  | None => (s, [3])
  | Some TNone => (s, [0; 0])
  | Some (TSome sd) =>
      match s_stop sd with Some c => (s, [0; 1; c]) | None => (s, [0; 0]) end
  end.

(** STOP_SENDING frame, [received_stop_sending]. *)
Definition stop_sending_op (id code : Z) (s : st) : st * list Z :=
  match alookup id (sendm s) with
  | None => (s, [0])
  | Some t =>
      let sd := sview t in
      match s_stop sd with
      | Some _ => (with_send id sd s, [0])
      | None =>
          let sd' := mkSend (s_state sd) (Some code) (s_off sd) (s_unacked sd) (s_unsent sd)
                            (s_acks sd) (s_retx sd) (s_finp sd) in
          let s1 := with_send id sd' s in
          (on_stream_frame false id (set_events (events s1 ++ [[5; id; code]]) s1), [0])
      end
  end.

(** * write_stream_frames with an unbounded packet *)
Definition quad_le (a b : Z * Z * Z * Z) : bool :=
  let '(a1, a2, a3, a4) := a in
  let '(b1, b2, b3, b4) := b in
  (a1 <? b1) || ((a1 =? b1) && ((a2 <? b2) || ((a2 =? b2) && ((a3 <? b3) || ((a3 =? b3) && (a4 <=? b4)))))).
Fixpoint quad_insert (x : Z * Z * Z * Z) (l : list (Z * Z * Z * Z)) :=
  match l with
  | [] => [x]
  | y :: r => if quad_le x y then x :: l else y :: quad_insert x r
  end.
Definition quad_sort (l : list (Z * Z * Z * Z)) := fold_right quad_insert [] l.
Fixpoint quad_flat (l : list (Z * Z * Z * Z)) : list Z :=
  match l with [] => [] | (a, b, c, d) :: r => a :: b :: c :: d :: quad_flat r end.

(** One pop of the pending queue for a live, non-reset stream: (send half, frame). *)
Definition transmit_one (sd : send) : send * (Z * Z * bool) :=
  let '(a, b, retx', unsent') :=
    match s_retx sd with
    | (a, b) :: rest => (a, b, rest, s_unsent sd)
    | [] => (s_unsent sd, s_off sd, [], s_off sd)
    end in
  let fin := (b =? s_off sd) && ((s_state sd =? 1) || (s_state sd =? 2)) in
  (mkSend (s_state sd) (s_stop sd) (s_off sd) (s_unacked sd) unsent' (s_acks sd) retx'
          (if fin then false else s_finp sd), (a, b, fin)).

Fixpoint flush_loop (fuel : nat) (q : list Z) (s : st) (acc : list (Z * Z * Z * Z))
  : st * list (Z * Z * Z * Z) * bool :=
  match q with
  | [] => (s, acc, true)
  | id :: rest =>
      match fuel with
      | O => (set_pendq q s, acc, false)
      | S fuel' =>
          match alookup id (sendm s) with
          | Some (TSome sd) =>
              if s_state sd =? 3 then flush_loop fuel' rest s acc
              else
                let '(sd', (a, b, fin)) := transmit_one sd in
                let s' := with_send id sd' s in
                flush_loop fuel' (if is_pending sd' then rest ++ [id] else rest) s'
                           ((id, a, b, b2z fin) :: acc)
          | _ => flush_loop fuel' rest s acc
          end
      end
  end.

Fixpoint total_retx (m : list (Z * sslot)) : nat :=
  match m with
  | [] => O
  | (_, TSome sd) :: r => (length (s_retx sd) + total_retx r)%nat
  | _ :: r => total_retx r
  end.

(** Op 15: [0; n] and the sorted frames; out of fuel is reported as [-7]. *)
Definition flush_op (s : st) : st * list Z * list Z :=
  let fuel := (length (pendq s) + total_retx (sendm s) + length (sendm s) + 1)%nat in
  let '(s1, acc, okf) := flush_loop fuel (pendq s) (set_pendq [] s) [] in
  let fs := quad_sort acc in
  let s2 := set_slog (slog s1 ++ map (fun f => (f, 0)) fs) s1 in
  if okf then (s2, [0; Z.of_nat (length fs)], quad_flat fs) else (s2, [-7], []).

(** [SendBuffer::ack] at range level: (unacked_len, acks). *)
Definition sbuf_ack (sd : send) (a b : Z) : Z * list (Z * Z) :=
  let base := s_off sd - s_unacked sd in
  let acks := rs_add (Z.max base a) (Z.max base b) (s_acks sd) in
  match acks with
  | (x, y) :: rest => if x =? base then (s_unacked sd - (y - x), rest) else (s_unacked sd, acks)
  | [] => (s_unacked sd, acks)
  end.

(** [received_ack_of] *)
Definition ack_frame (id a b : Z) (fin : bool) (s : st) : st :=
  match alookup id (sendm s) with
  | Some (TSome sd) =>
      if s_state sd =? 3 then s
      else
        let '(un, acks) := sbuf_ack sd a b in
        let st' := if (s_state sd =? 1) && fin then 2 else s_state sd in
        let sd' := mkSend st' (s_stop sd) (s_off sd) un (s_unsent sd) acks (s_retx sd) (s_finp sd) in
        if (st' =? 2) && (un =? 0) then
          let s1 := stream_freed id true (set_sendm (aremove_all id (sendm s)) s) in
          set_g_fin (id :: g_fin s1) (set_events (events s1 ++ [[4; id]]) s1)
        else with_send id sd' s
  | _ => s
  end.

(** [retransmit] *)
Definition lose_frame (id a b : Z) (fin : bool) (s : st) : st :=
  match alookup id (sendm s) with
  | Some (TSome sd) =>
      let s1 := if is_pending sd then s else push_pending id s in
      with_send id (mkSend (s_state sd) (s_stop sd) (s_off sd) (s_unacked sd) (s_unsent sd)
                           (s_acks sd) (rs_add a b (s_retx sd)) (s_finp sd || fin)) s1
  | _ => s
  end.

Fixpoint set_nth_status (k : nat) (v : Z) (l : list ((Z * Z * Z * Z) * Z)) :=
  match l, k with
  | [], _ => []
  | (f, _) :: r, O => (f, v) :: r
  | x :: r, S k' => x :: set_nth_status k' v r
  end.

(** Ops 16 / 19 on sent-log entry [k mod len]. *)
Definition log_op (lose : bool) (k : Z) (s : st) : st * list Z :=
  match slog s with
  | [] => (s, [2])
  | _ =>
      let i := Z.to_nat (k mod Z.of_nat (length (slog s))) in
      match nth_error (slog s) i with
      | None => (s, [2])
      | Some ((id, a, b, fin), status) =>
          if negb (status =? 0) then (s, [3])
          else
            let s1 := set_slog (set_nth_status i (if lose then 2 else 1) (slog s)) s in
            (if lose then lose_frame id a b (negb (fin =? 0)) s1
             else ack_frame id a b (negb (fin =? 0)) s1, [0; id; a; b; fin])
      end
  end.

(** [StreamsState::poll] *)
Definition poll_op (s : st) : st * list Z :=
  if fst (opened s) then (set_opened (false, snd (opened s)) s, [1; 0])
  else if snd (opened s) then (set_opened (false, false) s, [1; 1])
  else match events s with
       | [] => (s, [0])
       | e :: r => (set_events r s, e)
       end.

Definition step_core (s : st) (op : list Z) : option (st * list Z * option Z * list Z) :=
  match op with
  | [] => None
  | c :: a =>
      if c =? 10 then
        match a with
        | [id; len] => let '(s', o) := write_op id len s in Some (s', o, Some id, [])
        | _ => None
        end
      else if c =? 11 then
        match a with
        | [id] => let '(s', o) := finish_op id s in Some (s', o, Some id, [])
        | _ => None
        end
      else if c =? 13 then
        match a with
        | [id] => let '(s', o) := stopped_op id s in Some (s', o, Some id, [])
        | _ => None
        end
      else if c =? 14 then
        match a with
        | [id; code] => let '(s', o) := stop_sending_op id code s in Some (s', o, Some id, [])
        | _ => None
        end
      else if c =? 15 then
        match a with
        | [] => let '(s', o, l) := flush_op s in Some (s', o, None, l)
        | _ => None
        end
      else if c =? 16 then
        match a with
        | [k] => let '(s', o) := log_op false k s in Some (s', o, None, [])
        | _ => None
        end
      else if c =? 19 then
        match a with
        | [k] => let '(s', o) := log_op true k s in Some (s', o, None, [])
        | _ => None
        end
      else if c =? 18 then
        match a with
        | [] => let '(s', o) := poll_op s in Some (s', o, None, [])
        | _ => None
        end
      else FlowRecv.step_core true s op
  end.

Definition step (s : st) (op : list Z) : st * list Z :=
  match step_core s op with
  | Some (s', o, id, l) => (s', observe s' o id l)
  | None => (s, [-1])
  end.

Definition run (i : ops) : outs := run_with step i.

(** The property oracle of C11 is the specification itself (Model/StreamSpec.v). *)
Definition oracle (i : ops) (o : outs) : bool := spec_oracle i o.
Definition oracle_trace := StreamSpec.oracle_trace.

(** States reachable from a configuration (used to state the full theorems). *)
Definition reach_sm (cfg : list Z) (i : ops) : option st :=
  match cfg with
  | [0; sd; mru; mrb; rw; srw; pmb; pmu] =>
      Some (fst (run_from step (init sd mru mrb rw srw pmb pmu) i))
  | _ => None
  end.
