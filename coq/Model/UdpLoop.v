(** Loopback correspondence for quinn-udp (component [udp_loop]) — definitions only.
    Real sockets are driven by the hook quinn-udp/src/verif_hooks.rs; see Model/UdpModel.v for the
    boundary functions and Model/Cmsg.v for the control-buffer budget used here. *)
From Coq Require Import ZArith List Bool Arith.
From QV Require Import Lib.Bytes Lib.Corr gen.Constants Model.UdpModel Model.Cmsg.
Import ListNotations.

(** * Loopback correspondence (component [udp_loop], hook quinn-udp/src/verif_hooks.rs)

    The driver (comps/udp_loop.py) runs each transmit on real sockets and then hands the model
    the transmit together with the *environment's choices* read off the observation — kernel
    capabilities and, per received message, its length and the offset of its first byte in the
    transmit (a witness found by the untrusted driver and checked here):
      [1; fam; clen; seg; ecn; src_sel; dst_sel; bufmode; nbufs; salt; sendmode; gro_off; einval]
      [2; status; max_gso_before; gro_segments; max_gso_after; einval_after; attempts; n_msgs; send_errors; last_errno]
      [3; len; off]          one per received message
    The model predicts the line of tag 2 (echo) and, for every tag 3, the full message line
      [len; stride; ecn; port_ok; ifindex_present; srckind; src..; dstkind; dst..; chunks..]
    (an in-order message is the single chunk [0; off; len]). *)
Open Scope Z_scope.

Definition pattern_byte (salt i : Z) : Z := (i + 3 * (i / 256) + salt) mod 256.
(** Same bytes computed incrementally (no division): [c] = i mod 256, [v] = byte i. *)
Fixpoint pattern_from (n : nat) (c v : Z) : list Z :=
  match n with
  | O => []
  | S k =>
      let c' := c + 1 in
      let step := if c' =? 256 then 4 else 1 in
      let v' := v + step in
      v :: pattern_from k (if c' =? 256 then 0 else c') (if 256 <=? v' then v' - 256 else v')
  end.
Definition pattern (len salt : Z) : list Z := pattern_from (Z.to_nat len) 0 (salt mod 256).

Record transmit := {
  t_fam : Z; t_clen : Z; t_seg : Z; t_ecn : Z; t_src : Z; t_dst : Z; t_salt : Z;
  t_cmsg_len : Z  (* receive control buffer length, for the ECN truncation model *)
}.

(** Effective segment size as a [Z]: [seg] when [0 < seg < clen], otherwise the whole contents. *)
Definition eff_seg (t : transmit) : Z :=
  if (0 <? t_seg t) && (t_seg t <? t_clen t) then t_seg t else t_clen t.

Definition v4_alt (sel : Z) (alt : Z) : list Z :=
  if sel =? 0 then [127; 0; 0; 1] else if sel =? 1 then [127; 0; 0; 1] else [127; 0; 0; alt].
Definition mapped (a : list Z) : list Z := [0; 0; 0; 0; 0; 0; 0; 0; 0; 0; 255; 255] ++ a.
Definition v6_loop : list Z := [0; 0; 0; 0; 0; 0; 0; 0; 0; 0; 0; 0; 0; 0; 0; 1].

Definition expected_src (t : transmit) : list Z :=
  let v4 := v4_alt (t_src t) 2 in
  if t_fam t =? 0 then 4 :: v4
  else if t_fam t =? 1 then 6 :: v6_loop
  else if t_fam t =? 2 then 6 :: mapped v4
  else 4 :: v4.
Definition expected_dst (t : transmit) : list Z :=
  let v4 := if t_dst t =? 1 then [127; 0; 0; 3] else [127; 0; 0; 1] in
  if t_fam t =? 0 then 4 :: v4
  else if t_fam t =? 1 then 6 :: v6_loop
  else if t_fam t =? 2 then 6 :: mapped v4
  else 4 :: v4.

(** The packet on the wire is IPv4 for every family but 1. *)
Definition v4_wire (t : transmit) : bool := negb (t_fam t =? 1).

(** What the property demands: the requested codepoint, except in the documented
    [sendmsg_einval] fallback where IPv4 transmits carry no IP_TOS. *)
Definition demanded_ecn (t : transmit) (einval_after : Z) : Z :=
  if v4_wire t && negb (einval_after =? 0) then 0 else t_ecn t.

(** Receive-side control messages of a socket prepared by [UdpSocketState::new] on Linux
    ([Cmsg.recv_sizes], kernel order, TOS/TCLASS last).  A message that no longer fits the
    control buffer is dropped by the kernel ([MSG_CTRUNC], which [recv] never checks), so the
    ECN codepoint survives exactly when the whole list fits [cmsg::LEN]. *)
Definition recvopt_of (t : transmit) (coalesced : bool) : recvopt :=
  {| r_sock6 := (t_fam t =? 1) || (t_fam t =? 2); r_pkt4 := v4_wire t; r_gro := coalesced; r_ts := true |}.
Definition ecn_survives (t : transmit) (coalesced : bool) : bool :=
  total_space gen_layout (recv_sizes gen_layout (recvopt_of t coalesced)) <=? t_cmsg_len t.

Definition predicted_ecn (t : transmit) (einval_after : Z) (coalesced : bool) : Z :=
  if ecn_survives t coalesced then demanded_ecn t einval_after else 0.

Definition slice (off len : Z) (l : list Z) : list Z :=
  firstn (Z.to_nat len) (skipn (Z.to_nat off) l).

(** The hook reports received bytes losslessly as chunks relative to the transmitted pattern:
    [0; p; n] = n bytes equal to payload[p..p+n], [1; k; b1..bk] = k literal bytes. *)
Fixpoint decompress (fuel : nat) (pat : list Z) (ch : list Z) : list Z :=
  match fuel with
  | O => []
  | S f =>
      match ch with
      | 0 :: p :: n :: r => slice p n pat ++ decompress f pat r
      | 1 :: k :: r => firstn (Z.to_nat k) r ++ decompress f pat (skipn (Z.to_nat k) r)
      | _ => []
      end
  end.

Definition predict_msg (t : transmit) (einval_after len off : Z) : list Z :=
  let e := eff_seg t in
  let coalesced := e <? len in
  let stride := if coalesced then e else len in
  [len; stride; predicted_ecn t einval_after coalesced; 1; 1]
    ++ expected_src t ++ expected_dst t
    ++ (if off <? 0 then [] else [0; off; len]).

Definition mk_transmit (cmsg_len : Z) (a : list Z) : transmit :=
  let g := fun k => nth k a 0 in
  {| t_fam := g 0%nat; t_clen := g 1%nat; t_seg := g 2%nat; t_ecn := g 3%nat; t_src := g 4%nat;
     t_dst := g 5%nat; t_salt := g 8%nat; t_cmsg_len := cmsg_len |}.

Definition no_transmit : transmit := mk_transmit 0 [].

(** state: current transmit and the [einval_after] of its capability line *)
Fixpoint run_from (cmsg_len : Z) (t : transmit) (einval : Z) (i : ops) : outs :=
  match i with
  | [] => []
  | (1 :: a) :: r => run_from cmsg_len (mk_transmit cmsg_len a) 0 r
  | (2 :: env) :: r => env :: run_from cmsg_len t (nth 4 env 0) r
  | [3; len; off] :: r => predict_msg t einval len off :: run_from cmsg_len t einval r
  | _ :: r => [-1] :: run_from cmsg_len t einval r
  end.

(** ---- the property oracle, on the implementation's observations only *)
(** [obs]: the message line of the implementation.  Checks: lengths consistent, stride positive,
    the datagrams obtained by [split_by_stride] are exactly the transmit's datagrams number
    [off / eff_seg ..], nothing is reported twice ([prev_end <= off]), ECN and both addresses
    are conveyed. *)
Definition oracle_msg (t : transmit) (pat : list Z) (sent : option (list (list Z)))
           (einval_after prev_end len off : Z) (obs : list Z) : bool :=
  match obs with
  | len' :: stride :: ecn :: port_ok :: _ifx :: rest =>
      let src := expected_src t in
      let dst := expected_dst t in
      let ns := length src in
      let nd := length dst in
      let chunks := skipn (ns + nd) rest in
      let bytes := decompress (length chunks) pat chunks in
      let e := eff_seg t in
      (len' =? len) && (zlen bytes =? len) && (0 <? len) && (0 <? stride) && (0 <? e)
      && (0 <=? off) && (prev_end <=? off) && (off + len <=? t_clen t) && (off mod e =? 0)
      && (ecn =? demanded_ecn t einval_after) && (port_ok =? 1)
      && lz_eqb (firstn ns rest) src && lz_eqb (firstn nd (skipn ns rest)) dst
      && match split_by_stride (Z.to_nat stride) bytes, sent with
         | Some got, Some sent =>
             llz_eqb got (firstn (length got) (skipn (Z.to_nat (off / e)) sent))
         | _, _ => false
         end
  | _ => false
  end.

(** [pat], [sent]: payload and datagrams of the current transmit, computed once per transmit. *)
Fixpoint oracle_from (cmsg_len : Z) (t : transmit) (pat : list Z) (sent : option (list (list Z)))
         (einval prev_end : Z) (i : ops) (o : outs) : bool :=
  match i, o with
  | [], [] => true
  | (1 :: a) :: r, _ =>
      let t' := mk_transmit cmsg_len a in
      let pat' := pattern (t_clen t') (t_salt t') in
      let sent' := transmit_datagrams (if 0 <? t_seg t' then Some (Z.to_nat (t_seg t')) else None) pat' in
      oracle_from cmsg_len t' pat' sent' 0 0 r o
  | (2 :: env) :: r, line :: o' =>
      lz_eqb env line && (nth 0 line 1 =? 0) && oracle_from cmsg_len t pat sent (nth 4 line 0) 0 r o'
  | [3; len; off] :: r, line :: o' =>
      oracle_msg t pat sent einval prev_end len off line
      && oracle_from cmsg_len t pat sent einval (off + len) r o'
  | _, _ => false
  end.

Definition run (i : ops) : outs := run_from UDP_CMSG_LEN no_transmit 0 i.
Definition oracle (i : ops) (o : outs) : bool := oracle_from UDP_CMSG_LEN no_transmit [] None 0 0 i o.
