(** Model of the range bookkeeping of [PendingAcks] (quinn-proto/src/connection/spaces.rs) —
    definitions only.  [M] = [MAX_ACK_BLOCKS] (generated constant).

    Panics of the Rust code are explicit: [x + 1] in [ArrayRangeSet::insert_one] and [max + 1] in
    [subtract_below] overflow at [u64::MAX] (checked in debug builds) -> [None].

    Op encoding (hook quinn-proto/src/connection/verif_hooks/pending_acks.rs):
      [0; packet; now] insert_one | [1; max] subtract_below | [2; now] ack_delay | [3] dump
    observation of ops 0..2: [n; first.start; last.end] (+ [delay] for op 2), [[0; -1; -1]] when
    empty; op 3: [n; s0; e0; ...]. *)
From Coq Require Import ZArith List Bool.
From QV Require Import Lib.Corr gen.Constants Model.AckRanges.
Import ListNotations.
Open Scope Z_scope.

Definition U64_MAX : Z := 2 ^ 64 - 1.

Record t := mk { ranges : AckRanges.t; largest : option (Z * Z) }.

Inductive op :=
| InsertOne (packet now : Z)
| SubtractBelow (max : Z)
| AckDelay (now : Z)
| Dump.

Definition init : t := mk [] None.

Definition zlen (l : AckRanges.t) : Z := Z.of_nat (length l).

Definition insert_one (M : Z) (s : t) (packet now : Z) : option t :=
  if U64_MAX <=? packet then None
  else
    let r := AckRanges.insert (ranges s) packet (packet + 1) in
    let lg := match largest s with
              | None => Some (packet, now)
              | Some (pn, _) => if pn <? packet then Some (packet, now) else largest s
              end in
    Some (mk (if M <? zlen r then AckRanges.pop_min r else r) lg).

Definition subtract_below (s : t) (max : Z) : option t :=
  if U64_MAX <=? max then None
  else Some (mk (AckRanges.remove (ranges s) 0 (max + 1)) (largest s)).

(** [now - received] on [Instant]s saturates at zero *)
Definition ack_delay (s : t) (now : Z) : Z :=
  match largest s with
  | None => 0
  | Some (_, received) => Z.max 0 (now - received)
  end.

Definition observe (s : t) : list Z := zlen (ranges s) :: AckRanges.flatten (ranges s).
Definition summary (s : t) : list Z :=
  match ranges s with
  | [] => [0; -1; -1]
  | (a, _) :: _ => [zlen (ranges s); a; snd (last (ranges s) (0, 0))]
  end.

Definition step (M : Z) (s : t) (o : op) : option (t * list Z) :=
  match o with
  | InsertOne p now =>
      match insert_one M s p now with
      | None => None
      | Some s' => Some (s', summary s')
      end
  | SubtractBelow m =>
      match subtract_below s m with
      | None => None
      | Some s' => Some (s', summary s')
      end
  | AckDelay now => Some (s, summary s ++ [ack_delay s now])
  | Dump => Some (s, observe s)
  end.

Fixpoint run_ops (M : Z) (s : t) (os : list op) : option (list (list Z)) :=
  match os with
  | [] => Some []
  | o :: r =>
      match step M s o with
      | None => None
      | Some (s', out) =>
          match run_ops M s' r with
          | None => None
          | Some outs => Some (out :: outs)
          end
      end
  end.

Definition decode_op (l : list Z) : option op :=
  match l with
  | [0; p; now] => Some (InsertOne p now)
  | [1; m] => Some (SubtractBelow m)
  | [2; now] => Some (AckDelay now)
  | [3] => Some Dump
  | _ => None
  end.

Fixpoint decode_ops (i : ops) : option (list op) :=
  match i with
  | [] => Some []
  | l :: r =>
      match decode_op l, decode_ops r with
      | Some o, Some os => Some (o :: os)
      | _, _ => None
      end
  end.

Definition run (i : ops) : outs :=
  match decode_ops i with
  | None => [[-1]]
  | Some os =>
      match run_ops MAX_ACK_BLOCKS init os with
      | None => [PANIC]
      | Some o => o
      end
  end.

(** * Oracle on the implementation's outputs, independent of [AckRanges] and computed from the
    ops alone on plain sorted element lists: [p] added, or everything [<= max] removed, re-encoded
    as maximal runs, minus the LOWEST run when there are more than [MAX_ACK_BLOCKS] runs.  Every
    summary (count, lowest start, highest end) and every dump must equal that specification.
    Hence: no panic, never more than [MAX_ACK_BLOCKS] ranges, nothing but the lowest range is ever
    lost, nothing is invented. *)
Fixpoint unflatten (l : list Z) : option AckRanges.t :=
  match l with
  | [] => Some []
  | a :: b :: r => match unflatten r with Some t => Some ((a, b) :: t) | None => None end
  | _ => None
  end.

Fixpoint sorted_add (x : Z) (l : list Z) : list Z :=
  match l with
  | [] => [x]
  | y :: r => if x <? y then x :: l else if x =? y then l else y :: sorted_add x r
  end.

(** maximal runs of an ascending duplicate-free list *)
Fixpoint runs_from (a e : Z) (l : list Z) : AckRanges.t :=
  match l with
  | [] => [(a, e)]
  | x :: r => if x =? e then runs_from a (e + 1) r else (a, e) :: runs_from x (x + 1) r
  end.
Definition runs (l : list Z) : AckRanges.t :=
  match l with [] => [] | x :: r => runs_from x (x + 1) r end.

Fixpoint rl_eqb (a b : AckRanges.t) : bool :=
  match a, b with
  | [], [] => true
  | (x, y) :: a', (u, v) :: b' => (x =? u) && (y =? v) && rl_eqb a' b'
  | _, _ => false
  end.

(** specification state: the elements that must be reported *)
Definition spec_step (op : list Z) (elems : list Z) : list Z :=
  match op with
  | [0; p; _] =>
      let e := sorted_add p elems in
      let rs := runs e in
      match rs with
      | (a, b) :: _ :: _ =>
          if MAX_ACK_BLOCKS <? Z.of_nat (length rs) then filter (fun x => b <=? x) e else e
      | _ => e
      end
  | [1; m] => filter (fun x => m <? x) elems
  | _ => elems
  end.

(** the bound the property names, checked on the reported range count besides the generated one *)
Definition PINNED_MAX_ACK_BLOCKS : Z := 64.

Fixpoint oracle_go (i : ops) (o : outs) (elems : list Z) : bool :=
  match i, o with
  | [], [] => true
  | op :: i', out :: o' =>
      let elems' := spec_step op elems in
      let want := runs elems' in
      let n' := Z.of_nat (length want) in
      (n' <=? MAX_ACK_BLOCKS) && (hd 0 out <=? PINNED_MAX_ACK_BLOCKS)
      && match op, out with
         | [3], n :: fl =>
             match unflatten fl with
             | Some rs => (n =? n') && rl_eqb rs want
             | None => false
             end
         | _, n :: lo :: hi :: _ =>
             (n =? n')
             && match want with
                | [] => (lo =? -1) && (hi =? -1)
                | (a, _) :: _ => (lo =? a) && (hi =? snd (last want (0, 0)))
                end
         | _, _ => false
         end
      && oracle_go i' o' elems'
  | _, _ => false
  end.

Definition oracle (i : ops) (o : outs) : bool :=
  if llz_eqb o [PANIC] then false else oracle_go i o [].
