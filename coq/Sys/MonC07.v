(** C07 trace monitor: bytes sent to an address that is not yet validated, against three times
    the bytes received from it (independent ledger over the datagrams the simulator delivered and
    the transmits it collected), and the stateless responses of the endpoint.
    Projection expected: tags 8, 1, 2, 13. *)
From Coq Require Import ZArith List Bool.
From QV Require Import Lib.Corr Sys.Trace.
Import ListNotations.
Open Scope Z_scope.

(** per (connection, remote address) ledger *)
Definition lkey := (Z * Z * Z)%type.
Definition lkey_eqb (a b : lkey) : bool :=
  let '(a1, a2, a3) := a in let '(b1, b2, b3) := b in (a1 =? b1) && (a2 =? b2) && (a3 =? b3).
Fixpoint lget (m : list (lkey * (Z * Z * bool))) (k : lkey) : Z * Z * bool :=
  match m with
  | [] => (0, 0, false)
  | (k', v) :: r => if lkey_eqb k k' then v else lget r k
  end.
Fixpoint lset (m : list (lkey * (Z * Z * bool))) (k : lkey) (v : Z * Z * bool) :=
  match m with
  | [] => [(k, v)]
  | (k', v') :: r => if lkey_eqb k k' then (k, v) :: r else (k', v') :: lset r k v
  end.

Record st := {
  led : list (lkey * (Z * Z * bool));   (* sent, received, saw a Handshake packet from there *)
  lastp : list (key * list Z);
  migrated : bool;
  accepted_validated : list key;
  last_rx : list Z;
  vrem : list (key * list Z);      (* remotes of a connection that were validated with evidence *)
  chg : list (key * (Z * Z));      (* remote in use and frame_rx.path_response when it came into use *)
}.

Definition step (s : st) (r : list Z) : option st :=
  if tag r =? 13 then
    Some {| led := led s; lastp := lastp s; migrated := migrated s || (fld r 2 =? 1);
            accepted_validated := accepted_validated s; last_rx := last_rx s; vrem := vrem s; chg := chg s |}
  else if tag r =? 2 then
    let e := rep r in
    let src := fld r 3 in
    let size := fld r 4 in
    let out := fld r 5 in
    let hf := fld r 10 in
    (* a supported-version Initial in a datagram shorter than 1200 bytes creates no state and
       provokes no reply *)
    let initial := Z.testbit hf 1 && Z.testbit hf 7 in
    if (e =? 1) && initial && (size <? 1200) && ((out =? 2) || (out =? 3)) then None
    (* a stateless response is strictly smaller than what provoked it *)
    (* provoked by a short-header datagram: a stateless reset *)
    else if (out =? 3) && Z.testbit hf 5 && negb (fld r 7 <? size) then None
    else if (out =? 1) || (out =? 2) then
      let idx := fld r 6 in
      let k := (e, idx, src) in
      let '(snt, rcv, hs) := lget (led s) k in
      let s1 := {| led := lset (led s) k (snt, rcv + size, hs || Z.testbit hf 2);
                   lastp := lastp s; migrated := migrated s;
                   accepted_validated :=
                     if (out =? 2) && (fld r 7 =? 1) then (e, idx) :: accepted_validated s
                     else accepted_validated s;
                   last_rx := r; vrem := vrem s; chg := chg s |} in
      Some s1
    else Some {| led := led s; lastp := lastp s; migrated := migrated s;
                 accepted_validated := accepted_validated s; last_rx := r; vrem := vrem s; chg := chg s |}
  else if tag r =? 8 then
    (* validation of a server-side path needs evidence: a Handshake packet from that address, an
       address validated at accept (token / Retry), the address having been validated before
       (return to the previous path), or a PATH_RESPONSE received (frame_rx.path_response, field
       57) since the address came into use *)
    let k := rkey r in
    let rem := premote r in
    let '(crem, base) := match aget (chg s) k with Some v => v | None => (-1, 0) end in
    let chg1 := if crem =? rem then chg s else aset (chg s) k (rem, fld r 57) in
    let base1 := if crem =? rem then base else fld r 57 in
    let known := match aget (vrem s) k with Some l => existsb (Z.eqb rem) l | None => false end in
    let evidence :=
      known
      || (let '(_, _, hs) := lget (led s) (rep r, ridx r, rem) in hs)
      || (existsb (key_eqb k) (accepted_validated s) && negb (existsb (fun x => true) (match aget (vrem s) k with Some l => l | None => [] end)) && (crem =? -1))
      || (base1 <? fld r 57) in
    let claims := (rep r =? 1) && (pf r 1 =? 1) in
    let ok := negb claims || evidence in
    let vrem1 :=
      if claims && negb known then
        aset (vrem s) k (rem :: match aget (vrem s) k with Some l => l | None => [] end)
      else vrem s in
    if ok then Some {| led := led s; lastp := aset (lastp s) k r; migrated := migrated s;
                       accepted_validated := accepted_validated s; last_rx := last_rx s;
                       vrem := vrem1; chg := chg1 |}
    else None
  else if (tag r =? 1) && (fld r 8 =? 0) then
    let k := rkey r in
    match aget (lastp s) k with
    | None => None
    | Some b =>
        let dst := fld r 4 in
        let size := fld r 5 in
        let seg := if fld r 6 =? 0 then size else fld r 6 in
        let lk := (rep r, ridx r, dst) in
        let '(snt, rcv, hs) := lget (led s) lk in
        let unvalidated := (rep r =? 1) && (pf b 1 =? 0) && (dst =? premote b) in
        (* while unvalidated: some budget was left when the batch began, and the batch ends at
           most one datagram beyond three times what that address sent *)
        let ok := negb unvalidated || ((snt <? 3 * rcv) && (snt + size <? 3 * rcv + seg)) in
        if ok then Some {| led := lset (led s) lk (snt + size, rcv, hs); lastp := lastp s;
                           migrated := migrated s; accepted_validated := accepted_validated s;
                           last_rx := last_rx s; vrem := vrem s; chg := chg s |}
        else None
    end
  else Some s.

Definition monitor (i : ops) (o : outs) : option Z :=
  snd (run_from step 0 {| led := []; lastp := []; migrated := false; accepted_validated := []; last_rx := []; vrem := []; chg := [] |} o).
