(** C01 / C16 / C09 trace monitor over application-level records: bytes read are the bytes
    written at those offsets (content compared by the harness against the per-connection
    pattern: flag), ordered reads are gap-free and consecutive, unordered reads never overlap,
    end-of-stream only at the size the writer finished with, reset only with the writer's code;
    datagrams intact and at most once.  Projection expected: tag 3 (application operations). *)
From Coq Require Import ZArith List Bool.
From QV Require Import Lib.Corr Sys.Trace.
Import ListNotations.
Open Scope Z_scope.

(** key: (endpoint, connection index, stream id) *)
Definition skey := (Z * Z * Z)%type.
Definition skey_eqb (a b : skey) : bool :=
  let '(a1, a2, a3) := a in let '(b1, b2, b3) := b in (a1 =? b1) && (a2 =? b2) && (a3 =? b3).
Section Map.
  Context {A : Type}.
  Fixpoint sget (m : list (skey * A)) (k : skey) : option A :=
    match m with [] => None | (k', v) :: r => if skey_eqb k k' then Some v else sget r k end.
  Fixpoint sset (m : list (skey * A)) (k : skey) (v : A) : list (skey * A) :=
    match m with
    | [] => [(k, v)]
    | (k', v') :: r => if skey_eqb k k' then (k, v) :: r else (k', v') :: sset r k v
    end.
End Map.

Record wr := { written : Z; fin_at : option Z; reset_code : option Z }.
Record rd := { next : Z; ranges : list (Z * Z); ended : bool }.
Definition wr0 := {| written := 0; fin_at := None; reset_code := None |}.
Definition rd0 := {| next := 0; ranges := []; ended := false |}.

Record st := {
  ws : list (skey * wr);
  rs : list (skey * rd);
  dg_sent : list (key * list Z);     (* ids of datagrams accepted by send, per (ep, idx) *)
  dg_seen : list (key * list Z);     (* ids delivered, per (ep, idx) *)
  ordered : bool;
  sbuf : Z;
  must : list (Z * Z * Z);           (* small datagrams accepted for sending, not yet seen delivered *)
  deliver_small : bool;
  settle_from : Z;                    (* small datagrams accepted from this instant on must arrive *)
}.

Definition overlaps (a b : Z) (l : list (Z * Z)) : bool :=
  existsb (fun r => (fst r <? b) && (a <? snd r)) l.

Definition peer (e : Z) : Z := 1 - e.

Definition step (s : st) (r : list Z) : option st :=
  if negb (tag r =? 3) then Some s else
  let e := rep r in
  let idx := ridx r in
  let op := fld r 4 in
  let sid := fld r 5 in
  let k := (e, idx, sid) in
  if op =? 2 then
    (* write(offset, accepted, requested) *)
    let acc := fld r 7 in
    if acc <? 0 then Some s else
    let w := match sget (ws s) k with Some w => w | None => wr0 end in
    if negb (fld r 6 =? written w) || (fld r 8 <? acc) then None
    else Some {| ws := sset (ws s) k {| written := written w + acc; fin_at := fin_at w; reset_code := reset_code w |};
                 rs := rs s; dg_sent := dg_sent s; dg_seen := dg_seen s; ordered := ordered s; sbuf := sbuf s; must := must s; deliver_small := deliver_small s; settle_from := settle_from s |}
  else if op =? 3 then
    let w := match sget (ws s) k with Some w => w | None => wr0 end in
    Some {| ws := sset (ws s) k {| written := written w; fin_at := Some (fld r 6); reset_code := reset_code w |};
            rs := rs s; dg_sent := dg_sent s; dg_seen := dg_seen s; ordered := ordered s; sbuf := sbuf s; must := must s; deliver_small := deliver_small s; settle_from := settle_from s |}
  else if op =? 4 then
    let w := match sget (ws s) k with Some w => w | None => wr0 end in
    Some {| ws := sset (ws s) k {| written := written w; fin_at := fin_at w; reset_code := Some (fld r 6) |};
            rs := rs s; dg_sent := dg_sent s; dg_seen := dg_seen s; ordered := ordered s; sbuf := sbuf s; must := must s; deliver_small := deliver_small s; settle_from := settle_from s |}
  else if op =? 5 then
    (* read chunk (offset, len, content flag, error) *)
    if negb (fld r 9 =? 0) then
      (* ClosedStream / IllegalOrderedRead: only legal once the reader has seen the end *)
      match sget (rs s) k with
      | Some d => if ended d then Some s else None
      | None => None
      end
    else
    let off := fld r 6 in
    let len := fld r 7 in
    let d := match sget (rs s) k with Some d => d | None => rd0 end in
    let w := match sget (ws s) (peer e, idx, sid) with Some w => w | None => wr0 end in
    let good :=
      (fld r 8 =? 1) && (0 <? len) && (off + len <=? written w) && negb (ended d)
      && (if ordered s then off =? next d else negb (overlaps off (off + len) (ranges d))) in
    if good then
      Some {| ws := ws s;
              rs := sset (rs s) k {| next := off + len; ranges := (off, off + len) :: ranges d; ended := false |};
              dg_sent := dg_sent s; dg_seen := dg_seen s; ordered := ordered s; sbuf := sbuf s; must := must s; deliver_small := deliver_small s; settle_from := settle_from s |}
    else None
  else if op =? 6 then
    (* end of stream after `total` bytes: the writer finished exactly there and all was read *)
    let d := match sget (rs s) k with Some d => d | None => rd0 end in
    let w := match sget (ws s) (peer e, idx, sid) with Some w => w | None => wr0 end in
    let total := fld r 6 in
    let covered := fold_left (fun a rg => a + (snd rg - fst rg)) (ranges d) 0 in
    match fin_at w with
    | Some f => if (f =? total) && (covered =? total) && negb (ended d) then
                  Some {| ws := ws s; rs := sset (rs s) k {| next := next d; ranges := ranges d; ended := true |};
                          dg_sent := dg_sent s; dg_seen := dg_seen s; ordered := ordered s; sbuf := sbuf s; must := must s; deliver_small := deliver_small s; settle_from := settle_from s |}
                else None
    | None => None
    end
  else if op =? 7 then
    let d := match sget (rs s) k with Some d => d | None => rd0 end in
    let w := match sget (ws s) (peer e, idx, sid) with Some w => w | None => wr0 end in
    match reset_code w with
    | Some c => if (c =? fld r 6) && negb (ended d) then
                  Some {| ws := ws s; rs := sset (rs s) k {| next := next d; ranges := ranges d; ended := true |};
                          dg_sent := dg_sent s; dg_seen := dg_seen s; ordered := ordered s; sbuf := sbuf s; must := must s; deliver_small := deliver_small s; settle_from := settle_from s |}
                else None
    | None => None
    end
  else if op =? 8 then
    let d := match sget (rs s) k with Some d => d | None => rd0 end in
    Some {| ws := ws s; rs := sset (rs s) k {| next := next d; ranges := ranges d; ended := true |};
            dg_sent := dg_sent s; dg_seen := dg_seen s; ordered := ordered s; sbuf := sbuf s; must := must s; deliver_small := deliver_small s; settle_from := settle_from s |}
  else if op =? 9 then
    (* datagram send(id, size, result, max_size, buffer space) *)
    let res := fld r 7 in
    let size := fld r 6 in
    let mx := fld r 8 in
    if res =? 0 then
      if (0 <=? mx) && (size <=? mx) then
        let l := match aget (dg_sent s) (e, idx) with Some l => l | None => [] end in
        if negb (existsb (Z.eqb sid) l) then
          Some {| ws := ws s; rs := rs s; dg_sent := aset (dg_sent s) (e, idx) (sid :: l);
                  dg_seen := dg_seen s; ordered := ordered s; sbuf := sbuf s;
                  must := if (size <=? 1100) && (settle_from s <=? rtime r) then (e, idx, sid) :: must s else must s;
                  deliver_small := deliver_small s; settle_from := settle_from s |}
        else None
      else None
    else if res =? 3 then
      (* TooLarge only when it really does not fit the packet or the whole send buffer *)
      if (mx <? 0) || (mx <? size) || (sbuf s <? size) then Some s else None
    else Some s
  else if op =? 10 then
    (* datagram received: intact, sent by the peer, not delivered before *)
    let id := sid in
    let l := match aget (dg_sent s) (peer e, idx) with Some l => l | None => [] end in
    let seen := match aget (dg_seen s) (e, idx) with Some l => l | None => [] end in
    if (fld r 7 =? 1) && existsb (Z.eqb id) l && negb (existsb (Z.eqb id) seen) then
      Some {| ws := ws s; rs := rs s; dg_sent := dg_sent s;
              dg_seen := aset (dg_seen s) (e, idx) (id :: seen); ordered := ordered s; sbuf := sbuf s;
              must := filter (fun k => negb (skey_eqb k (peer e, idx, id))) (must s);
              deliver_small := deliver_small s; settle_from := settle_from s |}
    else None
  else Some s.

(** a 0-RTT rejection wipes the client's early streams: the harness marks it with record 13/7 *)
Definition step' (s : st) (r : list Z) : option st :=
  if (tag r =? 13) && (fld r 2 =? 7) then
    Some {| ws := filter (fun kv => negb ((let '(e, i, _) := fst kv in (e =? 0) && (i =? fld r 3)))) (ws s);
            rs := rs s; dg_sent := filter (fun kv => negb (key_eqb (fst kv) (0, fld r 3))) (dg_sent s);
            dg_seen := dg_seen s; ordered := ordered s; sbuf := sbuf s; must := must s; deliver_small := deliver_small s; settle_from := settle_from s |}
  else if (tag r =? 13) && (fld r 2 =? 4) then
    (* the link MTU changed: give the connection three seconds to notice and fall back *)
    Some {| ws := ws s; rs := rs s; dg_sent := dg_sent s; dg_seen := dg_seen s; ordered := ordered s;
            sbuf := sbuf s; must := []; deliver_small := deliver_small s; settle_from := rtime r + 3000000 |}
  else if (tag r =? 10) && deliver_small s then
    (* on a loss-free path every small datagram that send() accepted reaches the peer: a datagram
       stuck at the head of the queue (e.g. one that no longer fits the path) must not hold it back *)
    match must s with [] => Some s | _ => None end
  else step s r.

(** scenario key 904 (set by the generator on loss-free links for connections that are closed only
    when the workload is done): at the end every stream a sender finished - apart from stream index 0
    of each kind, which the scenario may reset or stop - has been read to its end by the peer's
    application: nothing that was written and acknowledged may be swallowed *)
Definition all_delivered (s : st) : bool :=
  forallb (fun kw =>
    let '((e, idx, sid), w) := kw in
    match fin_at w, reset_code w with
    | Some _, None =>
        (sid <? 4) ||
        match sget (rs s) (1 - e, idx, sid) with
        | Some r => ended r
        | None => false
        end
    | _, _ => true
    end) (ws s).

Definition step'' (all_seen : bool) (s : st) (r : list Z) : option st :=
  if (tag r =? 10) && all_seen && negb (all_delivered s) then None else step' s r.

Definition monitor (i : ops) (o : outs) : option Z :=
  snd (run_from (step'' (param i 904 0 =? 1)) 0 {| ws := []; rs := []; dg_sent := []; dg_seen := []; ordered := negb (param i 14 1 =? 0); sbuf := param i 51 65536; must := []; deliver_small := param i 903 0 =? 1; settle_from := 0 |} o).
