(** C20 trace monitor: twin runs of the REAL endpoints (simulator scenario key 901).

    Input: scenario parameters and [trace A ++ [[99]] ++ trace B] (projection of comps/sim_c20.py:
    every record except the state probes, of which a fixed sample, the first one with the Pacing
    timer armed and the first one after each handle_timeout call are kept).  Run B differs from run A as selected by key 901:
      1 identical replay            -> B must equal A record by record   (determinism: no ambient input)
      2 every instant + 977_777_777 -> B must equal A record by record   (trace times are relative: this
                                       is the executable form of [shift_equivariant] of Props/C20.v,
                                       observed on the whole real state machine)
      3 spurious handle_timeout / polls and early wake-ups added
                                    -> TX, RX, APP, EVENT, EPEVENT records must be equal up to the first
                                       instant at which the Pacing timer is armed in either run (the stated
                                       footprint of an extra poll_transmit: the token bucket is refilled
                                       lazily on the call and admits one datagram as soon as tokens >= MTU,
                                       the Pacing timer waits for a full burst; nothing else may change) or
                                       a drive ends with an already-due deadline (see [v3_lim]) —
                                       executable form of [spurious_timeout_noop] / [poll_on_empty_queues_is_noop]
      4 timers serviced up to 3 ms late -> no comparison (outputs legitimately differ)
    Per run (both halves, every variant):
      (i)   timeouts settle: at most [SETTLE_MAX] consecutive due handle_timeout calls of one connection
            at one instant (the simulator calls again at the same instant while poll_timeout <= now):
            executable form of [timeouts_settle_bounded];
      (ii)  a drained connection (ZOMBIE record) shows no transmit / event / endpoint event;
      (iii) right after a handle_timeout(now) call (first state probe of the connection at the same
            instant) no timer other than LossDetection and PushNewCid is armed at an instant before
            [now], and the KeepAlive timer (armed at now + whole microseconds) is unset or strictly
            after [now] — the strict handler contract [contract] of Model/TimerTable.v,
            by inspection true of every handler except the PTO branch of LossDetection (probe
            timers are truncated to microseconds, hence [<] for the ns-valued ones);
      (iv)  no PANIC record (handled by [run_from]), the drive loop settles (no ANOMALY 2), the run
            does not exhaust the step budget (END reason 3) nor the record budget of the projection
            (record 98). *)
From Coq Require Import ZArith List Bool.
From QV Require Import Lib.Corr Sys.Trace.
Import ListNotations.
Open Scope Z_scope.

Definition SETTLE_MAX : Z := 10.
Definition INF : Z := 4611686018427387904.

Fixpoint rec_eqb (a b : list Z) : bool :=
  match a, b with
  | [], [] => true
  | x :: a', y :: b' => Z.eqb x y && rec_eqb a' b'
  | _, _ => false
  end.

(** ---- per-run rules ------------------------------------------------------------------ *)
Record st := { chain : list (key * (Z * Z)); pend : list (key * Z) }.
Definition st0 : st := {| chain := []; pend := [] |}.

(** timer [j] (0..8, probe field 18 + j) after a handle_timeout call at [t] *)
Definition timer_ok (t : Z) (r : list Z) (j : nat) : bool :=
  let v := pf r (18 + j) in
  (v =? -1) ||
  match j with
  | 0%nat => true                                  (* LossDetection: PTO back-off, rule (i) *)
  | 7%nat => true                                  (* PushNewCid: re-armed by the endpoint's NewIdentifiers
                                                      answer, which the simulator delivers before the probe *)
  | 5%nat => t <? v                                (* KeepAlive *)
  | _ => t <=? v
  end.
Definition timers_ok (t : Z) (r : list Z) : bool :=
  forallb (timer_ok t r) (seq 0 9).

Definition step (s : st) (r : list Z) : option st :=
  if tag r =? 99 then Some st0
  else if tag r =? 7 then
    let s1 := {| chain := chain s; pend := aset (pend s) (rkey r) (rtime r) |} in
    if fld r 4 =? 1 then
      let n := match aget (chain s) (rkey r) with
               | Some (t, n) => if t =? rtime r then n + 1 else 1
               | None => 1
               end in
      if SETTLE_MAX <? n then None
      else Some {| chain := aset (chain s) (rkey r) (rtime r, n); pend := pend s1 |}
    else Some s1
  else if tag r =? 8 then
    match aget (pend s) (rkey r) with
    | Some t =>
        if t =? -1 then Some s
        else if (rtime r =? t) && negb (timers_ok t r) then None
        else Some {| chain := chain s; pend := aset (pend s) (rkey r) (-1) |}
    | None => Some s
    end
  else if tag r =? 12 then
    if (fld r 4 =? 0) && (fld r 5 =? 0) && (fld r 7 =? 0) then Some s else None
  else if tag r <? 0 then None                       (* -997 / -998: the simulator died or timed out on this case *)
  else if tag r =? 98 then None                      (* trace budget of the projection exceeded *)
  else if (tag r =? 11) && (fld r 4 =? 2) then None
  else if (tag r =? 10) && (fld r 2 =? 3) then None
  else Some s.

(** ---- twin comparison ---------------------------------------------------------------- *)
(** the records after the separator *)
Fixpoint after99 (o : list (list Z)) : option (list (list Z)) :=
  match o with
  | [] => None
  | r :: o' => if tag r =? 99 then Some o' else after99 o'
  end.

Section Cmp.
  Variable keep : list Z -> bool.
  Fixpoint skip (b : list (list Z)) : list (list Z) :=
    match b with
    | [] => []
    | r :: b' => if keep r then b else skip b'
    end.
  (** walk run A (up to the separator) and run B in step over the kept records; [Some i] = index
      (in the whole trace) of the first kept record of A that B does not reproduce, or of the
      separator when B has a surplus kept record *)
  Fixpoint cmp (i : Z) (a b : list (list Z)) : option Z :=
    match a with
    | [] => match skip b with [] => None | _ => Some i end
    | r :: a' =>
        if tag r =? 99 then match skip b with [] => None | _ => Some i end
        else if keep r then
          match skip b with
          | [] => Some i
          | r' :: b' => if rec_eqb r r' then cmp (i + 1) a' b' else Some i
          end
        else cmp (i + 1) a' b
    end.
End Cmp.

(** earliest instant, over both runs, at which (a) a state probe shows the Pacing timer armed, or
    (b) a connection ends a drive with a deadline that is already due, or a state probe taken during a
    drive shows a timer armed at an instant before the probe (a timer armed in the past while
    a datagram was handled - e.g. the PTO recomputed from the first RTT sample of a 0-RTT client, which
    the transmit that follows re-arms before the drive ends): a handle_timeout call at such an instant is not an extra call — it
    services the timer before instead of after the pending transmit, which legitimately changes the
    packetisation (e.g. PTO probes coalesced with a PATH_RESPONSE) *)
Definition v3_lim (o : list (list Z)) : Z :=
  fold_left (fun m r =>
    if (tag r =? 8) && negb (pf r 24 =? -1) then Z.min m (rtime r)
    else if (tag r =? 8) && existsb (fun j => (0 <=? pf r (18 + j)) && (pf r (18 + j) <? rtime r)) (seq 0 9) then Z.min m (rtime r)
    else if (tag r =? 6) && (0 <=? fld r 4) && (fld r 4 <=? rtime r) then Z.min m (rtime r)
    else m) o INF.

Definition keep_all (r : list Z) : bool := true.
Definition keep_v3 (lim : Z) (r : list Z) : bool :=
  ((tag r =? 1) || (tag r =? 2) || (tag r =? 3) || (tag r =? 4) || (tag r =? 5)) && (rtime r <? lim).

Definition twin_ok (twin : Z) (o : list (list Z)) : option Z :=
  match after99 o with
  | None => if (1 <=? twin) && (twin <=? 5) then Some 0 else None   (* a twin scenario without run B *)
  | Some b =>
      if (twin =? 1) || (twin =? 2) then cmp keep_all 0 o b
      else if twin =? 3 then cmp (keep_v3 (v3_lim o)) 0 o b
      else None
  end.

Definition monitor (i : ops) (o : outs) : option Z :=
  match snd (run_from step 0 st0 o) with
  | Some k => Some k
  | None => twin_ok (param i 901 0) o
  end.
