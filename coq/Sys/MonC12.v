(** C12 trace monitor: every transmit of the real connection is a step the send-gate model
    allows, and the in-flight accounting invariant holds in every probed state.
    Projection expected: records with tag 8 (probe) and tag 1 (transmit), in trace order. *)
From Coq Require Import ZArith List Bool.
From QV Require Import Lib.Corr Sys.Trace.
Import ListNotations.
Open Scope Z_scope.

(** in-flight bookkeeping invariant of one probed state:
    bytes = sum of tracked sizes, ack-eliciting = number of tracked ack-eliciting packets (current
    path generation), nothing tracked => nothing in flight, probe budget bounded. *)
Definition inv_probe (p : list Z) : bool :=
  (pf p 4 =? pf p 10) && (pf p 5 =? pf p 11)
  && ((negb (pf p 28 =? 0)) || (pf p 4 =? 0))
  && (0 <=? pf p 16) && (pf p 16 <=? 6) && (0 <=? pf p 4).

(** the send gate: a transmit that put new ack-eliciting packets in flight while the window was
    already reached must be one of the exempt kinds *)
Definition exempt (b tx : list Z) : bool :=
  (0 <? pf b 16)                        (* loss probes pending: <= 2 per PTO per space *)
  || (pf b 9 =? 1)                      (* the closing packet *)
  || ((fld tx 6 =? 0) && (pf b 7 <? fld tx 5))   (* single MTU probe *)
  || (pf b 14 =? 1) || (pf b 15 =? 1) || (pf b 29 =? 1)  (* path validation traffic *)
  || negb (fld tx 4 =? premote b).      (* off-path response *)

Definition gate_ok (b tx a : list Z) : bool :=
  negb (pf b 5 <? pf a 5) || exempt b tx || (pf a 4 <? Z.max (pf b 6) (pf a 6)).

(** KNOWN FINDING coalesced-behind-ack-only (known_findings.txt): poll_transmit checks the
    congestion window only when it starts a datagram; ack-eliciting packets of a later space that
    are coalesced into a datagram begun by a non-ack-eliciting long-header packet (handshake
    ACKs) are not checked: each such datagram (a single one, at most one MTU, beginning with a long-header
    packet) can carry bytes in flight past the window, and consecutive ones accumulate.
    Exempted only when the scenario carries key 902. *)
Definition known_class (b tx a : list Z) : bool :=
  Z.testbit (fld tx 9) 0 && (fld tx 6 =? 0) && (fld tx 5 <=? pf b 7).

Record st := { last : list (key * list Z); pend : option (list Z * list Z); known_ok : bool }.
Definition st0 (k : bool) : st := {| last := []; pend := None; known_ok := k |}.

Definition step (s : st) (r : list Z) : option st :=
  if tag r =? 8 then
    if negb (inv_probe r) then None
    else
      match pend s with
      | Some (b, tx) =>
          if key_eqb (rkey b) (rkey r) then
            if gate_ok b tx r || (known_ok s && known_class b tx r) then Some {| last := aset (last s) (rkey r) r; pend := None; known_ok := known_ok s |}
            else None
          else Some {| last := aset (last s) (rkey r) r; pend := None; known_ok := known_ok s |}
      | None => Some {| last := aset (last s) (rkey r) r; pend := None; known_ok := known_ok s |}
      end
  else if (tag r =? 1) && (fld r 8 =? 0) then
    match aget (last s) (rkey r) with
    | Some b => Some {| last := last s; pend := Some (b, r); known_ok := known_ok s |}
    | None => None
    end
  else Some s.

(** clean link: nothing may ever be declared lost (scenario flag 900 = 1 set by the generator
    when loss = dup = corruption = 0, constant delay, link MTU >= probe bound) *)
Definition clean_ok (i : ops) (r : list Z) : bool :=
  negb ((param i 900 0 =? 1) && (tag r =? 8)) || (sf r 4 =? 0).

Definition monitor (i : ops) (o : outs) : option Z :=
  match snd (run_from (fun s r => if clean_ok i r then step s r else None) 0 (st0 (param i 902 0 =? 1)) o) with
  | Some k => Some k
  | None => None
  end.
