(** C02 trace monitor: under fair loss the event-driven workload completes — no quiescence with
    unfinished work, no anomaly, no error between honest peers.
    Projection expected: tags 4, 10, 11, 12, 14. *)
From Coq Require Import ZArith List Bool.
From QV Require Import Lib.Corr Sys.Trace.
Import ListNotations.
Open Scope Z_scope.

Record st := { nclient_out : Z; zero_rtt : bool; closer : Z; ok_end : bool; closed : list key; slow_reader : bool;
               nserver_out : Z (* scenario key 908: the server application must have been able to open all its streams *) }.

Definition step (s : st) (r : list Z) : option st :=
  if tag r =? 11 then None
  else if tag r =? 12 then
    (* a drained connection produces no output (a leftover key-discard deadline is not output) *)
    if (fld r 4 =? 0) && (fld r 5 =? 0) && (fld r 7 =? 0) then Some s else None
  else if tag r =? 4 then
    (* ConnectionLost between honest peers: only the peer's application close *)
    if (fld r 4 =? 3) && (ridx r <? 255) then
      if (fld r 5 =? 4) && ((fld r 6 =? 42) || (fld r 6 =? 43) || (fld r 6 =? 41)) then Some s
      (* the peer had to close before 1-RTT keys were usable: generic APPLICATION_ERROR (0x0c) *)
      else if (fld r 5 =? 3) && (fld r 6 =? 12) && existsb (key_eqb (1 - rep r, ridx r)) (closed s) then Some s
      (* the peer finished and closed, its close packet was lost: idle timeout (or a reset by the
         endpoint that already forgot the connection) is the legitimate end *)
      else if ((fld r 5 =? 6) || (fld r 5 =? 5)) && existsb (key_eqb (1 - rep r, ridx r)) (closed s) then Some s
      else None
    else Some s
  else if (tag r =? 3) && (fld r 4 =? 11) then
    Some {| nclient_out := nclient_out s; zero_rtt := zero_rtt s; closer := closer s; ok_end := ok_end s;
            closed := rkey r :: closed s; slow_reader := slow_reader s; nserver_out := nserver_out s |}
  else if tag r =? 14 then
    (* summary: [14,t,ep,ch,idx,connected,lost,closed_local,n_out,done_out,n_in,done_in,zombie] *)
    if 255 <=? fld r 4 then Some s else
    let warm := zero_rtt s && (fld r 4 =? 0) in
    if warm then Some s else
    let connected := fld r 5 =? 1 in
    let n_out := fld r 8 in
    let done_out := fld r 9 in
    let n_in := fld r 10 in
    let done_in := fld r 11 in
    let want := if (rep r =? 0) && negb warm then nclient_out s else nserver_out s in
    (* the side that closes (the client: CLOSER = 0) has seen every one of its streams finished and
       acknowledged; the other side has read everything to the end (its own FINs may still have been
       awaiting their acknowledgement when the peer's close arrived) *)
    let closer_side := rep r =? 0 in
    if (negb closer_side || (connected && (n_out =? done_out))) && ((n_in =? done_in) || (slow_reader s && negb closer_side)) && (want <=? n_out) then Some s else None
  else if tag r =? 10 then
    (* the run ended because nothing was left to do (1); running into the time limit (2) is
       accepted only because every workload connection has already been found complete by the
       summary records above (a half-open attempt without idle timeout may keep probing) *)
    if (fld r 2 =? 1) || (fld r 2 =? 2) then Some {| nclient_out := nclient_out s; zero_rtt := zero_rtt s; closer := closer s; ok_end := true; closed := closed s; slow_reader := slow_reader s; nserver_out := nserver_out s |}
    else None
  else Some s.

Definition monitor (i : ops) (o : outs) : option Z :=
  match run_from step 0 {| nclient_out := if param i 80 0 =? 1 then 0 else param i 9 1 + param i 10 0; zero_rtt := 0 <? param i 44 0;
                           closer := param i 19 0; ok_end := false; closed := []; slow_reader := 0 <? param i 75 0;
                           nserver_out := if param i 908 0 =? 1 then param i 53 0 else 0 |} o with
  | (_, Some k) => Some k
  | (s, None) => if ok_end s then None else Some (-1 + Z.of_nat (length o))
  end.
