(** C08 trace monitor: lifecycle — reported lost at most once and never after a local close,
    drained exactly once, silent afterwards, close timer within 3 PTO, a local close announced
    by the very next poll, TimedOut not before the connection's own Idle deadline.
    Projection expected: tags 1,2,3,4,5,6,8,10,11,12,13,15 in trace order. *)
From Coq Require Import ZArith List Bool.
From QV Require Import Lib.Corr Sys.Trace.
Import ListNotations.
Open Scope Z_scope.

Record cst := {
  lost : bool; drained : bool; closed_local : bool;
  entry : option (Z * Z);        (* time the Close timer must fire by, entry time *)
  expect_tx : bool;              (* close() called, close packet not yet seen *)
  last_rx : Z; last_tx : Z;
  lastp : list Z;                (* last probe *)
}.
Definition c0 : cst := {| lost := false; drained := false; closed_local := false; entry := None;
                          expect_tx := false; last_rx := 0; last_tx := 0; lastp := [] |}.
Record st := { cs : list (key * cst); created : list (Z * Z) (* ep -> live count *) ; late : Z;
               known_ok : bool (* scenario key 902: exempt the listed known finding *) }.

Definition getc (s : st) (k : key) : cst := match aget (cs s) k with Some c => c | None => c0 end.
Definition setc (s : st) (k : key) (c : cst) : st :=
  {| cs := aset (cs s) k c; created := created s; late := late s; known_ok := known_ok s |}.

Fixpoint cnt_get (m : list (Z * Z)) (e : Z) : Z :=
  match m with [] => 0 | (e', n) :: r => if Z.eqb e e' then n else cnt_get r e end.
Fixpoint cnt_add (m : list (Z * Z)) (e d : Z) : list (Z * Z) :=
  match m with
  | [] => [(e, d)]
  | (e', n) :: r => if Z.eqb e e' then (e', n + d) :: r else (e', n) :: cnt_add r e d
  end.

Definition step (s : st) (r : list Z) : option st :=
  let k := rkey r in
  let c := getc s k in
  let t := rtime r in
  (* [-999] panic, [-998] the harness had to kill a run that did not terminate, [-997] crash *)
  if tag r <? 0 then None else
  if tag r =? 8 then
    (* probe: entering Closed/Draining arms the close timer within 3 PTO *)
    let stt := pf r 0 in
    let closedish := (stt =? 2) || (stt =? 3) in
    let c1 :=
      match entry c with
      | None => if closedish then
                  {| lost := lost c; drained := drained c; closed_local := closed_local c;
                     entry := Some (pf r 20, t); expect_tx := expect_tx c;
                     last_rx := last_rx c; last_tx := last_tx c; lastp := r |}
                else {| lost := lost c; drained := drained c; closed_local := closed_local c;
                        entry := None; expect_tx := expect_tx c;
                        last_rx := last_rx c; last_tx := last_tx c; lastp := r |}
      | Some _ => {| lost := lost c; drained := drained c; closed_local := closed_local c;
                     entry := entry c; expect_tx := expect_tx c;
                     last_rx := last_rx c; last_tx := last_tx c; lastp := r |}
      end in
    let ok :=
      match entry c with
      | None => negb closedish || ((0 <=? pf r 20) && (pf r 20 <=? t + 3 * pf r 12 + 4))
      | Some _ => true
      end in
    (* a drained connection has no timers armed - except KeyDiscard (21) and PushNewCid (25): the
       latter is re-armed by a NewIdentifiers answer of the endpoint that arrives after close();
       letting it expire is a no-op (the zombie rule below rejects any endpoint event, transmit or
       application event of a drained connection, whose deadlines the simulator keeps servicing) *)
    let ok2 := negb (stt =? 4) ||
               forallb (fun i => pf r i =? -1) [18;19;20;22;23;24;26]%nat in
    if ok && ok2 then Some (setc s k c1) else None
  else if tag r =? 1 then
    if fld r 8 =? 0 then
      if drained c then None
      else Some (setc s k {| lost := lost c; drained := drained c; closed_local := closed_local c;
                             entry := entry c; expect_tx := false;
                             last_rx := last_rx c; last_tx := t; lastp := lastp c |})
    else Some s
  else if tag r =? 2 then
    (* genuine or duplicated datagram routed to a connection restarts nothing here; remember time *)
    if (fld r 5 =? 1) && ((fld r 9 =? 0) || (fld r 9 =? 2)) then
      let k2 := (rep r, fld r 6) in
      let c2 := getc s k2 in
      Some (setc s k2 {| lost := lost c2; drained := drained c2; closed_local := closed_local c2;
                         entry := entry c2; expect_tx := expect_tx c2;
                         last_rx := t; last_tx := last_tx c2; lastp := lastp c2 |})
    else Some s
  else if tag r =? 3 then
    let op := fld r 4 in
    if (op =? 20) || (op =? 21) then
      Some {| cs := cs s; created := cnt_add (created s) (rep r) 1; late := late s; known_ok := known_ok s |}
    else if op =? 11 then
      (* local close: the close packet is due at once unless the path is still
         amplification-limited or the connection was already lost *)
      let limited := (pf (lastp c) 1 =? 0) in
      let dead := lost c || (2 <=? pf (lastp c) 0) in
      Some (setc s k {| lost := lost c; drained := drained c; closed_local := true;
                        entry := entry c; expect_tx := negb limited && negb dead;
                        last_rx := last_rx c; last_tx := last_tx c; lastp := lastp c |})
    else Some s
  else if tag r =? 4 then
    if drained c then None
    else if fld r 4 =? 3 then
      (* ConnectionLost: once, never after a local close.
         KNOWN FINDING lost-after-local-close (known_findings.txt): a stateless reset that arrives
         while a connection that is already closed (locally, or by the peer and already reported) is
         still closing / draining is reported as ConnectionLost{Reset};
         the repository's own test client_stateless_reset pins that behaviour. Exempted only when
         the scenario carries key 902 (set by the driver after classifying the failure). *)
      if known_ok s && (closed_local c || lost c) && (fld r 5 =? 5) then
        Some (setc s k {| lost := true; drained := drained c; closed_local := closed_local c;
                          entry := entry c; expect_tx := expect_tx c;
                          last_rx := last_rx c; last_tx := last_tx c; lastp := lastp c |})
      else
      if lost c || closed_local c then None
      else
        (* TimedOut only when the connection's own Idle deadline (last probe, p19) has passed.
           (The former rule "last routed datagram + idle <= t" was unsound: a routed datagram
           that is a duplicate or cannot be decrypted does not restart the timer. That the
           deadline itself lies >= idle after every ACCEPTED packet is Props/C08.v
           C08_idle_window_lower, checked on the traces by Sys/MonLifecycle.v.) *)
        let timed_ok :=
          negb (fld r 5 =? 6) ||
          ((0 <=? pf (lastp c) 19) && (pf (lastp c) 19 <=? t)
           (* and an idle timeout is negotiated at all (p13 = -1: none) *)
           && (0 <=? pf (lastp c) 13)) in
        if timed_ok then
          Some (setc s k {| lost := true; drained := drained c; closed_local := closed_local c;
                            entry := entry c; expect_tx := expect_tx c;
                            last_rx := last_rx c; last_tx := last_tx c; lastp := lastp c |})
        else None
    else Some s
  else if tag r =? 5 then
    if fld r 4 =? 1 then
      if drained c then None
      else
        let in_time :=
          match entry c with
          | Some (deadline, _) => (deadline <? 0) || (t <=? deadline + late s + 1)
          | None => true
          end in
        if in_time then
          Some {| cs := aset (cs s) k {| lost := lost c; drained := true; closed_local := closed_local c;
                                         entry := entry c; expect_tx := false;
                                         last_rx := last_rx c; last_tx := last_tx c; lastp := lastp c |};
                  created := cnt_add (created s) (rep r) (-1); late := late s; known_ok := known_ok s |}
        else None
    else if drained c then None else Some s
  else if tag r =? 6 then
    (* end of a drive: a close() must have produced its packet by now *)
    if expect_tx c then None else Some s
  else if tag r =? 11 then
    (* a datagram was routed to the handle of a connection the endpoint had forgotten: one of its
       identifiers kept routing after Drained *)
    if fld r 4 =? 1 then None else Some s
  else if tag r =? 12 then
    if (fld r 4 =? 0) && (fld r 5 =? 0) && (fld r 7 =? 0) then Some s else None
  else if (tag r =? 13) && (fld r 2 =? 11) then
    (* the process behind endpoint [fld r 3] restarted: its connections are gone without a trace *)
    Some {| cs := cs s; created := cnt_add (created s) (fld r 3) (- cnt_get (created s) (fld r 3));
            late := late s; known_ok := known_ok s |}
  else if tag r =? 15 then
    if fld r 3 =? cnt_get (created s) (rep r) then Some s else None
  else Some s.

Definition monitor (i : ops) (o : outs) : option Z :=
  match o with [] => Some 0 | _ => (* an empty trace is not a run *)
  snd (run_from step 0 {| cs := []; created := []; late := param i 41 0; known_ok := param i 902 0 =? 1 |} o)
  end.
