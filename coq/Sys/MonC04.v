(** C04 / C09 trace monitor: each genuine packet is processed at most once (frames received of a
    kind never exceed frames the peer transmitted), datagrams are routed to the connection that
    owns them, forged/corrupted/replayed input ends nothing.
    Projection expected: tags 2, 4, 8 (last probe per connection matters), 11, 14. *)
From Coq Require Import ZArith List Bool.
From QV Require Import Lib.Corr Sys.Trace.
Import ListNotations.
Open Scope Z_scope.

Record st := { lastp : list (key * list Z) }.

(** frames of kind [j] (stats index of tx; rx is j+1) *)
Definition le_tx (rxp txp : list Z) (j : nat) : bool := sf rxp (j + 1) <=? sf txp j.

Definition final_ok (s : st) : bool :=
  forallb (fun kv =>
    let '((e, idx), p) := kv in
    match aget (lastp s) (1 - e, idx) with
    | Some q => le_tx p q 8 && le_tx p q 10 && le_tx p q 12
    | None => true
    end) (lastp s).

Definition step (s : st) (r : list Z) : option st :=
  if tag r =? 8 then Some {| lastp := aset (lastp s) (rkey r) r |}
  else if tag r =? 2 then
    (* routing: a datagram produced by connection [origin] is handed to that connection only *)
    let out := fld r 5 in
    let origin := fld r 8 in
    (* a replayed Initial whose connection is gone legitimately opens a fresh attempt
       (index 255: no pair identity); genuine and in-flight duplicates must reach their owner *)
    let fresh_attempt := (out =? 2) && (fld r 6 =? 255) && ((fld r 9 =? 5) || (fld r 9 =? 6)) in
    if ((out =? 1) || (out =? 2)) && (0 <=? origin) && negb (fld r 6 =? origin) && negb fresh_attempt then None
    else Some s
  else if tag r =? 11 then None
  else if tag r =? 4 then
    if (fld r 4 =? 3) && negb (ridx r =? 255) then
      (* no reset, no transport error, no version mismatch caused by the attacker *)
      if (fld r 5 =? 4) && ((fld r 6 =? 42) || (fld r 6 =? 43) || (fld r 6 =? 41)) then Some s else None
    else Some s
  else if tag r =? 10 then
    if final_ok s then Some s else None
  else Some s.

Definition monitor (i : ops) (o : outs) : option Z :=
  snd (run_from step 0 {| lastp := [] |} o).
