(** C04 / C09 trace monitor: each genuine packet is processed at most once (frames received of a
    kind never exceed frames the peer transmitted), datagrams are routed to the connection that
    owns them, forged/corrupted/replayed input ends nothing.
    Projection expected: tags 2, 4, 8 (last probe per connection matters), 11, 14, and 19 / 18 around
    datagrams that consist of a Retry or Version Negotiation packet. *)
From Coq Require Import ZArith List Bool.
From QV Require Import Lib.Corr Sys.Trace.
Import ListNotations.
Open Scope Z_scope.

Record st := { lastp : list (key * list Z); resp : list key (* (endpoint that sent a stateless response, pair index of the datagram that provoked it) *);
               connected : list key; born : list key (* one entry per incarnation *);
               closed : list key (* close() called locally *);
               genuine : list key (* received an intact genuine datagram *); lossy : bool ; restarted : bool (* the server process restarted (WORLD 13/11) *);
               gone : list key (* connections whose endpoint has forgotten them (Drained) *);
               rotating : bool (* CID_LIFETIME_MS > 0: issued CIDs are retired and stop routing *);
               shortcid : bool (* CID_LEN <= 2: a retired or released CID value is soon issued again *);
               offpath : list Z (* pair indices whose server side was created by a datagram from an address the
                                   attacker owns (a copy of the client's Initial that won the race): that
                                   connection's path leads to the attacker, who relays what it likes *);
               vnok : list key (* clients seen - by the probe right before an unprotected datagram - still handshaking
                                  without having processed a single CRYPTO or ACK frame: no server packet accepted yet *);
               pendu : option (key * list Z) (* state of a connection right before it was handed a datagram that
                                                consists of an unprotected (Retry / Version Negotiation) packet *) }.

(** frames of kind [j] (stats index of tx; rx is j+1) *)
Definition le_tx (rxp txp : list Z) (j : nat) : bool := sf rxp (j + 1) <=? sf txp j.

(** later incarnations of a pair (opened by a replayed or delayed Initial) carry index + 1000 * n *)
Definition incarnations (s : st) (k : key) : nat :=
  length (filter (fun b => (fst b =? fst k) && ((snd b) mod 1000 =? (snd k) mod 1000)) (born s)).

(** compared only where both sides had a single incarnation (a replayed Initial may open a
    second, unrelated attempt under the same pair index) *)
Definition final_ok (s : st) : bool :=
  forallb (fun kv =>
    let '((e, idx), p) := kv in
    match aget (lastp s) (1 - e, idx) with
    | Some q =>
        Nat.ltb 1 (incarnations s (e, idx)) || Nat.ltb 1 (incarnations s (1 - e, idx))
        || (le_tx p q 8 && le_tx p q 10 && le_tx p q 12)
    | None => true
    end) (lastp s).

Definition step (s : st) (r : list Z) : option st :=
  if tag r =? 8 then Some {| lastp := aset (lastp s) (rkey r) r; resp := resp s; connected := connected s; born := born s; closed := closed s; genuine := genuine s; lossy := lossy s; restarted := restarted s; gone := gone s; rotating := rotating s; shortcid := shortcid s; offpath := offpath s; vnok := vnok s; pendu := pendu s |}
  else if tag r =? 2 then
    (* routing: a datagram produced by connection [origin] is handed to that connection only *)
    let out := fld r 5 in
    let origin := fld r 8 in
    (* a replayed Initial whose connection is gone legitimately opens a fresh attempt
       (index 255: no pair identity); genuine and in-flight duplicates must reach their owner *)
    (* ... and so does any Initial that reaches a server process that has restarted *)
    (* ... or a late duplicate whose owner the endpoint has meanwhile forgotten (Drained) *)
    let fresh_attempt := (out =? 2) && ((fld r 9 =? 5) || (fld r 9 =? 6) || restarted s
                                        || existsb (key_eqb (rep r, origin)) (gone s)
                                        (* ... or a delayed duplicate addressed to a CID that has been retired by rotation *)
                                        || ((fld r 9 =? 2) && rotating s)) in
    (* a corrupted datagram (pkind 3) may carry a damaged CID and reach another connection, which
       then fails to authenticate it: only intact copies are judged *)
    (* with 1- or 2-byte CIDs a CID value that was retired (rotation) or released (its connection was
       forgotten) is soon issued to another connection: an old copy of a datagram addressed to it
       reaches the new owner, which fails to authenticate it *)
    let reissued := shortcid s && ((fld r 9 =? 2) || (fld r 9 =? 5) || (fld r 9 =? 6))
                    && (rotating s || existsb (key_eqb (rep r, origin)) (gone s)) in
    if ((out =? 1) || (out =? 2)) && (0 <=? origin) && negb (fld r 9 =? 3)
       && negb ((fld r 6) mod 1000 =? origin mod 1000) && negb fresh_attempt && negb reissued then None
    else if (out =? 2) && ((fld r 9 =? 6) || (fld r 9 =? 7)) && (2 <=? fld r 3) then
      Some {| lastp := lastp s; resp := resp s; connected := connected s; born := born s; closed := closed s; genuine := genuine s;
              lossy := lossy s; restarted := restarted s; gone := gone s; rotating := rotating s; shortcid := shortcid s;
              offpath := (fld r 6) mod 1000 :: offpath s; vnok := vnok s; pendu := pendu s |}
    else if out =? 3 then Some {| lastp := lastp s; resp := (rep r, origin mod 1000) :: resp s; connected := connected s; born := born s; closed := closed s; genuine := genuine s; lossy := lossy s; restarted := restarted s; gone := gone s; rotating := rotating s; shortcid := shortcid s; offpath := offpath s; vnok := vnok s; pendu := pendu s |}
    else if (out =? 1) && ((fld r 9 =? 0) || (fld r 9 =? 2)) then
      Some {| lastp := lastp s; resp := resp s; connected := connected s; born := born s; closed := closed s;
              genuine := (rep r, fld r 6) :: genuine s; lossy := lossy s; restarted := restarted s; gone := gone s; rotating := rotating s; shortcid := shortcid s; offpath := offpath s; vnok := vnok s; pendu := pendu s |}
    else Some s
  else if (tag r =? 3) && ((fld r 4 =? 20) || (fld r 4 =? 21)) then
    (* a new incarnation under this pair index has not connected yet *)
    Some {| lastp := lastp s; resp := resp s;
            connected := filter (fun k => negb (key_eqb k (rkey r))) (connected s);
            born := rkey r :: born s; closed := closed s; genuine := genuine s; lossy := lossy s; restarted := restarted s; gone := gone s; rotating := rotating s; shortcid := shortcid s; offpath := offpath s; vnok := vnok s; pendu := pendu s |}
  else if (tag r =? 3) && (fld r 4 =? 11) then
    Some {| lastp := lastp s; resp := resp s; connected := connected s; born := born s;
            closed := rkey r :: closed s; genuine := genuine s; lossy := lossy s; restarted := restarted s; gone := gone s; rotating := rotating s; shortcid := shortcid s; offpath := offpath s; vnok := vnok s; pendu := pendu s |}
  else if (tag r =? 13) && (fld r 2 =? 11) then
    Some {| lastp := lastp s; resp := resp s; connected := connected s; born := born s; closed := closed s;
            genuine := genuine s; lossy := lossy s; restarted := true; gone := gone s; rotating := rotating s; shortcid := shortcid s; offpath := offpath s; vnok := vnok s; pendu := pendu s |}
  else if (tag r =? 5) && (fld r 4 =? 1) then
    Some {| lastp := lastp s; resp := resp s; connected := connected s; born := born s; closed := closed s;
            genuine := genuine s; lossy := lossy s; restarted := restarted s; gone := rkey r :: gone s; rotating := rotating s; shortcid := shortcid s; offpath := offpath s; vnok := vnok s; pendu := pendu s |}
  else if tag r =? 11 then None
  (* Retry and Version Negotiation packets are not protected by the connection's keys: whatever their
     bytes, a connection other than a client that is still handshaking neither changes state nor
     processes a frame (19 = the connection's probe before, 18 = right after such a datagram) *)
  else if tag r =? 19 then
    Some {| lastp := lastp s; resp := resp s; connected := connected s; born := born s; closed := closed s;
            genuine := genuine s; lossy := lossy s; restarted := restarted s; gone := gone s; rotating := rotating s;
            shortcid := shortcid s; offpath := offpath s; vnok := vnok s; pendu := Some (rkey r, r) |}
  else if tag r =? 18 then
    match pendu s with
    | Some (k, p) =>
        if key_eqb k (rkey r) then
          if ((rep r =? 0) && (pf p 0 =? 0))
             || ((pf p 0 =? pf r 0) && (sf p 9 =? sf r 9) && (sf p 11 =? sf r 11) && (sf p 13 =? sf r 13) && (sf p 15 =? sf r 15)
                 (* ... nor are they evidence of a live peer: the Idle and KeepAlive timers stay as they were *)
                 && (pf p 19 =? pf r 19) && (pf p 23 =? pf r 23))
          then Some {| lastp := lastp s; resp := resp s; connected := connected s; born := born s; closed := closed s;
                       genuine := genuine s; lossy := lossy s; restarted := restarted s; gone := gone s; rotating := rotating s;
                       shortcid := shortcid s; offpath := offpath s;
                       vnok := if (rep r =? 0) && (pf p 0 =? 0) && (sf p 11 =? 0) && (sf p 15 =? 0) then k :: vnok s else vnok s;
                       pendu := None |}
          else None
        else Some s
    | None => Some s
    end
  else if tag r =? 4 then
    if (fld r 4 =? 3) && (ridx r <? 255) then
      (* no transport error, no version mismatch caused by the attacker; a reset only if the peer
         endpoint really issued a stateless reset (it had forgotten the connection) *)
      if (fld r 5 =? 4) && ((fld r 6 =? 42) || (fld r 6 =? 43) || (fld r 6 =? 41)) then Some s
      (* ... and had indeed forgotten THIS connection: its side of the pair existed (reset tokens are only ever
         learnt from a live peer) and is now drained or was lost in a restart (a reset provoked by ANOTHER connection's datagram carries the
         token of that connection's CID and must not end this one) *)
      else if (fld r 5 =? 5) && existsb (fun p => fst p =? 1 - rep r) (resp s)
              && (let pk := (1 - rep r, ridx r) in
                  existsb (key_eqb pk) (born s)
                  && (existsb (key_eqb pk) (gone s) || (restarted s && (rep r =? 0)))) then Some s
      else if (fld r 5 =? 3) && (fld r 6 =? 12) && existsb (key_eqb (1 - rep r, ridx r)) (closed s) then Some s
      (* the peer closed but its close packet was lost or corrupted: timing out is all that is left *)
      else if (fld r 5 =? 6) && existsb (key_eqb (1 - rep r, ridx r)) (closed s) then Some s
      (* the server ENDPOINT may refuse an attempt with an Initial-protected CONNECTION_CLOSE (e.g.
         INVALID_TOKEN for a replayed Initial whose Retry token it no longer accepts); Initial keys
         derive from the client's public DCID, so whoever relays that datagram - or a copy of it -
         to a client that is still handshaking ends the attempt *)
      else if (fld r 5 =? 3) && (rep r =? 0) && negb (existsb (key_eqb (rkey r)) (connected s))
              && existsb (fun p => fst p =? 1) (resp s) then Some s
      (* a Version Negotiation packet may end a client that has not yet accepted any server packet *)
      else if (fld r 5 =? 1) && (rep r =? 0)
              && (negb (existsb (key_eqb (rkey r)) (genuine s)) || existsb (key_eqb (rkey r)) (vnok s)) then Some s
      (* heavy corruption or loss on the path is a denial of service by loss, not a forgery *)
      else if (fld r 5 =? 6) && lossy s then Some s
      (* the server process restarted: what it cannot answer with a stateless reset (long-header
         packets of an unfinished handshake) simply times out *)
      else if (fld r 5 =? 6) && restarted s then Some s
      (* the server side of the pair talks to the attacker's address: without a faithful relay both ends time out *)
      else if (fld r 5 =? 6) && existsb (Z.eqb ((ridx r) mod 1000)) (offpath s) then Some s
      (* a replayed Initial opens a fresh attempt ON THE SERVER that can only time out (a client attempt
         over a path that delivers must complete: forged Retry / Version Negotiation packets that do not
         verify leave it able to accept the genuine ones) *)
      else if (fld r 5 =? 6) && (rep r =? 1) && negb (existsb (key_eqb (rkey r)) (connected s)) then Some s
      else None
    else if fld r 4 =? 2 then Some {| lastp := lastp s; resp := resp s; connected := rkey r :: connected s; born := born s; closed := closed s; genuine := genuine s; lossy := lossy s; restarted := restarted s; gone := gone s; rotating := rotating s; shortcid := shortcid s; offpath := offpath s; vnok := vnok s; pendu := pendu s |}
    else Some s
  else if tag r =? 10 then
    (* after a restart the counters of the forgotten server connections are frozen: no comparison *)
    if restarted s || final_ok s then Some s else None
  else Some s.

Definition monitor (i : ops) (o : outs) : option Z :=
  snd (run_from step 0 {| lastp := []; resp := []; connected := []; born := []; closed := []; genuine := []; lossy := (100 <=? param i 6 0) || (100 <=? param i 2 0); restarted := false; gone := []; rotating := 0 <? param i 57 0; shortcid := param i 56 8 <=? 2; offpath := []; vnok := []; pendu := None |} o).
