(** C03 trace monitor for hostile TRANSPORT PARAMETERS through a live connection: the victim's
    crypto session hands [Connection] the genuine peer parameters after a structure-aware
    mutation of their wire encoding (harness/src/hostile_tp.rs; WORLD record
    [13,t,9,victim_side,idx,kind,decoded]).  Required:
      - no panic (record 16, rejected by [run_from]) and no unbounded loop (END reason 3);
      - an encoding that does not decode ends the victim connection with
        TRANSPORT_PARAMETER_ERROR (transport error code 8) — and nothing else does;
      - whatever the parameters, every OTHER connection pair is unaffected: it is never lost
        to a transport error, a reset or a timeout, and it completes its workload.
    Projection expected: tags 3 (op 22), 4 (kind 3), 13 (kinds 9, 10), 14, 10.  The link is loss-free. *)
From Coq Require Import ZArith List Bool.
From QV Require Import Lib.Corr Sys.Trace.
Import ListNotations.
Open Scope Z_scope.

Record st := {
  victim : option (key * Z);      (* (side, idx) and decoded flag *)
  victim_lost : bool
}.

Definition step (s : st) (r : list Z) : option st :=
  if (tag r =? 13) && (fld r 2 =? 9) then
    Some {| victim := Some ((fld r 3, fld r 4), fld r 6); victim_lost := victim_lost s |}
  else if (tag r =? 13) && (fld r 2 =? 10) then
    (* the parameters REMEMBERED with a session ticket were presented mutated (0-RTT): from here
       on this pair is the attacked one; a decoding failure only disables 0-RTT *)
    match victim s with
    | None => Some {| victim := Some ((fld r 3, fld r 4), 1); victim_lost := victim_lost s |}
    | Some _ => Some s
    end
  else if (tag r =? 4) && (fld r 4 =? 3) then
    let a := fld r 5 in
    let code := fld r 6 in
    let other_ok := (a =? 4) || (a =? 7) || ((a =? 3) && (code =? 0)) in
    match victim s with
    | Some (v, decoded) =>
        if key_eqb v (rkey r) then
          if decoded =? 0 then
            if (a =? 2) && (code =? 8) then Some {| victim := victim s; victim_lost := true |} else None
          else Some {| victim := victim s; victim_lost := true |}
        else if Z.eqb (ridx r) (snd v) then Some s      (* the peer of the victim learns of it *)
        else if other_ok then Some s else None
    | None =>
        (* before the attack: nobody may fail (idx of the later victim included) *)
        if other_ok then Some s else None
    end
  else if (tag r =? 3) && (fld r 4 =? 22) then
    (* [3,t,ep,-1,22,0,a,code,idx]: Endpoint::accept failed while handling the first packet *)
    match victim s with
    | Some (v, decoded) =>
        if key_eqb v (rep r, fld r 8) then
          if decoded =? 0 then
            if (fld r 6 =? 2) && (fld r 7 =? 8) then Some {| victim := victim s; victim_lost := true |} else None
          else Some {| victim := victim s; victim_lost := true |}
        else None
    | None => None
    end
  else if tag r =? 14 then
    (* [14,t,ep,ch,idx,connected,lost,closed_local,n_out,done_out,n_in,done_in,zombie] *)
    let idx := fld r 4 in
    let untouched := match victim s with Some (v, _) => negb (Z.eqb idx (snd v)) | None => true end in
    if untouched && (idx <? 255) then
      if (fld r 5 =? 1) && (fld r 8 =? fld r 9) && (fld r 10 =? fld r 11) then Some s else None
    else Some s
  else if tag r =? 10 then
    if fld r 2 =? 3 then None
    else match victim s with
         | Some (_, decoded) => if (decoded =? 0) && negb (victim_lost s) then None else Some s
         | None => Some s
         end
  else Some s.

(** C14 ("completes the handshake only if the server's transport parameters echo the connection
    IDs actually used"): with scenario key 906 the mutation concerns the connection-ID echo
    (initial_source_connection_id, original_destination_connection_id,
    retry_source_connection_id), so the victim CLIENT must end with TRANSPORT_PARAMETER_ERROR even
    though the encoding decodes: the world record is read as "must be rejected". *)
Definition strictify (strict : bool) (r : list Z) : list Z :=
  if strict && (tag r =? 13) && (fld r 2 =? 9) && (fld r 3 =? 0) then
    [13; rtime r; 9; fld r 3; fld r 4; fld r 5; 0]
  else r.

Definition monitor (i : ops) (o : outs) : option Z :=
  let strict := param i 906 0 =? 1 in
  snd (run_from (fun s r => step s (strictify strict r)) 0 {| victim := None; victim_lost := false |} o).
