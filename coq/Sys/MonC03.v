(** C03 / C06 trace monitor for hostile-but-authenticated frames: one endpoint's connection is
    made (by the cfg-guarded injection hook) to emit a frame sequence from the catalogue in
    harness/src/sim.rs [hostile_frames]; the victim must answer with a transport error of the
    class RFC 9000 prescribes for that violation, or ignore it where the protocol says so —
    never panic (record 16), never end any OTHER connection.
    Projection expected: tags 4 (kind 3), 13 (kind 8), 10. *)
From Coq Require Import ZArith List Bool.
From QV Require Import Lib.Corr Sys.Trace.
Import ListNotations.
Open Scope Z_scope.

(** transport error codes: 3 FLOW_CONTROL 4 STREAM_LIMIT 5 STREAM_STATE 6 FINAL_SIZE
    7 FRAME_ENCODING 9 CONNECTION_ID_LIMIT 10 PROTOCOL_VIOLATION 13 CRYPTO_BUFFER_EXCEEDED *)
Definition allowed (kind side dgram_buf : Z) : list Z :=
  if kind =? 1 then [4] else
  if kind =? 2 then [3] else
  if kind =? 3 then [3; 7] else
  if kind =? 4 then [3] else
  if (kind =? 5) || (kind =? 6) || (kind =? 7) then [5] else
  if kind =? 8 then [10] else
  if kind =? 9 then [7] else
  if kind =? 10 then [9] else
  if kind =? 11 then [10] else
  if (kind =? 12) || (kind =? 13) then (if side =? 0 then [10] else []) else
  if kind =? 14 then (if side =? 0 then [7; 10] else [7]) else
  if (kind =? 15) || (kind =? 29) then [13] else
  if kind =? 16 then (if (dgram_buf <? 300) then [10] else []) else
  if (kind =? 17) || (kind =? 18) || (kind =? 24) || (kind =? 26) || (kind =? 27) then [7] else
  if (kind =? 19) || (kind =? 20) then [6] else
  [].

Record st := { expect : option (key * Z * Z) (* victim, kind, side *); victim_lost : bool; dbuf : Z }.

Definition mem (x : Z) (l : list Z) : bool := existsb (Z.eqb x) l.

Definition step (s : st) (r : list Z) : option st :=
  if (tag r =? 13) && (fld r 2 =? 8) then
    if fld r 6 =? 1 then
      Some {| expect := Some ((1 - fld r 3, fld r 4), fld r 5, fld r 3); victim_lost := false; dbuf := dbuf s |}
    else Some s
  else if (tag r =? 4) && (fld r 4 =? 3) then
    let a := fld r 5 in
    let code := fld r 6 in
    match expect s with
    | Some (v, kind, side) =>
        if key_eqb v (rkey r) then
          let al := allowed kind side (dbuf s) in
          let ok :=
            if kind =? 23 then true
            else if kind =? 28 then (a =? 3) && (code =? 1)
            else match al with
                 | [] => negb (a =? 2)
                 | _ => (a =? 2) && mem code al
                 end in
          if ok then Some {| expect := expect s; victim_lost := true; dbuf := dbuf s |} else None
        else if Z.eqb (ridx r) (snd v) then Some s   (* the misbehaving side learns the close *)
        else if a =? 2 then None                    (* another connection was disturbed *)
        else Some s
    | None => if a =? 2 then None else Some s
    end
  else if tag r =? 10 then
    match expect s with
    | Some (_, kind, side) =>
        (* a frame that must be answered with an error was not silently accepted *)
        let al := allowed kind side (dbuf s) in
        match al with
        | [] => Some s
        | _ => if victim_lost s then Some s else None
        end
    | None => Some s
    end
  else Some s.

Definition monitor (i : ops) (o : outs) : option Z :=
  let db := param i 50 65536 in
  snd (run_from step 0 {| expect := None; victim_lost := false; dbuf := if db <? 0 then 0 else db |} o).
