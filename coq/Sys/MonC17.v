(** C17 trace monitor: early data is accepted exactly when the server kept its ticket key, and a
    rejection leaves the client with a fresh connection (stream numbering restarts at the first
    identifiers). Delivery exactly-once and completion are checked on the same traces by MonC01
    and MonC02.  Projection expected: tags 3 (ops 1, 20), 4 (kind 2), 13. *)
From Coq Require Import ZArith List Bool.
From QV Require Import Lib.Corr Sys.Trace.
Import ListNotations.
Open Scope Z_scope.

Record st := { mode : Z; no_redo : bool; rejected : list Z;
               fresh : list Z (* client idx whose next opens must restart numbering *);
               seen_bi : list Z; seen_uni : list Z }.

Definition rm (x : Z) (l : list Z) : list Z := filter (fun y => negb (y =? x)) l.
Definition mem (x : Z) (l : list Z) : bool := existsb (Z.eqb x) l.

Definition step (s : st) (r : list Z) : option st :=
  if (tag r =? 4) && (fld r 4 =? 2) && (rep r =? 0) then
    (* Connected(accepted, early data had been started) on a client connection *)
    let accepted := fld r 5 in
    let early := fld r 6 in
    if early =? 1 then
      if mode s =? 1 then (if accepted =? 1 then Some s else None)
      else if mode s =? 2 then (if accepted =? 0 then Some s else None)
      else Some s
    else Some s
  else if (tag r =? 13) && (fld r 2 =? 7) then
    Some {| mode := mode s; no_redo := no_redo s; rejected := fld r 3 :: rejected s; fresh := fld r 3 :: fresh s; seen_bi := rm (fld r 3) (seen_bi s);
            seen_uni := rm (fld r 3) (seen_uni s) |}
  else if (tag r =? 3) && (fld r 4 =? 1) && (rep r =? 0) then
    (* open(sid | -1, dir): after a rejection the first stream of each direction is stream 0 *)
    let idx := ridx r in
    let sid := fld r 5 in
    let dir := fld r 6 in
    if sid <? 0 then Some s
    else if mem idx (fresh s) then
      if dir =? 0 then
        if mem idx (seen_bi s) then Some s
        else if sid =? 0 then Some {| mode := mode s; no_redo := no_redo s; rejected := rejected s; fresh := fresh s; seen_bi := idx :: seen_bi s; seen_uni := seen_uni s |}
        else None
      else
        if mem idx (seen_uni s) then Some s
        else if sid =? 2 then Some {| mode := mode s; no_redo := no_redo s; rejected := rejected s; fresh := fresh s; seen_bi := seen_bi s; seen_uni := idx :: seen_uni s |}
        else None
    else Some s
  else if no_redo s && (rep r =? 1) && mem (ridx r) (rejected s)
          && (((tag r =? 4) && (fld r 4 =? 4)) || ((tag r =? 3) && (fld r 4 =? 12))) then
    (* early data was rejected and the client did nothing afterwards: nothing of the early
       attempt (not even a queued STOP_SENDING or RESET_STREAM) may open a stream at the server *)
    None
  else Some s.

Definition monitor (i : ops) (o : outs) : option Z :=
  snd (run_from step 0 {| mode := param i 44 0; no_redo := param i 80 0 =? 1; rejected := []; fresh := []; seen_bi := []; seen_uni := [] |} o).
