(** C17 trace monitor: early data is accepted exactly when the server kept its ticket key, and a
    rejection leaves the client with a fresh connection (stream numbering restarts at the first
    identifiers). Delivery exactly-once and completion are checked on the same traces by MonC01
    and MonC02.  Projection expected: tags 3 (ops 1, 20), 4 (kind 2), 13. *)
From Coq Require Import ZArith List Bool.
From QV Require Import Lib.Corr Sys.Trace.
Import ListNotations.
Open Scope Z_scope.

Record st := { mode : Z; no_redo : bool; rejected : list Z; all_seen : bool;
               opened : list (Z * Z) (* client idx -> streams opened *); accepted : list (Z * Z);
               fresh : list Z (* client idx whose next opens must restart numbering *);
               seen_bi : list Z; seen_uni : list Z }.

Definition rm (x : Z) (l : list Z) : list Z := filter (fun y => negb (y =? x)) l.
Definition mem (x : Z) (l : list Z) : bool := existsb (Z.eqb x) l.

Fixpoint cget (m : list (Z * Z)) (k : Z) : Z := match m with [] => 0 | (a, n) :: t => if a =? k then n else cget t k end.
Fixpoint cinc (m : list (Z * Z)) (k : Z) : list (Z * Z) :=
  match m with [] => [(k, 1)] | (a, n) :: t => if a =? k then (a, n + 1) :: t else (a, n) :: cinc t k end.

Definition step0 (s : st) (r : list Z) : option st :=
  if (tag r =? 4) && (fld r 4 =? 2) && (rep r =? 0) then
    (* Connected(accepted, early data had been started) on a client connection *)
    let accepted := fld r 5 in
    let early := fld r 6 in
    if early =? 1 then
      if mode s =? 1 then (if accepted =? 1 then Some s else None)
      else if mode s =? 2 then (if accepted =? 0 then Some s else None)
      else Some s
    else Some s
  else if (tag r =? 13) && (fld r 2 =? 7) then
    Some {| mode := mode s; no_redo := no_redo s; all_seen := all_seen s; opened := opened s; accepted := accepted s; rejected := fld r 3 :: rejected s; fresh := fld r 3 :: fresh s; seen_bi := rm (fld r 3) (seen_bi s);
            seen_uni := rm (fld r 3) (seen_uni s) |}
  else if (tag r =? 3) && (fld r 4 =? 1) && (rep r =? 0) then
    (* open(sid | -1, dir): after a rejection the first stream of each direction is stream 0 *)
    let idx := ridx r in
    let sid := fld r 5 in
    let dir := fld r 6 in
    if sid <? 0 then Some s
    else if mem idx (fresh s) then
      if dir =? 0 then
        if mem idx (seen_bi s) then Some s
        else if sid =? 0 then Some {| mode := mode s; no_redo := no_redo s; all_seen := all_seen s; opened := opened s; accepted := accepted s; rejected := rejected s; fresh := fresh s; seen_bi := idx :: seen_bi s; seen_uni := seen_uni s |}
        else None
      else
        if mem idx (seen_uni s) then Some s
        else if sid =? 2 then Some {| mode := mode s; no_redo := no_redo s; all_seen := all_seen s; opened := opened s; accepted := accepted s; rejected := rejected s; fresh := fresh s; seen_bi := seen_bi s; seen_uni := idx :: seen_uni s |}
        else None
    else Some s
  else if no_redo s && (rep r =? 1) && mem (ridx r) (rejected s)
          && (((tag r =? 4) && (fld r 4 =? 4)) || ((tag r =? 3) && (fld r 4 =? 12))) then
    (* early data was rejected and the client did nothing afterwards: nothing of the early
       attempt (not even a queued STOP_SENDING or RESET_STREAM) may open a stream at the server *)
    None
  else Some s.

(** on a loss-free path every stream the client opened in the attempt that counts (data, FIN or
    RESET_STREAM — also across a Retry) becomes known to the server application *)
Definition step (s : st) (r : list Z) : option st :=
  let s1 :=
    if (tag r =? 3) && (fld r 4 =? 1) && (rep r =? 0) && (0 <=? fld r 5) then
      {| mode := mode s; no_redo := no_redo s; all_seen := all_seen s; opened := cinc (opened s) (ridx r); accepted := accepted s;
         rejected := rejected s; fresh := fresh s; seen_bi := seen_bi s; seen_uni := seen_uni s |}
    else if (tag r =? 3) && (fld r 4 =? 12) && (rep r =? 1) then
      {| mode := mode s; no_redo := no_redo s; all_seen := all_seen s; opened := opened s; accepted := cinc (accepted s) (ridx r);
         rejected := rejected s; fresh := fresh s; seen_bi := seen_bi s; seen_uni := seen_uni s |}
    else if (tag r =? 13) && (fld r 2 =? 7) then
      {| mode := mode s; no_redo := no_redo s; all_seen := all_seen s;
         opened := filter (fun kv => negb (fst kv =? fld r 3)) (opened s); accepted := accepted s;
         rejected := rejected s; fresh := fresh s; seen_bi := seen_bi s; seen_uni := seen_uni s |}
    else s in
  if (tag r =? 10) && all_seen s then
    if forallb (fun kv => fst kv <? 1000) (opened s) &&
       forallb (fun kv => snd kv <=? cget (accepted s) (fst kv)) (opened s) then step0 s1 r else None
  else step0 s1 r.

Definition monitor (i : ops) (o : outs) : option Z :=
  snd (run_from step 0 {| mode := param i 44 0; no_redo := param i 80 0 =? 1; all_seen := param i 904 0 =? 1; opened := []; accepted := []; rejected := []; fresh := []; seen_bi := []; seen_uni := [] |} o).
