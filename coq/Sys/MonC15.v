(** C15 trace monitor: the path state machine of Model/PathSM.v replayed against the probes of
    real endpoints (executable form of the invariant [PathSMProofs.Inv] and of the step theorems
    of Props/C15.v). Projection expected: tags 8, 1, 2, 7, 13, 10.

    Per server connection the monitor keeps the MODEL's view — current remote, validated?, the
    most recently validated remote ([last_valid] = what [prev_path] must hold), the validation
    deadline — and an independent byte ledger of the unvalidated path, and checks:

    (a) C15_non_migrating_never_moves / _ignores_strangers: a client's remote is always the server
        (address id 1), its path always validated without challenge, previous path or timer, and
        its udp_rx datagram counter counts exactly the datagrams that came from the server;
    (b) the same for a server with MIGRATION_ALLOWED = 0 (remote never changes, strangers are
        not even counted);
    (c) every change of (remote, validated, deadline) between two probes of an Established
        server connection is a model step:
        - migration (C15_migrate_requires_fresh_authentic, C15_migration_starts_limited): a
          non-garbage datagram from the new address was delivered since the last probe, the new
          address is not a FORMER client address once the server has been on a later one (every
          packet from there carries a lower number than one already processed), afterwards
          validated = 0, challenge and prev_path present, the timer at now + 3 * PTO, and
          [last_valid] is not clobbered when the old path was itself unvalidated. The PTO pair
          [migrate] reads is not in the trace (ACKs in the triggering packet update the RTT
          estimate before it is read): the deadline must lie between 1.5 x the smaller and 3 x
          the larger of the PTO probed before and after, or else below 3 x the largest PTO any
          RTT sample taken before [now] can produce (5 x now + 1 s);
        - validation (C15_validation_only_by): a datagram from the path's OWN address was delivered
          since the last probe; afterwards no challenge, no timer;
        - fallback (C15_fallback_at_deadline): handle_timeout ran at or after the deadline and the
          remote becomes [last_valid], validated, no previous path, no challenge, no timer;
        - C15_unvalidated_path_is_on_the_clock: an unvalidated path has challenge, prev_path and
          timer, and is never seen later than its deadline + LATE_US (so an attacker address is
          never kept beyond the validation window);
    (d) liveness, sampled: at the end, if the last 8 or more datagrams routed to the connection
        were genuine ones from the client's current address, the server's remote is that address
        (scenario key 905, set by the generator for loss-free constant-delay links with a single
        move: ONE such datagram obliges — an ACK-only packet is not a probing packet);
    (e) C15_new_path_amplification_bound on an independent ledger (bytes of transmits to the
        unvalidated remote vs. bytes of datagrams delivered from it since the migration batch);
        C15_transmit_destinations: a transmit to any other address is the one previous-path
        challenge per migration away from a validated path, to [last_valid], at most 1200 bytes
        (real clients never send PATH_CHALLENGE, so no off-path response can occur). *)
From Coq Require Import ZArith List Bool.
From QV Require Import Lib.Corr Sys.Trace.
Import ListNotations.
Open Scope Z_scope.

Record cst := mkc {
  c_rem : Z; c_val : Z; c_st : Z; c_pv : Z; c_pto : Z;     (* last probe *)
  c_rx : list (Z * Z * Z);     (* (src, size, pkind) delivered since the last probe *)
  c_to : Z;                    (* time of a handle_timeout since the last probe, -1 none *)
  c_elig : Z; c_s2base : Z;    (* datagrams that pass the address gate; udp_rx.datagrams offset *)
  c_lsent : Z; c_lrecv : Z;    (* ledger of the unvalidated path *)
  c_mprev : Z;                 (* model last_valid while the path is unvalidated, -1 none *)
  c_budget : Z;                (* previous-path challenges still allowed *)
  c_maxgen : Z;                (* newest client address generation the server has been on *)
  c_good : Z;                  (* trailing run of genuine datagrams from the client's current address *)
}.

Record st := mk {
  cli : list Z;                (* client addresses, oldest first *)
  conns : list (key * cst);
}.

Fixpoint index_of (a : Z) (l : list Z) (i : Z) : Z :=
  match l with [] => -1 | x :: r => if x =? a then i else index_of a r (i + 1) end.
Definition cur_cli (l : list Z) : Z := last l 0.

Definition has_src (rx : list (Z * Z * Z)) (a : Z) : bool :=
  existsb (fun x => let '(s, _, k) := x in (s =? a) && negb (k =? 7)) rx.
Definition has_other (rx : list (Z * Z * Z)) (a : Z) : bool :=
  existsb (fun x => let '(s, _, k) := x in negb (s =? a) && negb (k =? 7)) rx.
Definition bytes_from (rx : list (Z * Z * Z)) (a : Z) : Z :=
  fold_left (fun acc x => let '(s, n, _) := x in if s =? a then acc + n else acc) rx 0.

Definition upd (s : st) (k : key) (c : cst) : st := mk (cli s) (aset (conns s) k c).

Definition reset_good (c : cst) : cst :=
  mkc (c_rem c) (c_val c) (c_st c) (c_pv c) (c_pto c) (c_rx c) (c_to c) (c_elig c) (c_s2base c)
      (c_lsent c) (c_lrecv c) (c_mprev c) (c_budget c) (c_maxgen c) 0.

Section Mon.
  Variable allowed : bool.
  Variable late : Z.
  Variable good_needed : Z.   (* rule (d): length of the trailing run of genuine datagrams that obliges the server *)

  (* the state after a migration was recognised at probe [r] (old probe values in [c]) *)
  Definition after_mig_ok (c : cst) (r : list Z) (y : Z) : bool :=
    let t := rtime r in let pv := pf r 22 in let pto := pf r 12 in
    (pf r 15 =? 1) && (pf r 14 =? 1) && (0 <=? pv)
    && (3 * Z.min pto (c_pto c) <=? 2 * (pv - t) + 6)
    && ((pv - t <=? 3 * Z.max pto (c_pto c) + 3)
        || (pv - t <=? 3 * (Z.max 333000 t + 4 * Z.max 166500 t + 1000000)))
    && (pf r 3 <=? bytes_from (c_rx c) y).

  Definition mig_ok (s : st) (c : cst) (y : Z) : bool :=
    allowed && has_src (c_rx c) y
    && (let g := index_of y (cli s) 0 in (g <? 0) || (c_maxgen c <=? g)).

  (** after a fallback the obligation of rule (d) starts afresh: only datagrams that arrive from
      the client's address AFTER the server gave that path up can make it migrate again *)
  Definition reset_good_opt (o : option cst) : option cst :=
    match o with
    | Some c => Some (mkc (c_rem c) (c_val c) (c_st c) (c_pv c) (c_pto c) (c_rx c) (c_to c) (c_elig c) (c_s2base c)
                          (c_lsent c) (c_lrecv c) (c_mprev c) (c_budget c) (c_maxgen c) 0)
    | None => None
    end.

  Definition probe_server (s : st) (c : cst) (r : list Z) : option cst :=
    let t := rtime r in
    let stt := pf r 0 in let val := pf r 1 in let pto := pf r 12 in
    let prevp := pf r 14 in let chal := pf r 15 in let pv := pf r 22 in
    let rem := premote r in
    let x := c_rem c in
    let due := (0 <=? c_to c) && (0 <=? c_pv c) && (c_pv c <=? c_to c) in
    let keep m b :=    (* new model prev / budget *)
      Some (mkc rem val stt pv pto [] (-1) (c_elig c) (c_s2base c)
                (fst (fst b)) (snd (fst b)) m (snd b)
                (let g := index_of rem (cli s) 0 in Z.max (c_maxgen c) g) (c_good c)) in
    let ledger_new := (0, bytes_from (c_rx c) rem) in
    if negb ((stt =? 1) && (c_st c =? 1)) then
      keep (c_mprev c) (c_lsent c, c_lrecv c, c_budget c)
    else
    (* shape of the state itself *)
    let shape :=
      if val =? 0 then (chal =? 1) && (prevp =? 1) && (0 <=? pv) && (t <=? pv + late)
      else (chal =? 0) && (pv =? -1) in
    if negb shape then None else
    if negb (x =? rem) then
      if val =? 0 then
        (* migration *)
        if mig_ok s c rem && after_mig_ok c r rem then
          if c_val c =? 1 then keep x (ledger_new, 1) else
          if 0 <=? c_mprev c then keep (c_mprev c) (ledger_new, c_budget c) else None
        else None
      else
        (* fallback to the most recently validated path *)
        if due && (c_val c =? 0) && (rem =? c_mprev c) && (prevp =? 0) then reset_good_opt (keep (-1) (0, 0, 0)) else None
    else
      if (c_val c =? 0) && (val =? 1) then
        (* validated by a response from the path's own address, or fallback onto the same address *)
        if has_src (c_rx c) x then keep (-1) (0, 0, 0)
        else if due && (c_mprev c =? x) && (prevp =? 0) then reset_good_opt (keep (-1) (0, 0, 0)) else None
      else if (c_val c =? 1) && (val =? 0) then
        (* away and back within one batch of deliveries *)
        if allowed && has_other (c_rx c) x && has_src (c_rx c) x && after_mig_ok c r rem
        then keep x (ledger_new, 1) else None
      else if (val =? 0) && negb (pv =? c_pv c) then
        (* re-armed: away and back while unvalidated *)
        if allowed && has_other (c_rx c) x && has_src (c_rx c) x && after_mig_ok c r rem && (0 <=? c_mprev c)
        then keep (c_mprev c) (ledger_new, c_budget c) else None
      else if (val =? 0) && (c_mprev c <? 0) then None
      else keep (c_mprev c) (c_lsent c, c_lrecv c, c_budget c).

  Definition step (s : st) (r : list Z) : option st :=
    if tag r =? 13 then
      if fld r 2 =? 1 then
        Some (mk (cli s ++ [fld r 3]) (map (fun kc => (fst kc, reset_good (snd kc))) (conns s)))
      else Some s
    else if tag r =? 2 then
      if fld r 5 =? 1 then
        let k := (rep r, fld r 6) in
        match aget (conns s) k with
        | None => Some s
        | Some c =>
            let src := fld r 3 in let size := fld r 4 in let pk := fld r 9 in
            let passes := if rep r =? 0 then src =? 1 else allowed || (src =? c_rem c) in
            let cc := cur_cli (cli s) in
            Some (upd s k
              (mkc (c_rem c) (c_val c) (c_st c) (c_pv c) (c_pto c) (c_rx c ++ [(src, size, pk)]) (c_to c)
                   (if passes then c_elig c + 1 else c_elig c) (c_s2base c)
                   (c_lsent c) (if src =? c_rem c then c_lrecv c + size else c_lrecv c)
                   (c_mprev c) (c_budget c) (c_maxgen c)
                   (if (src =? cc) && (pk =? 0) then c_good c + 1 else if src =? cc then c_good c else 0)))
        end
      else Some s
    else if tag r =? 7 then
      match aget (conns s) (rkey r) with
      | None => Some s
      | Some c =>
          Some (upd s (rkey r)
            (mkc (c_rem c) (c_val c) (c_st c) (c_pv c) (c_pto c) (c_rx c) (rtime r) (c_elig c) (c_s2base c)
                 (c_lsent c) (c_lrecv c) (c_mprev c) (c_budget c) (c_maxgen c) (c_good c)))
      end
    else if tag r =? 8 then
      let k := rkey r in
      match aget (conns s) k with
      | None =>
          if (rep r =? 0) && negb (premote r =? 1) then None else
          Some (upd s k (mkc (premote r) (pf r 1) (pf r 0) (pf r 22) (pf r 12) [] (-1) 0 (sf r 2) 0 0 (-1) 0 0 0))
      | Some c =>
          (* the address gate: udp_rx.datagrams counts exactly the datagrams that pass it *)
          if negb (sf r 2 - c_s2base c =? c_elig c) then None else
          if rep r =? 0 then
            if (premote r =? 1)
               && (negb (pf r 0 =? 1) || ((pf r 1 =? 1) && (pf r 14 =? 0) && (pf r 15 =? 0) && (pf r 22 =? -1)))
            then Some (upd s k (mkc 1 (pf r 1) (pf r 0) (-1) (pf r 12) [] (-1) (c_elig c) (c_s2base c) 0 0 (-1) 0 0 (c_good c)))
            else None
          else
            if negb allowed && negb (premote r =? c_rem c) then None else
            match probe_server s c r with
            | Some c' => Some (upd s k c')
            | None => None
            end
      end
    else if (tag r =? 1) && (fld r 8 =? 0) && (rep r =? 1) then
      match aget (conns s) (rkey r) with
      | None => None
      | Some c =>
          if negb (c_st c =? 1) then Some s else
          let dst := fld r 4 in let size := fld r 5 in
          let seg := if fld r 6 =? 0 then size else fld r 6 in
          if dst =? c_rem c then
            if c_val c =? 0 then
              if (c_lsent c <? 3 * c_lrecv c) && (c_lsent c + size <? 3 * c_lrecv c + seg) then
                Some (upd s (rkey r)
                  (mkc (c_rem c) (c_val c) (c_st c) (c_pv c) (c_pto c) (c_rx c) (c_to c) (c_elig c) (c_s2base c)
                       (c_lsent c + size) (c_lrecv c) (c_mprev c) (c_budget c) (c_maxgen c) (c_good c)))
              else None
            else Some s
          else
            if (dst =? c_mprev c) && (0 <? c_budget c) && (size <=? 1200) then
              Some (upd s (rkey r)
                (mkc (c_rem c) (c_val c) (c_st c) (c_pv c) (c_pto c) (c_rx c) (c_to c) (c_elig c) (c_s2base c)
                     (c_lsent c) (c_lrecv c) (c_mprev c) (c_budget c - 1) (c_maxgen c) (c_good c)))
            else None
      end
    else if tag r =? 10 then
      let cc := cur_cli (cli s) in
      if forallb (fun kc =>
           let c := snd kc in
           negb ((fst (fst kc) =? 1) && (c_st c =? 1) && allowed && (1 <? Z.of_nat (length (cli s)))
                 && (good_needed <=? c_good c))
           || (c_rem c =? cc)) (conns s)
      then Some s else None
    else Some s.
End Mon.

Definition monitor (i : ops) (o : outs) : option Z :=
  snd (run_from (step (negb (param i 58 1 =? 0)) (param i 41 0) (if param i 905 0 =? 1 then 1 else 8)) 0 (mk [0] []) o).
