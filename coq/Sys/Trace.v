(** Trace records of the simulator (harness/src/sim.rs; layouts in harness/TRACE.md) and the
    generic monitor interface. A monitor consumes the scenario parameters and the trace of a run
    of the REAL endpoints and returns [None] when every step is a step the system model allows,
    or [Some i] — the index of the first record that is not. *)
From Coq Require Import ZArith List Bool.
From QV Require Import Lib.Corr.
Import ListNotations.
Open Scope Z_scope.

Definition fld (r : list Z) (n : nat) : Z := nth n r (-1).
Definition tag (r : list Z) : Z := fld r 0.
Definition rtime (r : list Z) : Z := fld r 1.
Definition rep (r : list Z) : Z := fld r 2.
Definition ridx (r : list Z) : Z := fld r 3.

(** probe field [i] (see [Connection::verif_probe]) of a record with tag 8 *)
Definition pf (r : list Z) (i : nat) : Z := fld r (4 + i).
(** stats field [i] following the 32 probe fields *)
Definition sf (r : list Z) (i : nat) : Z := fld r (36 + i).
Definition premote (r : list Z) : Z := fld r 52.

(** scenario parameters: flat key/value list *)
Fixpoint kv (l : list Z) (k d : Z) : Z :=
  match l with
  | a :: b :: r => if Z.eqb a k then b else kv r k d
  | _ => d
  end.
Definition param (i : ops) (k d : Z) : Z := kv (concat i) k d.

(** association list keyed by (endpoint, connection index) *)
Definition key := (Z * Z)%type.
Definition key_eqb (a b : key) : bool := Z.eqb (fst a) (fst b) && Z.eqb (snd a) (snd b).
Fixpoint aget {A} (m : list (key * A)) (k : key) : option A :=
  match m with
  | [] => None
  | (k', v) :: r => if key_eqb k k' then Some v else aget r k
  end.
Fixpoint aset {A} (m : list (key * A)) (k : key) (v : A) : list (key * A) :=
  match m with
  | [] => [(k, v)]
  | (k', v') :: r => if key_eqb k k' then (k, v) :: r else (k', v') :: aset r k v
  end.
Definition rkey (r : list Z) : key := (rep r, ridx r).

(** A monitor is a fold: state [S], step returning [None] on a violation. *)
Section Fold.
  Context {S : Type}.
  Variable step : S -> list Z -> option S.
  Fixpoint run_from (i : Z) (s : S) (tr : list (list Z)) : S * option Z :=
    match tr with
    | [] => (s, None)
    | r :: tr' =>
        (* record 16: the real endpoint panicked — never a step of any model *)
        if Z.eqb (nth 0 r (-1)) 16 then (s, Some i) else
        match step s r with
        | Some s' => run_from (i + 1) s' tr'
        | None => (s, Some i)
        end
    end.
End Fold.

(** Codes for the correspondence driver: 0 accepted, 2 a concrete violating trace. *)
Definition check_trace (mon : ops -> outs -> option Z) (c : ops * outs) : Z :=
  match mon (fst c) (snd c) with None => 0 | Some _ => 2 end.

Fixpoint trace_failures_from (k : Z) (mon : ops -> outs -> option Z) (cs : list (ops * outs))
  : list (Z * Z) :=
  match cs with
  | [] => []
  | c :: cs' =>
      match mon (fst c) (snd c) with
      | None => trace_failures_from (k + 1) mon cs'
      | Some i => (k, i) :: trace_failures_from (k + 1) mon cs'
      end
  end.
Definition trace_failures := trace_failures_from 0.
