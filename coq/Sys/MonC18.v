(** C18 — monitor for asyncsim traces (harness/src/asyncsim.rs; records in harness/TRACE.md,
    section "asyncsim"): the real quinn crate on a deterministic executor.

    This is the executable form, on what the hook snapshot exposes, of the invariant [Inv] of
    Proofs/AsyncConnInv.v (theorems C18_no_lost_wakeup, C18_refcount_tracks_handles,
    C18_cancel_safe_ops_lose_nothing, C18_close_wakes_everyone in Props/C18.v):
    - [inv_wake] (registered part), checked after EVERY scheduler step: a task pending on a read /
      write / stopped() of stream s is runnable (its waker was invoked since its last poll) or s
      is a key of blocked_readers / blocked_writers / stopped in the snapshot;
    - [inv_wake] (condition part), checked at quiescence: no operation completes when its task is
      polled with a fresh future although nobody woke it (record 30 with lost = 1);
    - [inv_drv]: a live connection driver is runnable or its waker is stored in [State::driver];
    - [inv_ref_alive]/[inv_ref_dead]: ref_count = live handles (+ live stopped() futures), minus
      one once the connection driver has ended;
    - [inv_data]/[inv_dgram]: bytes returned by reads — across dropped and restarted futures — are
      the written bytes in order, the end of a stream is reported exactly at the finished length;
      no datagram is delivered twice; contents intact;
    - no operation completes twice, none completes without a live future;
    - no operation fails with a connection error before anybody closed;
    - 0-RTT (C17, scenarios with param 44): after a rejection every operation on a handle created
      during 0-RTT fails with ZeroRttRejected, fresh streams that reuse the ids deliver exactly
      their own bytes (the integrity rules above, keyed by connection), a read never reports
      ClosedStream for a stream this side did not stop;
    - teardown: the run ends quiescent with every application task and every driver finished, and
      the endpoints' bookkeeping ([senders], [open_connections]) back to 0.
    Known finding [stopped-after-reset] (param 902 = 1): a stopped() future pending while the
    local reset() is acknowledged is never woken. *)
From Coq Require Import ZArith List Bool.
From QV Require Import Lib.Corr Sys.Trace.
Import ListNotations.
Open Scope Z_scope.

Definition k1 (a : Z) : key := (0, a).
Fixpoint zmem (x : Z) (l : list Z) : bool :=
  match l with [] => false | y :: r => Z.eqb x y || zmem x r end.
Fixpoint zrem (x : Z) (l : list Z) : list Z :=
  match l with [] => [] | y :: r => if Z.eqb x y then zrem x r else y :: zrem x r end.
Definition zadd (x : Z) (l : list Z) : list Z := if zmem x l then l else x :: l.
Definition getd {A} (m : list (key * A)) (k : key) (d : A) : A :=
  match aget m k with Some v => v | None => d end.

(** handles created during a REJECTED 0-RTT phase are logged under the alias sid + 2^40 *)
Definition ALIAS : Z := 1099511627776.
Definition real_sid (sid : Z) : Z := if Z.leb ALIAS sid then sid - ALIAS else sid.
Definition is_early (sid : Z) : bool := Z.leb ALIAS sid.
(** flags kept in [m_reset] under special keys *)
Definition K_ZR_TRIED : key := (-1, 0).          (* into_0rtt() succeeded *)
Definition K_ZR_REJ : key := (-3, 0).            (* some operation reported ZeroRttRejected *)
Definition k_marker (ep : Z) : key := (-2, ep).  (* the handshake of that connection is over *)
Definition k_stopped (ep sid : Z) : key := (100 + ep, sid).   (* stop() called locally *)
Definition has {A} (m : list (key * A)) (k : key) : bool := match aget m k with Some _ => true | None => false end.

(** operation kinds *)
Definition K_READ := 7. Definition K_WRITE := 8. Definition K_STOPPED := 9.
Definition K_READ_DGRAM := 10. Definition K_READ_TO_END := 14. Definition K_WRITE_ALL := 15.

Record opinfo := { o_id : Z; o_kind : Z; o_sid : Z; o_ep : Z; o_live : bool; o_done : bool }.
Fixpoint adel {A} (m : list (key * A)) (k : key) : list (key * A) :=
  match m with
  | [] => []
  | (k', v) :: r => if key_eqb k k' then r else (k', v) :: adel r k
  end.
(** the table holds only operations that are not yet completed (bounded by the number of tasks);
    the last completed one is kept under [LAST] for its RESULT record; operation ids are allocated
    in increasing order, so a FUT_NEW for an unknown id must exceed every id seen *)
Definition LAST : key := (1, 0).
Definition MAXID : key := (1, 1).

Record ms := {
  m_pend : list (key * (Z * Z * Z));      (* task -> (opid, kind, sid) *)
  m_tep : list (key * Z);                 (* task -> ep *)
  m_run : list Z; m_self : list Z;        (* woken since last poll; woken during own poll *)
  m_ops : list (key * opinfo);
  m_snap : list (key * list Z);           (* ep -> snapshot fields from [alive] on *)
  m_handles : list (key * Z);             (* ep -> live ConnectionRef-holding handles *)
  m_stoplive : list (key * Z);            (* ep -> live stopped() futures *)
  m_drvdead : list Z;                     (* eps whose connection driver has ended *)
  m_wr : list (key * Z); m_rd : list (key * Z);   (* (ep, sid) -> bytes written / read so far *)
  m_fin : list (key * Z);                 (* (ep, sid) -> total at finish() *)
  m_reset : list (key * Z);               (* (ep, sid) reset locally *)
  m_dg : list (key * Z);                  (* (ep, id) datagram received *)
  m_closing : bool;
  m_ep_ok : Z;                            (* endpoints whose final bookkeeping was seen clean *)
  m_ended : bool;
  m_known : bool;
  m_lossy : bool;
  m_wall : bool                           (* writers use write_all: a reader may run ahead of the completed writes *)
}.

Definition init_ms (known wall lossy : bool) : ms :=
  {| m_pend := []; m_tep := []; m_run := []; m_self := []; m_ops := []; m_snap := [];
     m_handles := []; m_stoplive := []; m_drvdead := []; m_wr := []; m_rd := []; m_fin := [];
     m_reset := []; m_dg := []; m_closing := false; m_ep_ok := 0; m_ended := false; m_known := known; m_lossy := lossy; m_wall := wall |}.

Definition upd_ms (s : ms) pend tep run self ops : ms :=
  {| m_pend := pend; m_tep := tep; m_run := run; m_self := self; m_ops := ops; m_snap := m_snap s;
     m_handles := m_handles s; m_stoplive := m_stoplive s; m_drvdead := m_drvdead s; m_wr := m_wr s;
     m_rd := m_rd s; m_fin := m_fin s; m_reset := m_reset s; m_dg := m_dg s; m_closing := m_closing s;
     m_ep_ok := m_ep_ok s; m_ended := m_ended s; m_known := m_known s; m_lossy := m_lossy s; m_wall := m_wall s |}.
Definition upd_res (s : ms) snap handles stoplive drvdead : ms :=
  {| m_pend := m_pend s; m_tep := m_tep s; m_run := m_run s; m_self := m_self s; m_ops := m_ops s;
     m_snap := snap; m_handles := handles; m_stoplive := stoplive; m_drvdead := drvdead; m_wr := m_wr s;
     m_rd := m_rd s; m_fin := m_fin s; m_reset := m_reset s; m_dg := m_dg s; m_closing := m_closing s;
     m_ep_ok := m_ep_ok s; m_ended := m_ended s; m_known := m_known s; m_lossy := m_lossy s; m_wall := m_wall s |}.
Definition upd_data (s : ms) wr rd fin rst dg closing epok ended : ms :=
  {| m_pend := m_pend s; m_tep := m_tep s; m_run := m_run s; m_self := m_self s; m_ops := m_ops s;
     m_snap := m_snap s; m_handles := m_handles s; m_stoplive := m_stoplive s; m_drvdead := m_drvdead s;
     m_wr := wr; m_rd := rd; m_fin := fin; m_reset := rst; m_dg := dg; m_closing := closing;
     m_ep_ok := epok; m_ended := ended; m_known := m_known s; m_lossy := m_lossy s; m_wall := m_wall s |}.

(** snapshot: [alive; rc; err; conn; hs; drvw; closed; drained; n; ids..; n; ids..; n; ids..] *)
Fixpoint take (n : nat) (l : list Z) : list Z * list Z :=
  match n, l with
  | S n', x :: r => let '(a, b) := take n' r in (x :: a, b)
  | _, _ => ([], l)
  end.
Definition take_counted (l : list Z) : list Z * list Z :=
  match l with
  | n :: r => take (Z.to_nat n) r
  | [] => ([], [])
  end.
Definition snap_sets (sn : list Z) : list Z * list Z * list Z :=
  let body := skipn 8 sn in
  let '(brs, r1) := take_counted body in
  let '(bws, r2) := take_counted r1 in
  let '(sts, _) := take_counted r2 in
  (brs, bws, sts).
Definition snap_alive (sn : list Z) : bool := Z.eqb (nth 0 sn 0) 1.
Definition snap_rc (sn : list Z) : Z := nth 1 sn 0.

(** the registered part of [inv_wake] for one pending task *)
Definition wake_ok (s : ms) (e : key * (Z * Z * Z)) : bool :=
  let '(tk, (opid, kind, sid)) := e in
  let t := snd tk in
  if Z.ltb opid 0 then true else
  if zmem t (m_run s) then true else
  let ep := getd (m_tep s) tk (-1) in
  let sn := getd (m_snap s) (k1 ep) [] in
  if negb (snap_alive sn) then true else
  let '(brs, bws, sts) := snap_sets sn in
  let sid := real_sid sid in
  (* 19 = received_reset(): registers in blocked_readers like a read *)
  if Z.eqb kind K_READ || Z.eqb kind K_READ_TO_END || Z.eqb kind 19 then zmem sid brs
  else if Z.eqb kind K_WRITE || Z.eqb kind K_WRITE_ALL then zmem sid bws
  else if Z.eqb kind K_STOPPED || Z.eqb kind 17 then zmem sid sts
  else true.

Definition ref_ok (s : ms) (ep : Z) : bool :=
  let sn := getd (m_snap s) (k1 ep) [] in
  if negb (snap_alive sn) then true else
  let expect := getd (m_handles s) (k1 ep) 0 + getd (m_stoplive s) (k1 ep) 0 in
  Z.eqb (snap_rc sn) (if zmem ep (m_drvdead s) then expect - 1 else expect).

(** [inv_drv]: a live connection driver is runnable or has left its waker in [State::driver] *)
Definition drv_ok (s : ms) (ep : Z) : bool :=
  let sn := getd (m_snap s) (k1 ep) [] in
  if negb (snap_alive sn) || zmem ep (m_drvdead s) then true else
  match aget (m_tep s) (2, ep) with
  | Some t => zmem t (m_run s) || Z.eqb (nth 5 sn 0) 1
  | None => true
  end.

Definition step_end_ok (s : ms) : bool :=
  forallb (wake_ok s) (m_pend s) && ref_ok s 0 && ref_ok s 1 && drv_ok s 0 && drv_ok s 1
  && ref_ok s 2 && ref_ok s 3 && drv_ok s 2 && drv_ok s 3.

(** virtual endpoints: endpoint + 2 * connection index; the peer of 0 is 1, of 2 is 3 *)
Definition peer (ep : Z) : Z := if Z.even ep then ep + 1 else ep - 1.

Definition result_rec (s : ms) (r : list Z) : option ms :=
  let opid := fld r 3 in let res := fld r 4 in let a := fld r 5 in let b := fld r 6 in let ok := fld r 7 in
  match aget (m_ops s) LAST with
  | None => None
  | Some oi =>
      if negb (Z.eqb (o_id oi) opid) then None else
      let ep := o_ep oi in let sid := o_sid oi in let kind := o_kind oi in
      (* a connection error before anybody closed (an idle timeout is possible on a lossy link) *)
      if Z.leb 10 res && Z.ltb res 20 && negb (m_closing s) && negb (m_lossy s && Z.eqb res 16) then None else
      (* C17: after a rejected 0-RTT phase every operation on an early handle fails with
         ZeroRttRejected (22 for writes, 23 for reads / stopped) — never data, never ClosedStream *)
      if is_early sid && has (m_reset s) (k_marker ep)
         && negb (Z.eqb res (if Z.eqb kind K_WRITE || Z.eqb kind K_WRITE_ALL then 22 else 23)) then None else
      (* before the handshake is over an early operation may succeed or be rejected, nothing else *)
      if is_early sid && negb (Z.eqb res 0 || Z.eqb res 1 || Z.eqb res 22 || Z.eqb res 23 || (Z.leb 10 res && Z.ltb res 20)) then None else
      (* ClosedStream from a read although this side never stopped the stream *)
      if (Z.eqb kind K_READ || Z.eqb kind K_READ_TO_END) && Z.eqb res 21 && negb (has (m_reset s) (k_stopped ep sid)) then None else
      (* an idle timeout can only happen on a lossy link *)
      let s := if (Z.eqb res 22 && (Z.eqb kind K_WRITE || Z.eqb kind K_WRITE_ALL)) || (Z.eqb res 23 && negb (Z.eqb kind K_WRITE || Z.eqb kind K_WRITE_ALL))
               then upd_data s (m_wr s) (m_rd s) (m_fin s) (aset (m_reset s) K_ZR_REJ 1) (m_dg s) (m_closing s) (m_ep_ok s) (m_ended s)
               else s in
      if Z.eqb res 16 && negb (m_lossy s) then None else
      if negb (Z.eqb ok 1) then None else
      if Z.eqb kind K_WRITE || Z.eqb kind K_WRITE_ALL then
        if Z.eqb res 0 then
          let cur := getd (m_wr s) (ep, sid) 0 in
          if Z.eqb a cur && Z.leb 0 b then
            Some (upd_data s (aset (m_wr s) (ep, sid) (cur + b)) (m_rd s) (m_fin s) (m_reset s) (m_dg s)
                           (m_closing s) (m_ep_ok s) (m_ended s))
          else None
        else Some s
      else if Z.eqb kind K_READ || Z.eqb kind K_READ_TO_END then
        let cur := getd (m_rd s) (ep, sid) 0 in
        let written := getd (m_wr s) (peer ep, sid) 0 in
        if Z.eqb res 0 then
          (* ordered, contiguous, never ahead of the writer *)
          if Z.eqb a cur && (m_wall s || Z.leb (cur + b) written) then
            Some (upd_data s (m_wr s) (aset (m_rd s) (ep, sid) (cur + b)) (m_fin s) (m_reset s) (m_dg s)
                           (m_closing s) (m_ep_ok s) (m_ended s))
          else None
        else if Z.eqb res 1 then
          (* end of stream exactly at the finished length *)
          match aget (m_fin s) (peer ep, sid) with
          | Some tot => if Z.eqb a cur && Z.eqb cur tot then Some s else None
          | None => None
          end
        else Some s
      else if Z.eqb kind K_READ_DGRAM then
        if Z.eqb res 0 then
          match aget (m_dg s) (ep, a) with
          | Some _ => None          (* delivered twice *)
          | None => Some (upd_data s (m_wr s) (m_rd s) (m_fin s) (m_reset s) (aset (m_dg s) (ep, a) 1)
                                   (m_closing s) (m_ep_ok s) (m_ended s))
          end
        else Some s
      else Some s
  end.

Definition bump (m : list (key * Z)) (k : key) (d : Z) : list (key * Z) := aset m k (getd m k 0 + d).

Definition step (s : ms) (r : list Z) : option ms :=
  if m_ended s then None else
  let tg := tag r in
  if Z.eqb tg 33 then      (* TASK_NEW *)
    let tep := aset (m_tep s) (k1 (fld r 2)) (fld r 4) in
    (* (2, ep) -> the connection driver task of that endpoint *)
    let tep := if Z.eqb (fld r 3) 1 then aset tep (2, fld r 4) (fld r 2) else tep in
    Some (upd_ms s (m_pend s) tep (zadd (fld r 2) (m_run s)) (m_self s) (m_ops s))
  else if Z.eqb tg 21 then (* WAKE *)
    let t := fld r 2 in
    if Z.eqb (fld r 3) t then Some (upd_ms s (m_pend s) (m_tep s) (m_run s) (zadd t (m_self s)) (m_ops s))
    else Some (upd_ms s (m_pend s) (m_tep s) (zadd t (m_run s)) (m_self s) (m_ops s))
  else if Z.eqb tg 20 then (* POLL *)
    let t := fld r 2 in
    let run := if zmem t (m_self s) then zadd t (m_run s) else zrem t (m_run s) in
    let pend := if Z.eqb (fld r 3) 2 && Z.eqb (fld r 4) 0
                then aset (m_pend s) (k1 t) (fld r 6, fld r 7, fld r 8)
                else aset (m_pend s) (k1 t) (-1, 0, -1) in
    Some (upd_ms s pend (m_tep s) run (zrem t (m_self s)) (m_ops s))
  else if Z.eqb tg 22 then (* FUT_NEW *)
    let opid := fld r 4 in
    let kind := fld r 5 in
    let ep := fld r 3 in
    let maxid := match aget (m_ops s) MAXID with Some oi => o_id oi | None => -1 end in
    let mk := {| o_id := opid; o_kind := kind; o_sid := fld r 6; o_ep := ep; o_live := true; o_done := false |} in
    let fresh := match aget (m_ops s) (k1 opid) with
                 | Some oi => negb (o_live oi)
                 | None => Z.ltb maxid opid
                 end in
    if negb fresh then None else
    let ops1 := aset (m_ops s) (k1 opid) mk in
    let ops2 := if Z.ltb maxid opid then aset ops1 MAXID mk else ops1 in
    let s' := upd_ms s (m_pend s) (m_tep s) (m_run s) (m_self s) ops2 in
    Some (if Z.eqb kind K_STOPPED then upd_res s' (m_snap s') (m_handles s') (bump (m_stoplive s') (k1 ep) 1) (m_drvdead s') else s')
  else if Z.eqb tg 23 || Z.eqb tg 24 then (* OP_DONE / FUT_DROP: needs a live future; done at most once *)
    let opid := fld r 4 in
    match aget (m_ops s) (k1 opid) with
    | Some oi =>
        if negb (o_live oi) then None else
        let dead := {| o_id := o_id oi; o_kind := o_kind oi; o_sid := o_sid oi; o_ep := o_ep oi; o_live := false; o_done := Z.eqb tg 23 |} in
        let ops' := if Z.eqb tg 23 then aset (adel (m_ops s) (k1 opid)) LAST dead else aset (m_ops s) (k1 opid) dead in
        let s' := upd_ms s (m_pend s) (m_tep s) (m_run s) (m_self s) ops' in
        Some (if Z.eqb (o_kind oi) K_STOPPED
              then upd_res s' (m_snap s') (m_handles s') (bump (m_stoplive s') (k1 (o_ep oi)) (-1)) (m_drvdead s') else s')
    | None => None
    end
  else if Z.eqb tg 25 then (* HANDLE *)
    let what := fld r 4 in
    if Z.eqb what 4 then Some s else
    Some (upd_res s (m_snap s) (bump (m_handles s) (k1 (fld r 3)) (if Z.eqb (fld r 6) 1 then 1 else -1)) (m_stoplive s) (m_drvdead s))
  else if Z.eqb tg 26 then (* TASK_END *)
    let s' := upd_ms s (aset (m_pend s) (k1 (fld r 2)) (-1, 0, -1)) (m_tep s) (m_run s) (m_self s) (m_ops s) in
    if Z.eqb (fld r 3) 1 then Some (upd_res s' (m_snap s') (m_handles s') (m_stoplive s') (zadd (fld r 4) (m_drvdead s')))
    else Some s'
  else if Z.eqb tg 27 then (* SNAP *)
    Some (upd_res s (aset (m_snap s) (k1 (fld r 2)) (skipn 3 r)) (m_handles s) (m_stoplive s) (m_drvdead s))
  else if Z.eqb tg 40 then (* STEP_END *)
    if step_end_ok s then Some s else None
  else if Z.eqb tg 30 then (* FORCED *)
    if Z.eqb (fld r 7) 1 then
      (* known class: stopped() of a locally reset stream *)
      let ep := getd (m_tep s) (k1 (fld r 2)) (-1) in
      if m_known s && Z.eqb (fld r 5) K_STOPPED
         && match aget (m_reset s) (ep, fld r 6) with Some _ => true | None => false end
      then Some s else None
    else Some s
  else if Z.eqb tg 32 then result_rec s r
  else if Z.eqb tg 36 then (* FINISH *)
    let ep := getd (m_tep s) (k1 (fld r 2)) (-1) in
    if Z.eqb (fld r 4) 1 then
      if Z.eqb (fld r 5) (getd (m_wr s) (ep, fld r 3) 0)
      then Some (upd_data s (m_wr s) (m_rd s) (aset (m_fin s) (ep, fld r 3) (fld r 5)) (m_reset s) (m_dg s) (m_closing s) (m_ep_ok s) (m_ended s))
      else None
    else Some s
  else if Z.eqb tg 37 then (* RESET *)
    let ep := getd (m_tep s) (k1 (fld r 2)) (-1) in
    Some (upd_data s (m_wr s) (m_rd s) (m_fin s) (aset (m_reset s) (ep, fld r 3) 1) (m_dg s) (m_closing s) (m_ep_ok s) (m_ended s))
  else if Z.eqb tg 39 then (* CLOSE *)
    Some (upd_data s (m_wr s) (m_rd s) (m_fin s) (m_reset s) (m_dg s) true (m_ep_ok s) (m_ended s))
  else if Z.eqb tg 28 then (* EPSTATE: bookkeeping released *)
    if Z.eqb (fld r 3) 0 && Z.eqb (fld r 7) 0
    then Some (upd_data s (m_wr s) (m_rd s) (m_fin s) (m_reset s) (m_dg s) (m_closing s) (m_ep_ok s + 1) (m_ended s))
    else None
  else if Z.eqb tg 10 then (* END: quiescent, everything finished, both endpoints clean *)
    if Z.eqb (fld r 2) 1 && Z.eqb (fld r 4) 0 && Z.eqb (fld r 5) 0 && Z.eqb (fld r 6) 0 && Z.eqb (m_ep_ok s) 2
    then Some (upd_data s (m_wr s) (m_rd s) (m_fin s) (m_reset s) (m_dg s) (m_closing s) (m_ep_ok s) true)
    else None
  else if Z.eqb tg 31 then
    (* an injected socket error (action 9) legitimately kills that connection; its peer can only time out *)
    if Z.eqb (fld r 2) 9 then
      Some (upd_data {| m_pend := m_pend s; m_tep := m_tep s; m_run := m_run s; m_self := m_self s; m_ops := m_ops s;
                        m_snap := m_snap s; m_handles := m_handles s; m_stoplive := m_stoplive s; m_drvdead := m_drvdead s;
                        m_wr := m_wr s; m_rd := m_rd s; m_fin := m_fin s; m_reset := m_reset s; m_dg := m_dg s;
                        m_closing := true; m_ep_ok := m_ep_ok s; m_ended := m_ended s; m_known := m_known s;
                        m_lossy := true; m_wall := m_wall s |}
                     (m_wr s) (m_rd s) (m_fin s) (m_reset s) (m_dg s) true (m_ep_ok s) (m_ended s))
    else Some s
  else if Z.eqb tg 35 then (* STOP *)
    let ep := getd (m_tep s) (k1 (fld r 2)) (-1) in
    Some (upd_data s (m_wr s) (m_rd s) (m_fin s) (aset (m_reset s) (k_stopped ep (fld r 3)) 1) (m_dg s) (m_closing s) (m_ep_ok s) (m_ended s))
  else if Z.eqb tg 41 then (* the handshake of a 0-RTT connection is over: [41,t,task,vep,mode] *)
    Some (upd_data s (m_wr s) (m_rd s) (m_fin s) (aset (m_reset s) (k_marker (fld r 3)) 1) (m_dg s) (m_closing s) (m_ep_ok s) (m_ended s))
  else if Z.eqb tg 43 then (* into_0rtt(): [43,t,task,vep,ok] *)
    if Z.eqb (fld r 4) 1
    then Some (upd_data s (m_wr s) (m_rd s) (m_fin s) (aset (m_reset s) K_ZR_TRIED 1) (m_dg s) (m_closing s) (m_ep_ok s) (m_ended s))
    else Some s
  else if Z.eqb tg 29 || Z.eqb tg 38 || Z.eqb tg 44 then Some s
  else None.

Definition monitor (i : ops) (tr : outs) : option Z :=
  let '(s, r) := run_from step 0 (init_ms (Z.eqb (param i 902 0) 1) (Z.eqb (param i 31 0) 1) (Z.ltb 0 (param i 2 0))) tr in
  match r with
  | Some k => Some k
  | None =>
      if negb (m_ended s) then Some (Z.of_nat (length tr))
      (* a 0-RTT scenario (param 44) on a loss-free link must actually have started with 0-RTT *)
      else if Z.ltb 0 (param i 44 0) && Z.eqb (param i 2 0) 0 && negb (has (m_reset s) K_ZR_TRIED)
      then Some (Z.of_nat (length tr))
      (* the server kept its configuration: nothing may report ZeroRttRejected; it was replaced:
         the early handles must have reported it *)
      else if Z.eqb (param i 44 0) 1 && has (m_reset s) K_ZR_REJ then Some (Z.of_nat (length tr))
      else if Z.eqb (param i 44 0) 2 && has (m_reset s) K_ZR_TRIED && negb (has (m_reset s) K_ZR_REJ)
      then Some (Z.of_nat (length tr)) else None
  end.
