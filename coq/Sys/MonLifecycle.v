(** C08 trace monitor that RUNS the lifecycle model (Model/Lifecycle.v — the model the theorems
    of Props/C08.v are about) alongside every real connection of a simulator trace.

    Per connection it keeps a set of candidate model states. Every record of the connection is
    turned into the model operation it stands for; where the trace does not show an input
    (what a received packet turned out to be, whether the remote matched) ALL values the model
    allows are tried ([step_ok]-style relational check). At every probe the candidates are
    filtered by the real state — state tag (p0), close flag (p9), error recorded (p31),
    permit_idle_reset (p17), which of the Close / Idle / KeepAlive timers are armed (p20 / p19 /
    p23) and their deadlines — and the survivors are re-synchronised with the real deadlines.
    The trace is rejected when no candidate survives, i.e. when the real connection took a step
    the model does not allow, when ConnectionLost / Drained are delivered although no candidate
    can deliver them, or when [poll_transmit] returned nothing although every candidate owes the
    close packet on a validated path (the F1 class).

    Deadlines: the monitor passes PTO = 0 (Idle) / 1 (Close, so that it cannot expire at its own
    arming instant) to the model, so a timer armed during the interval carries its arming
    instant [te]: Close = te + 3, Idle = te + idle_timeout. The real deadline D
    must satisfy   0 < D - te <= 3 * pto(Data) (+ rounding), with equality when the highest
    space is Data                                                        (set_close_timer)
    and   max(idle, 3 * pto_lo) <= D - te <= max(idle, 3 * pto_hi)       (reset_idle_timeout)
    with pto_hi = twice the larger and pto_lo = half of (the smaller of the pto(Data) values of
    the two surrounding probes minus 100 ms): the RTT estimate can move between probes and the
    Initial / Handshake spaces do not add max_ack_delay. KeepAlive = te + interval exactly.
    Projection expected: tags 1,2,3,4,5,6,7,8 in trace order. *)
From Coq Require Import ZArith List Bool.
From QV Require Import Lib.Corr Sys.Trace Model.Lifecycle.
Import ListNotations.
Open Scope Z_scope.

Definition oz (x : Z) : option Z := if x <? 0 then None else Some x.

Definition tag_of (c : cstate) : Z :=
  match c with Handshake => 0 | Established => 1 | Closed _ => 2 | Draining => 3 | Drained => 4 end.
Definition kind_of (r : reason) : Z :=
  match r with
  | RVersionMismatch => 1 | RTransport _ => 2 | RConnClosed _ => 3 | RAppClosed _ => 4
  | RReset => 5 | RTimedOut => 6
  end.
Definition err_kind (s : state) : Z := match error s with Some r => kind_of r | None => 0 end.
Definition ozv (o : option Z) : Z := match o with Some v => v | None => -1 end.

(** candidates equal up to what the monitor can ever observe *)
Definition same (a b : state) : bool :=
  (tag_of (st a) =? tag_of (st b)) && Bool.eqb (close a) (close b) && (err_kind a =? err_kind b) &&
  (epq a =? epq b) && (ozv (t_close a) =? ozv (t_close b)) && (ozv (t_idle a) =? ozv (t_idle b)) &&
  (ozv (t_ka a) =? ozv (t_ka b)) && Bool.eqb (permit_idle_reset a) (permit_idle_reset b).
Fixpoint add_c (c : state) (l : list state) : list state :=
  match l with
  | [] => [c]
  | x :: r => if same c x then l else x :: add_c c r
  end.
Fixpoint dedup (l acc : list state) : list state :=
  match l with [] => acc | x :: r => dedup r (add_c x acc) end.

(** every packet outcome the model knows (reasons / codes are placeholders: only kinds are
    observable); the AEAD-limit error leads to Drained, another code to Closed *)
Definition all_pkts : list (pkt * bool) :=
  [(PDiscard, true); (POrdinary, true); (PEstablish, true);
   (PCloseData (CApp 0), true); (PCloseData (CTransport 0), true);
   (PCloseEarly (CTransport 0), true);
   (PTransportError 10 true, true); (PTransportError 10 true, false);
   (PTransportError 10 false, true); (PTransportError 10 false, false);
   (PTransportError AEAD_LIMIT_REACHED false, true);
   (PReset, true); (PVersionMismatch, true)].

Record conn := {
  cands : list state;
  lastp : list Z;          (* last probe *)
  owes : bool;             (* last probe: every candidate owes a close packet, path validated *)
  after_probe : bool;      (* the previous record of this connection was its probe *)
  pend : list (list Z);    (* records of the connection since its last probe, newest first *)
}.
Record mst := { cs : list (key * conn); idle_ms : Z; ka_ms : Z }.

Definition getc (s : mst) (k : key) : option conn := aget (cs s) k.
Definition setc (s : mst) (k : key) (c : conn) : mst :=
  {| cs := aset (cs s) k c; idle_ms := idle_ms s; ka_ms := ka_ms s |}.

Definition txe (ack : bool) : txenv :=
  {| keys_i := true; keys_h := true; keys_d := true; highest := 2; amp_blocked := false;
     gate_blocked := false; ack_eliciting := ack; data := true; pto_tx := 0; conf := 0 |}.
(** the close branch of the model sends in every space with keys up to the highest: which
    spaces exist is not observable, the lifecycle effect (flag cleared) is the same *)

Definition first_probe_state (s : mst) (ep : Z) (r : list Z) : state :=
  let i := init (oz (idle_ms s)) (if (ep =? 0) && (0 <? ka_ms s) then Some (1000 * ka_ms s) else None) in
  let c := match pf r 0 with
           | 0 => Handshake | 1 => Established | 2 => Closed (CApp 0) | 3 => Draining | _ => Drained
           end in
  {| st := c; close := pf r 9 =? 1; error := None; epq := 0;
     t_close := oz (pf r 20); t_idle := oz (pf r 19); t_ka := oz (pf r 23);
     permit_idle_reset := pf r 17 =? 1; idle_timeout := oz (pf r 13);
     cfg_idle := cfg_idle i; cfg_ka := cfg_ka i |}.

(** does candidate [c] explain probe [r] (previous probe [p], instant [t] of the probe)? *)
Definition timer_close_ok (c : state) (p r : list Z) : bool :=
  match t_close c, oz (pf r 20) with
  | None, None => true
  | Some v, Some d =>
      (v =? d) ||
      (let dt := d - (v - 3) in     (* armed in this interval with PTO 1: v = te + 3 *)
       (0 <? dt) && (dt <=? 3 * pf r 12 + 4) &&
       (negb (pf r 27 =? 2) || (3 * pf r 12 - 4 <=? dt)))
  | _, _ => false
  end.
Definition zmin3 (a b : Z) : Z := if a <? 0 then b else if b <? 0 then a else Z.min a b.
Definition timer_idle_ok (c : state) (p r : list Z) : bool :=
  match t_idle c, oz (pf r 19) with
  | None, None => true
  | Some v, Some d =>
      (v =? d) ||
      (match idle_timeout c with
       | None => false
       | Some i =>
           let te := v - i in
           let dt := d - te in
           let i' := zmin3 i (pf r 13) in       (* parameters may have arrived meanwhile *)
           let imax := Z.max i (pf r 13) in
           let phi := 2 * Z.max (pf p 12) (pf r 12) in
           let plo := (Z.min (pf p 12) (pf r 12) - 100000) / 2 in
           (Z.max i' (3 * plo) <=? dt) && (dt <=? Z.max imax (3 * phi) + 4)
       end)
  | None, Some d =>
      (* the peer's parameters arrived in this interval and ENABLED the idle timeout (none
         before), and a later packet of the same interval armed the timer: its arming instant
         lies between the two probes *)
      match idle_timeout c, oz (pf r 13) with
      | None, Some i =>
          let phi := 2 * Z.max (pf p 12) (pf r 12) in
          let plo := (Z.min (pf p 12) (pf r 12) - 100000) / 2 in
          (rtime p <=? d - Z.max i (3 * plo)) && (d - Z.max i (3 * phi) - 4 <=? rtime r)
      | _, _ => false
      end
  | Some _, None =>
      (* the negotiation yielded "none" in this interval: [set_peer_params] stops the timer *)
      pf r 13 <? 0
  end.
Definition timer_ka_ok (c : state) (r : list Z) : bool :=
  match t_ka c, oz (pf r 23) with
  | None, None => true
  | Some v, Some d => v =? d
  | _, _ => false
  end.
Definition explains (c : state) (p r : list Z) : bool :=
  (tag_of (st c) =? pf r 0) && Bool.eqb (close c) (pf r 9 =? 1) &&
  Bool.eqb (negb (err_kind c =? 0)) (pf r 31 =? 1) &&
  Bool.eqb (permit_idle_reset c) (pf r 17 =? 1) &&
  timer_close_ok c p r && timer_idle_ok c p r && timer_ka_ok c r &&
  (* Props/C08.v C08_no_negotiated_timeout_no_idle_timer *)
  ((0 <=? pf r 13) || (pf r 19 <? 0)).

(** re-synchronise a surviving candidate with the real deadlines and the real idle timeout *)
Definition resync (c : state) (r : list Z) : state :=
  {| st := st c; close := close c; error := error c; epq := epq c;
     t_close := oz (pf r 20); t_idle := oz (pf r 19); t_ka := oz (pf r 23);
     permit_idle_reset := permit_idle_reset c; idle_timeout := oz (pf r 13);
     cfg_idle := cfg_idle c; cfg_ka := cfg_ka c |}.

Definition all_owe (l : list state) : bool :=
  forallb (fun c => is_closing (st c) && close c) l.

(** packet outcomes to try: a connection that is still open at the next probe cannot have seen
    a closing outcome in between (closed states are absorbing), which keeps the candidate sets
    small on the long open phase of a trace *)
Definition open_pkts : list (pkt * bool) := [(PDiscard, true); (POrdinary, true); (PEstablish, true)].

(** replay one recorded event on the candidate set; [None] = no candidate can produce it *)
Definition replay1 (pk : list (pkt * bool)) (l : list state) (r : list Z) : option (list state) :=
  let t := rtime r in
  if tag r =? 1 then
    (* poll_transmit returned a datagram: ack-eliciting or not (the next probe's
       permit_idle_reset tells), or a PATH_CHALLENGE built with finish() (no tracking) *)
    (* ... or a datagram without any lifecycle effect: the one PATH_CHALLENGE to the previous path
       that follows a migration is sent by [send_path_challenge] before the close branch, also
       while closing or draining *)
    let f := fun x => [fst (poll_transmit x t (txe true)); fst (poll_transmit x t (txe false)); x] in
    Some (dedup (flat_map f l) [])
  else if tag r =? 2 then
    (* one datagram = up to four coalesced packets ([PDiscard] is the identity) *)
    let f := fun x => map (fun ps => handle_packet x t (fst ps) 0 1 (snd ps)) pk in
    let g := fun l => dedup (flat_map f l) [] in
    Some (g (g (g (g l))))
  else if tag r =? 3 then
    if fld r 4 =? 11 then Some (dedup (map (fun x => close_inner x t 1 (CApp (fld r 5))) l) [])
    else Some l
  else if tag r =? 4 then
    if fld r 4 =? 3 then
      match filter (fun x => err_kind x =? fld r 5) l with
      | [] => None
      | ok => Some (dedup (map (fun x => fst (poll x false)) ok) [])
      end
    else Some l
  else if tag r =? 5 then
    if fld r 4 =? 1 then
      match filter (fun x => 0 <? epq x) l with
      | [] => None
      | ok => Some (dedup (map (fun x => fst (poll_endpoint_events x)) ok) [])
      end
    else Some l
  else if tag r =? 7 then Some (dedup (map (fun x => handle_timeout x t) l) [])
  else Some l.

Fixpoint replay (pk : list (pkt * bool)) (l : list state) (rs : list (list Z)) : option (list state) :=
  match rs with
  | [] => Some l
  | r :: rs' => match replay1 pk l r with Some l' => replay pk l' rs' | None => None end
  end.

Definition step (s : mst) (r : list Z) : option mst :=
  (* [-999] panic, [-998] the harness had to kill a run that did not terminate, [-997] crash *)
  if tag r <? 0 then None else
  if tag r =? 8 then
    let k := rkey r in
    match getc s k with
    | None =>
        let c := first_probe_state s (rep r) r in
        Some (setc s k {| cands := [c]; lastp := r; owes := false; after_probe := true; pend := [] |})
    | Some c =>
        let pk := if (pf (lastp c) 0 <? 2) && (pf r 0 <? 2) then open_pkts else all_pkts in
        match replay pk (cands c) (rev (pend c)) with
        | None => None
        | Some l0 =>
            match filter (fun x => explains x (lastp c) r) l0 with
            | [] => None
            | ok =>
                let l := dedup (map (fun x => resync x r) ok) [] in
                Some (setc s k {| cands := l; lastp := r; owes := all_owe l && (pf r 1 =? 1);
                                  after_probe := true; pend := [] |})
            end
        end
    end
  else
  let k := if tag r =? 2 then (rep r, fld r 6) else rkey r in
  if (tag r =? 2) && negb (fld r 5 =? 1) then Some s else
  if (tag r =? 1) && negb (fld r 8 =? 0) then Some s else
  match getc s k with
  | None => Some s
  | Some c =>
    (* a record other than TX directly after the probe: poll_transmit returned None although
       every candidate owed the close packet on a validated path *)
    if negb (tag r =? 1) && negb (tag r =? 2) && after_probe c && owes c then None else
    Some (setc s k {| cands := cands c; lastp := lastp c; owes := owes c;
                      after_probe := if tag r =? 2 then after_probe c else false;
                      pend := r :: pend c |})
  end.

Definition monitor (i : ops) (o : outs) : option Z :=
  match o with [] => Some 0 | _ => (* an empty trace is not a run *)
  snd (run_from step 0 {| cs := []; idle_ms := param i 20 10000; ka_ms := param i 21 0 |} o)
  end.
