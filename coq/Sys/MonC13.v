(** C13 trace monitor: datagram sizes against the path-MTU estimate probed before the call;
    path-validation datagrams padded to 1200.
    Projection expected: tags 8 (probe) and 1 (transmit). *)
From Coq Require Import ZArith List Bool.
From QV Require Import Lib.Corr Sys.Trace.
Import ListNotations.
Open Scope Z_scope.

Record cst := { lastp : list Z; probes_sent : list Z; lasttx : option (Z * Z) (* size, segment size of the transmit since the last probe *) }.
Record st := { cs : list (key * cst); gso : Z; upper : Z; imtu : Z }.
Definition getc (s : st) (k : key) : cst :=
  match aget (cs s) k with Some c => c | None => {| lastp := []; probes_sent := []; lasttx := None |} end.
Definition setc (s : st) (k : key) (c : cst) : st := {| cs := aset (cs s) k c; gso := gso s; upper := upper s; imtu := imtu s |}.

Definition mem (x : Z) (l : list Z) : bool := existsb (Z.eqb x) l.

Definition step (s : st) (r : list Z) : option st :=
  let k := rkey r in
  let c := getc s k in
  if tag r =? 8 then
    let mtu := pf r 7 in
    (* floor, and the estimate rises only to a size that was probed *)
    (* a transmit that carried a PATH_CHALLENGE or PATH_RESPONSE (frame_tx counters, fields 53 and
       54, grew across it) consists of datagrams padded to at least 1200 bytes *)
    let path_padded :=
      match lastp c, lasttx c with
      | (_ :: _) as p, Some (size, seg) =>
          negb (fld p 53 + fld p 54 <? fld r 53 + fld r 54) ||
          (if seg =? 0 then 1200 <=? size else 1200 <=? seg)
      | _, _ => true
      end in
    if (1200 <=? mtu) && path_padded &&
       match lastp c with
       | [] => true
       | p => (mtu <=? pf p 7) || mem mtu (probes_sent c)
              (* a NEW path (the remote address changed) starts again from the configured initial MTU *)
              || (negb (premote p =? premote r) && (mtu <=? Z.max 1200 (imtu s)))
       end
    then Some (setc s k {| lastp := r; probes_sent := probes_sent c; lasttx := None |})
    else None
  else if (tag r =? 1) && (fld r 8 =? 0) then
    match lastp c with
    | [] => None
    | b =>
        let mtu := pf b 7 in
        let size := fld r 5 in
        let seg := fld r 6 in
        let first := if seg =? 0 then size else seg in
        let is_probe := (seg =? 0) && (mtu <? size) in
        let sized :=
          if seg =? 0 then (size <=? mtu) || ((pf b 0 =? 1) && (0 <? upper s) && (size <=? upper s))
          else (seg <=? mtu) && (size <=? seg * gso s) && (0 <? size) in
        (* client Initial datagrams are padded to 1200 *)
        let initial_ok :=
          negb ((rep r =? 0) && (pf b 0 =? 0) && (pf b 27 =? 0)) ||
          (if seg =? 0 then 1200 <=? size
           else (1200 <=? seg) && ((size mod seg =? 0) || (1200 <=? size mod seg))) in
        (* loss probes in the data space never exceed 1200 *)
        let probe_ok :=
          negb ((0 <? pf b 16) && (pf b 27 =? 2) && (pf b 0 =? 1) && (pf b 14 =? 0) && (pf b 15 =? 0)) ||
          (first <=? 1200) || is_probe in
        if sized && initial_ok && probe_ok then
          Some (setc s k {| lastp := lastp c;
                            probes_sent := if is_probe then size :: probes_sent c else probes_sent c;
                            lasttx := Some (size, seg) |})
        else None
    end
  else Some s.

Definition monitor (i : ops) (o : outs) : option Z :=
  snd (run_from step 0 {| cs := []; gso := Z.max 1 (param i 32 1); upper := param i 31 0; imtu := param i 29 1200 |} o).
