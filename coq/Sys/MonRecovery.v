(** C02 trace monitor for the loss-detection timer: the executable form of the no-wedge invariants
    of Model/Recovery.v (theorems [C02_timer_armed_when_needed], [C02_pto_yields_probe],
    [C02_probe_not_congestion_blocked], [C02_pacing_deadline_in_future] in Props/C02.v), evaluated
    on the probe snapshots of REAL connections.
    Projection expected: records with tag 8 (probe), 1 (transmit), 7 (handle_timeout), 6 (end of
    a drive), in trace order.  Probe fields used ([Connection::verif_probe]): p0 state, p1
    path.validated, p2/p3 total_sent/total_recvd, p5 path.in_flight.ack_eliciting, p8 pto_count,
    p16 loss_probes (sum), p18 Timer::LossDetection, p24 Timer::Pacing, p27 highest space.

    Checked after EVERY drive of a connection (the probe just before the TIMEOUT record):
    R1 (Inv of [timer_armed_when_needed], restricted to what the probe can see): not closed, not
       anti-amplification blocked, and
         - Established with ack-eliciting packets in flight, or
         - a client still in the handshake with ack-eliciting packets in flight (Initial/Handshake
           space: no 0-RTT in the scenario), or that has no Handshake keys yet (then the server cannot
           have acknowledged a Handshake packet: the anti-deadlock PTO must be armed even with
           nothing in flight; once it has Handshake keys the probe cannot see whether a Handshake
           packet was acknowledged, which legitimately stops the timer), or
         - a server in the handshake whose path is not validated (so no Handshake packet of the
           peer was processed and its own Handshake flight cannot have been acknowledged) with
           ack-eliciting packets in flight
       imply LossDetection is armed. (A handshaking endpoint whose only packets in flight are in
       the Data space legitimately has no PTO: Recovery.pto_time_and_space skips Data; the probe
       cannot see per-space counts, hence the restriction for 0-RTT clients / validated servers.)
    R2 ([pto_yields_probe]): if pto_count grew across a handle_timeout, the next probe (taken
       before the first poll_transmit) shows loss_probes > 0;
    R3 ([probe_not_congestion_blocked]): and, unless the path is anti-amplification blocked or the
       connection closed, that poll_transmit returns a datagram;
    R4 ([pacing_deadline_in_future]): a Pacing deadline that appeared between two probes is not
       earlier than the instant of the poll_transmit that set it (microsecond floor). *)
From Coq Require Import ZArith List Bool.
From QV Require Import Lib.Corr Sys.Trace.
Import ListNotations.
Open Scope Z_scope.

Definition p_open (p : list Z) : bool := (pf p 0 =? 0) || (pf p 0 =? 1).

(** [PathData::anti_amplification_blocked(1)] on the probed counters *)
Definition p_blocked (p : list Z) : bool := (pf p 1 =? 0) && (3 * pf p 3 <? pf p 2 + 1).

(** the part of [Recovery.needs] visible in a probe; [zr]: the scenario uses 0-RTT *)
Definition p_needs (zr : bool) (ep : Z) (p : list Z) : bool :=
  ((pf p 0 =? 1) && (0 <? pf p 5))
  || ((pf p 0 =? 0) && (ep =? 0)
      && (if zr then (pf p 5 =? 0) && (pf p 27 =? 0) else (0 <? pf p 5) || (pf p 27 =? 0)))
  || ((pf p 0 =? 0) && (ep =? 1) && (pf p 1 =? 0) && (pf p 27 =? 2) && (0 <? pf p 5)).

Definition armed_ok (zr : bool) (p : list Z) : bool :=
  negb (p_open p && negb (p_blocked p) && p_needs zr (rep p) p) || negb (pf p 18 =? -1).

Record cst := { lastp : option (list Z); pto_chk : option (list Z); must_tx : bool }.
Definition cst0 : cst := {| lastp := None; pto_chk := None; must_tx := false |}.

Record st := { conns : list (key * cst); zr_flag : bool; lax_tx : bool }.

Definition getc (s : st) (k : key) : cst := match aget (conns s) k with Some c => c | None => cst0 end.
Definition putc (s : st) (k : key) (c : cst) : st :=
  {| conns := aset (conns s) k c; zr_flag := zr_flag s; lax_tx := lax_tx s |}.

Definition pacing_ok (prev : option (list Z)) (r : list Z) : bool :=
  match prev with
  | Some a => (pf r 24 =? pf a 24) || (pf r 24 =? -1) || (rtime a <=? pf r 24)
  | None => (pf r 24 =? -1) || (0 <=? pf r 24)
  end.

Definition step (s : st) (r : list Z) : option st :=
  let k := rkey r in
  let c := getc s k in
  if tag r =? 8 then
    if must_tx c then None
    else if negb (pacing_ok (lastp c) r) then None
    else
      match pto_chk c with
      | Some b =>
          if pf b 8 <? pf r 8 then
            (* a PTO fired in the handle_timeout since probe [b] *)
            if 0 <? pf r 16 then
              Some (putc s k {| lastp := Some r; pto_chk := None;
                                must_tx := negb (lax_tx s) && p_open r && negb (p_blocked r) |})
            else None
          else Some (putc s k {| lastp := Some r; pto_chk := None; must_tx := false |})
      | None => Some (putc s k {| lastp := Some r; pto_chk := None; must_tx := false |})
      end
  else if tag r =? 1 then
    if fld r 8 =? 0 then Some (putc s k {| lastp := lastp c; pto_chk := pto_chk c; must_tx := false |})
    else Some s
  else if tag r =? 7 then
    Some (putc s k {| lastp := lastp c; pto_chk := lastp c; must_tx := false |})
  else if tag r =? 6 then
    if must_tx c then None
    else match lastp c with
         | Some p => if (rtime p =? rtime r) && negb (armed_ok (zr_flag s) p) then None else Some s
         | None => Some s
         end
  else Some s.

Definition monitor (i : ops) (o : outs) : option Z :=
  snd (run_from step 0 {| conns := []; zr_flag := 0 <? param i 44 0; lax_tx := param i 903 0 =? 1 |} o).
