(** C14 — placeholder, theorems are being added. *)
From QV Require Import Lib.Tac Lib.Corr.
Open Scope Z_scope.
