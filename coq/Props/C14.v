(** C14 — Validation tokens and Retry cannot be forged, moved or replayed (component level).
    Property theorems only; proofs under Proofs/{BloomLog,TokenCache,TokenDecision}Proofs.v.
    Models: Model/BloomLog.v, Model/TokenCache.v, Model/TokenDecision.v (each tied to the Rust
    code by the correspondence check on every run).  Cryptography (Token::decode = AEAD open
    under an HKDF-derived key) is an explicit premise of the token-decision theorems. *)
From QV Require Import Lib.Tac Lib.Corr Model.BloomLog Model.TokenCache Model.TokenDecision.
From QV Require Proofs.BloomLogProofs Proofs.TokenCacheProofs Proofs.TokenDecisionProofs.
Open Scope Z_scope.

(** ---- BloomTokenLog: NEW_TOKEN tokens are accepted at most once ---- *)

(** For all histories of [check_and_insert] with one non-zero lifetime [L] and arbitrary
    (nonce, issued) arguments — clock monotonicity not assumed, any memory budget (so wherever
    the Set -> Bloom switch happens), any false-positive behaviour of the Bloom filters —
    no (nonce, issued) pair is accepted twice, across both turnover arms. *)
Theorem C14_bloom_single_use : forall fmb L h s' rs,
  0 < L ->
  BloomLogProofs.exec fmb L BloomLog.init h = (s', rs) ->
  forall i j n t fi fj,
    (i < j)%nat ->
    nth_error h i = Some (n, t, fi) -> nth_error h j = Some (n, t, fj) ->
    nth_error rs i = Some true -> nth_error rs j = Some false.
Proof. exact BloomLogProofs.bloom_single_use. Qed.
Print Assumptions C14_bloom_single_use.

(** The same at the level of the 64-bit fingerprint the log really stores. *)
Theorem C14_bloom_single_use_fingerprint : forall fmb L h s' rs,
  0 < L -> BloomLogProofs.exec fmb L BloomLog.init h = (s', rs) ->
  forall i j n n' t fi fj, (i < j)%nat ->
    nth_error h i = Some (n, t, fi) -> nth_error h j = Some (n', t, fj) ->
    n mod 2 ^ 64 = n' mod 2 ^ 64 ->
    nth_error rs i = Some true -> nth_error rs j = Some false.
Proof. exact BloomLogProofs.bloom_single_use_fp. Qed.
Print Assumptions C14_bloom_single_use_fingerprint.

Theorem C14_bloom_zero_lifetime_rejects : forall fmb s n t fp,
  BloomLog.check fmb s n t 0 fp = (s, false).
Proof. exact BloomLogProofs.bloom_zero_lifetime_rejects. Qed.
Print Assumptions C14_bloom_zero_lifetime_rejects.

(** While both filters are exact hash sets the false-positive oracle is irrelevant, and no
    representation change ever drops a member. *)
Theorem C14_bloom_set_mode_exact : forall fmb s n t L,
  is_bloom (f1 s) = false -> is_bloom (f2 s) = false ->
  BloomLog.check fmb s n t L true = BloomLog.check fmb s n t L false.
Proof. exact BloomLogProofs.bloom_set_mode_exact. Qed.
Print Assumptions C14_bloom_set_mode_exact.

Theorem C14_bloom_conversion_preserves_membership : forall fmb f fp b x,
  BloomLog.mem x (elems f) = true ->
  BloomLog.mem x (elems (fst (filter_check fmb f fp b))) = true.
Proof. exact BloomLogProofs.bloom_conversion_preserves_membership. Qed.
Print Assumptions C14_bloom_conversion_preserves_membership.

(** ---- TokenMemoryCache: each stored token is handed out at most once ---- *)

(** Over all insert/take histories and all capacities (including 0): the implementation never
    panics (the [unwrap]s are safe), at most [max_server_names] entries, queues never empty and
    at most [max_tokens_per_server] long, and the multiset of (server, token) pairs returned by
    [take] is included in the multiset inserted. *)
Theorem C14_cache_hands_out_once : forall mn mt h,
  0 <= mn -> 0 <= mt ->
  exists s out,
    TokenCacheProofs.exec (TokenCache.init mn mt) h = Some (s, out) /\
    TokenCacheProofs.Inv s /\ max_names s = mn /\ max_tokens s = mt /\
    (forall x, (TokenCacheProofs.count x out <= TokenCacheProofs.count x (TokenCacheProofs.inserted h))%nat).
Proof. exact TokenCacheProofs.cache_hands_out_once. Qed.
Print Assumptions C14_cache_hands_out_once.

Theorem C14_cache_zero_capacity : forall mn mt h,
  (mn = 0 \/ mt = 0) -> exists s, TokenCacheProofs.exec (TokenCache.init mn mt) h = Some (s, []).
Proof. exact TokenCacheProofs.cache_zero_capacity. Qed.
Print Assumptions C14_cache_zero_capacity.

(** [take] hands out the oldest token of the server; a full queue drops its oldest token. *)
Theorem C14_cache_take_is_fifo : forall s n k q rest,
  TokenCacheProofs.Inv s -> extract n (lru s) = Some (k :: q, rest) ->
  exists s', take s n = Some (s', Some k).
Proof. exact TokenCacheProofs.take_is_fifo. Qed.
Print Assumptions C14_cache_take_is_fifo.

(** Eviction is least-recently-used: a new server name in a full cache evicts exactly the last
    entry of the recency order; storing to or taking from a present name moves it to the front
    and never reorders the others. *)
Theorem C14_cache_eviction_is_lru : forall s n k,
  TokenCacheProofs.Inv s -> 0 < max_names s -> 0 < max_tokens s ->
  (extract n (lru s) = None -> max_names s <= TokenCache.zlen (lru s) ->
   lru (store s n k) = (n, [k]) :: removelast (lru s)) /\
  (extract n (lru s) = None -> TokenCache.zlen (lru s) < max_names s ->
   lru (store s n k) = (n, [k]) :: lru s) /\
  (In n (map fst (lru s)) -> map fst (lru (store s n k)) = n :: remove Z.eq_dec n (map fst (lru s))) /\
  (forall t t2 q rest, extract n (lru s) = Some (t :: t2 :: q, rest) ->
     exists s', take s n = Some (s', Some t) /\ map fst (lru s') = n :: remove Z.eq_dec n (map fst (lru s))) /\
  (forall t rest, extract n (lru s) = Some ([t], rest) ->
     exists s', take s n = Some (s', Some t) /\ map fst (lru s') = remove Z.eq_dec n (map fst (lru s))).
Proof. exact TokenCacheProofs.cache_eviction_is_lru. Qed.
Print Assumptions C14_cache_eviction_is_lru.

(** ---- IncomingToken::from_header: validated implies genuine ---- *)
Section TokenDecision.
  Variables (key bytes : Type).
  Variable seal : key -> token -> bytes.
  Variable open : key -> bytes -> option token.
  Variable is_empty : bytes -> bool.
  Variable k : key.
  Variable issued_by_server : token -> Prop.
  (** AEAD assumption (INT-CTXT), the only cryptographic premise: whatever decodes under the
      server's key is the unmodified encoding of a token this server sealed. *)
  Hypothesis unforgeable : forall b t, open k b = Some t -> issued_by_server t /\ b = seal k t.

  Let from_header := TokenDecisionProofs.from_header key bytes open is_empty k.

  (** [validated = true] implies: the bytes are the unmodified encoding of a token issued under
      this server's key, and (Retry) presented from exactly the address and port it was issued to
      within [retry_token_lifetime], or (NEW_TOKEN) from the same IP, within its lifetime and
      accepted by the token log at this very call. *)
  Theorem C14_validated_implies_genuine : forall c log now raddr rport dcid b log' rsc od,
    from_header c log now raddr rport dcid b = (log', Incoming rsc od true) ->
    exists t, issued_by_server t /\ b = seal k t /\ is_empty b = false /\
      match pl t with
      | Retry addr port odcid iss =>
          addr = raddr /\ port = rport /\ now <= iss + retry_lt c /\
          rsc = Some dcid /\ od = odcid /\ log' = log
      | Validation ip iss =>
          ip = raddr /\ now <= iss + val_lt c /\ rsc = None /\ od = dcid /\
          BloomLog.check (log_fmb c) log (nonce t) iss (val_lt c) false = (log', true)
      end.
  Proof. exact (TokenDecisionProofs.validated_implies_genuine key bytes seal open is_empty k issued_by_server unforgeable). Qed.

  (** Any altered or foreign token is treated exactly as an absent one (log untouched). *)
  Theorem C14_altered_token_is_absent : forall c log now raddr rport dcid b,
    (forall t, issued_by_server t -> b <> seal k t) ->
    from_header c log now raddr rport dcid b = (log, unvalidated dcid).
  Proof. exact (TokenDecisionProofs.not_issued_is_absent key bytes seal open is_empty k issued_by_server unforgeable). Qed.

  (** A stale or misplaced Retry token ends the attempt (INVALID_TOKEN). *)
  Theorem C14_stale_or_misplaced_retry_is_invalid : forall c log now raddr rport dcid b t addr port od iss,
    is_empty b = false -> open k b = Some t -> pl t = Retry addr port od iss ->
    (addr <> raddr \/ port <> rport \/ iss + retry_lt c < now) ->
    from_header c log now raddr rport dcid b = (log, InvalidRetryToken).
  Proof. exact (TokenDecisionProofs.stale_or_misplaced_retry_is_invalid key bytes open is_empty k). Qed.

  Theorem C14_stale_or_misplaced_validation_is_absent : forall c log now raddr rport dcid b t ip iss,
    open k b = Some t -> pl t = Validation ip iss ->
    (ip <> raddr \/ iss + val_lt c < now) ->
    from_header c log now raddr rport dcid b = (log, unvalidated dcid).
  Proof. exact (TokenDecisionProofs.stale_or_misplaced_validation_is_absent key bytes open is_empty k). Qed.

  (** Over any history of presentations starting from a fresh log, two presentations of
      NEW_TOKEN tokens with the same nonce fingerprint and issue time (in particular of the same
      token) are never both validated. *)
  Theorem C14_validation_token_single_use : forall c h,
    0 <= val_lt c ->
    forall i j p q t t' ip ip' iss,
      (i < j)%nat -> nth_error h i = Some p -> nth_error h j = Some q ->
      open k (snd p) = Some t -> pl t = Validation ip iss ->
      open k (snd q) = Some t' -> pl t' = Validation ip' iss ->
      nonce t mod 2 ^ 64 = nonce t' mod 2 ^ 64 ->
      forall oi oj,
        nth_error (TokenDecisionProofs.serve key bytes open is_empty k c BloomLog.init h) i = Some oi ->
        nth_error (TokenDecisionProofs.serve key bytes open is_empty k c BloomLog.init h) j = Some oj ->
        TokenDecisionProofs.is_validated oi = true -> TokenDecisionProofs.is_validated oj = false.
  Proof. exact (TokenDecisionProofs.validation_token_single_use key bytes open is_empty k). Qed.
End TokenDecision.
Print Assumptions C14_validated_implies_genuine.
Print Assumptions C14_altered_token_is_absent.
Print Assumptions C14_stale_or_misplaced_retry_is_invalid.
Print Assumptions C14_stale_or_misplaced_validation_is_absent.
Print Assumptions C14_validation_token_single_use.

(** Non-vacuity. *)
Example C14_bloom_example :
  snd (BloomLogProofs.exec 0 10 BloomLog.init
         [(1, 0, false); (1, 0, false); (2, 12, false); (1, 0, false); (3, 100, false); (3, 100, false)]) =
  [true; false; true; false; true; false].
Proof. vm_compute. reflexivity. Qed.
Example C14_cache_example :
  TokenCacheProofs.exec (TokenCache.init 2 2) TokenCacheProofs.cache_example_history
  = Some (TokenCache.mk 2 2 [(3, [31]); (2, [21])], [(1, 11); (3, 30); (1, 12)]).
Proof. exact TokenCacheProofs.cache_example. Qed.
Example C14_aead_assumption_consistent : forall k b t,
  TokenDecisionProofs.ideal_open k b = Some t -> True /\ b = TokenDecisionProofs.ideal_seal k t.
Proof. exact TokenDecisionProofs.ideal_unforgeable. Qed.
