(** C10 — Wire encodings round-trip and decoders are total.
    Property theorems only: each is closed by [exact] of a lemma proved under Proofs/, followed by
    [Print Assumptions]. Models: Model/Varint.v, Model/PacketNumber.v (tied to the code by the
    correspondence check on every run). *)
From QV Require Import Lib.Tac Lib.Bytes Lib.Corr Model.Varint Model.PacketNumber Model.Frames
  Proofs.VarintProofs Proofs.PnProofs Proofs.FramesProofs Proofs.FramesTotal Proofs.FramesIter.
From QV Require Model.Header Proofs.HeaderProofs Proofs.FramesRanges gen.Constants.
From QV Require Model.TParams Proofs.TParamsProofs Model.Token Proofs.TokenProofs.
From Coq Require Import Permutation.
Open Scope Z_scope.

(** Every encodable value round-trips, with arbitrary trailing bytes left untouched. *)
Theorem C10_varint_roundtrip : forall x r,
  0 <= x < 2 ^ 62 ->
  exists b, Varint.encode x = Some b /\ Varint.decode (b ++ r) = Some (x, r).
Proof. exact varint_roundtrip. Qed.
Print Assumptions C10_varint_roundtrip.

Theorem C10_varint_size : forall x,
  0 <= x < 2 ^ 62 ->
  exists b s, Varint.encode x = Some b /\ Varint.size x = Some s /\ zlen b = s.
Proof. exact varint_size_encode. Qed.
Print Assumptions C10_varint_size.

Theorem C10_varint_rejects_out_of_range : forall x,
  ~ (0 <= x < 2 ^ 62) -> Varint.encode x = None.
Proof. exact varint_encode_none. Qed.
Print Assumptions C10_varint_rejects_out_of_range.

(** The decoder is total on arbitrary bytes, returns values in range and a suffix of its input
    after consuming between 1 and 8 bytes. *)
Theorem C10_varint_decode_total : forall bs,
  all_bytes bs = true ->
  match Varint.decode bs with
  | None => True
  | Some (v, r) => 0 <= v < 2 ^ 62 /\ exists p, bs = p ++ r /\ (1 <= length p <= 8)%nat
  end.
Proof. exact varint_decode_total. Qed.
Print Assumptions C10_varint_decode_total.

(** A truncated packet number decodes to the number that was sent for every receiver state
    inside the window of the chosen length. *)
Theorem C10_pn_roundtrip : forall n la e,
  0 <= la <= n -> 2 * (n - la) < 2 ^ 32 -> 0 <= e ->
  exists len b,
    PacketNumber.encode n la = Some (len, b) /\ length b = len /\
    (e - win len / 2 < n <= e + win len / 2 ->
     exists t, PacketNumber.decode len b = Some t /\ expand len t e = n).
Proof. exact pn_roundtrip. Qed.
Print Assumptions C10_pn_roundtrip.

Theorem C10_pn_roundtrip_protocol : forall n la e,
  0 <= la <= n -> 2 * (n - la) < 2 ^ 32 ->
  exists len b,
    PacketNumber.encode n la = Some (len, b) /\
    (la < e -> e < n + win len / 2 ->
     exists t, PacketNumber.decode len b = Some t /\ expand len t e = n).
Proof. exact pn_roundtrip_protocol. Qed.
Print Assumptions C10_pn_roundtrip_protocol.

Theorem C10_pn_rfc_deviation_unreachable : forall len t e,
  (1 <= len <= 4)%nat -> 0 <= e -> 0 <= t < win len ->
  let candidate := (e / win len) * win len + t in
  candidate = win len -> ~ (e + win len / 2 < candidate).
Proof. exact expand_rfc_deviation_unreachable. Qed.
Print Assumptions C10_pn_rfc_deviation_unreachable.

(** Non-vacuity: concrete instances at boundaries. *)
Example C10_varint_example :
  Varint.encode 16384 = Some [128; 0; 64; 0] /\ Varint.decode [128; 0; 64; 0; 7] = Some (16384, [7]).
Proof. vm_compute. split; reflexivity. Qed.
Example C10_pn_example :
  PacketNumber.encode 65836 65000 = Some (2%nat, [1; 44]) /\
  expand 2 300 65000 = 65836.
Proof. vm_compute. split; reflexivity. Qed.

(** * Frames (Model/Frames.v: frame.rs encoders, [frame::Iter], [scan_ack_blocks], [AckIter]) *)

(** Every well-formed frame value other than ACK (next theorem) and CLOSE (the one after) is
    encodable, and [Iter::try_next] on the encoding followed by arbitrary bytes [r] yields the
    frame and continues exactly at [r]. STREAM / DATAGRAM frames encoded without a length field
    extend to the end of the packet: they absorb [r] and leave nothing. *)
Theorem C10_frame_roundtrip : forall withlen max_len f,
  wf_frame f = true -> is_close f = false ->
  exists b, encode_frame withlen max_len f = Some b /\
    forall r, try_next (b ++ r) =
              DOk (absorb withlen f r) (if self_delimiting withlen f then r else []).
Proof. exact frame_roundtrip_fixed. Qed.
Print Assumptions C10_frame_roundtrip.

(** [Ack::encode] over the ranges of an [ArrayRangeSet] (ascending, half-open, separated):
    the decoder yields an ACK whose [largest] is the top of the highest range and whose
    [AckIter] walk returns exactly the encoded ranges, highest first, as inclusive ranges. *)
Theorem C10_ack_ranges_roundtrip : forall delay rs ecn,
  in62 delay = true -> wf_ranges rs = true -> wf_ecn ecn = true ->
  exists b largest additional,
    encode_ack delay rs ecn = Some b /\
    (exists lo, hd_error (rev rs) = Some (lo, largest + 1)) /\
    (forall r, try_next (b ++ r) = DOk (Ack largest delay additional ecn) r) /\
    ack_ranges largest additional = AOk (map incl_range (rev rs)).
Proof. exact ack_roundtrip. Qed.
Print Assumptions C10_ack_ranges_roundtrip.

(** [Close::encode(max_len)]: when [max_len] covers the bytes the encoder reserves
    ([close_fits]; otherwise the Rust subtraction underflows) the frame round-trips with its
    reason cut to a prefix of length [n], and the encoded frame never exceeds [max_len].
    (The last conjunct was false of the code as found: the encoder reserved 3 bytes for type and
    error code whatever the size of the code; replayed on a real connection — a 1458-byte datagram
    on a 1452-byte path — and repaired by the [fix:] commit; the model follows the repaired code.) *)
Theorem C10_close_roundtrip : forall withlen max_len f,
  wf_frame f = true -> is_close f = true -> close_fits max_len (DFrame f) = true ->
  exists b n, encode_frame withlen max_len f = Some b /\
    0 <= n <= zlen (close_reason f) /\
    (forall r, try_next (b ++ r) = DOk (truncate_close n f) r) /\
    zlen b <= max_len.
Proof. exact close_roundtrip. Qed.
Print Assumptions C10_close_roundtrip.

(** Nothing is cut when there is room for the whole reason. *)
Theorem C10_close_reason_intact : forall max_len extra len sl,
  Varint.size len = Some sl -> 0 <= len -> 0 <= extra -> 0 <= sl ->
  1 + extra + sl + len <= max_len ->
  close_reason_len max_len extra len = Some len.
Proof. exact close_reason_intact. Qed.
Print Assumptions C10_close_reason_intact.

(** [wf_ranges] is what every non-empty ascending, separated range list below 2^62 — the content
    of an [ArrayRangeSet] — satisfies. *)
Theorem C10_sorted_ranges_wf : forall rs,
  rs <> [] -> sorted_asc 0 rs = true ->
  (forall s e, hd_error (rev rs) = Some (s, e) -> e <= 2 ^ 62) ->
  wf_ranges rs = true.
Proof. exact FramesRanges.sorted_asc_wf_ranges. Qed.
Print Assumptions C10_sorted_ranges_wf.

(** Whole payloads: [Iter] over the concatenated encodings returns exactly the frames. *)
Theorem C10_frames_payload_roundtrip : forall max_len fs,
  fs <> [] -> Forall (fun f => wf_frame f = true /\ is_close f = false) fs ->
  exists p, encode_all max_len fs = Some p /\ iter p = Some (map IFrame fs).
Proof. exact payload_roundtrip. Qed.
Print Assumptions C10_frames_payload_roundtrip.

(** Decoder totality with bounds: on arbitrary bytes [try_next] returns a frame and a strict
    suffix of its input, or one of the three [IterErr]s; the checked [u64] additions of
    [scan_ack_blocks] never overflow ([DPanic]) and the loop fuel (a model artefact) never runs
    out ([E_FUEL] is not an [is_err]). *)
Theorem C10_frame_decode_total : forall bs,
  all_bytes bs = true ->
  match try_next bs with
  | DOk f r => exists pre, bs = pre ++ r /\ (1 <= length pre)%nat
  | DErr e => is_err e
  | DPanic => False
  end.
Proof. exact try_next_total. Qed.
Print Assumptions C10_frame_decode_total.

(** An ACK accepted by [scan_ack_blocks] is iterated by [AckIter] without underflow or failed
    [unwrap]; the ranges are inside [0, largest], highest first and pairwise separated. *)
Theorem C10_ack_iter_safe : forall bs largest delay additional ecn r,
  all_bytes bs = true ->
  try_next bs = DOk (Ack largest delay additional ecn) r ->
  exists lo rs, ack_ranges largest additional = AOk ((lo, largest) :: rs) /\
                0 <= lo <= largest /\ Forall (range_ok lo) rs.
Proof. exact ack_iter_safe. Qed.
Print Assumptions C10_ack_iter_safe.

(** [Iter] over arbitrary bytes: every item is a frame (whose ACK ranges can be walked) or an
    [InvalidFrame] error; no panic, no fuel exhaustion; and the whole decode operation observed
    through the hook is defined. *)
Theorem C10_frame_iter_total : forall bs last,
  all_bytes bs = true -> Forall item_ok (iter_all (length bs) bs last).
Proof. intros bs last H. apply iter_all_ok; [exact H|apply le_n]. Qed.
Print Assumptions C10_frame_iter_total.

Theorem C10_frame_decode_never_panics : forall bs,
  all_bytes bs = true -> exists o, decode_out bs = Some o.
Proof. exact decode_never_panics. Qed.
Print Assumptions C10_frame_decode_never_panics.

(** Non-vacuity. *)
Example C10_frame_example :
  wf_frame (Stream 4 70000 true [1; 2; 3]) = true /\
  encode_frame true 0 (Stream 4 70000 true [1; 2; 3]) = Some [15; 4; 128; 1; 17; 112; 3; 1; 2; 3] /\
  iter [15; 4; 128; 1; 17; 112; 3; 1; 2; 3; 1] = Some [IFrame (Stream 4 70000 true [1; 2; 3]); IFrame Ping].
Proof. vm_compute. repeat split. Qed.
Example C10_ack_example :
  wf_ranges [(1, 4); (5, 6); (10, 12); (14, 15)] = true /\
  encode_ack 42 [(1, 4); (5, 6); (10, 12); (14, 15)] None = Some [2; 14; 42; 3; 0; 1; 1; 3; 0; 0; 2] /\
  ack_ranges 14 [0; 1; 1; 3; 0; 0; 2] = AOk [(14, 14); (10, 11); (5, 5); (1, 3)].
Proof. vm_compute. repeat split. Qed.
Example C10_close_example :
  encode_frame true 10 (CloseApp 7 [65; 66; 67; 68; 69; 70; 71; 72]) = Some [29; 7; 7; 65; 66; 67; 68; 69; 70; 71] /\
  try_next [29; 7; 7; 65; 66; 67; 68; 69; 70; 71; 1] = DOk (CloseApp 7 [65; 66; 67; 68; 69; 70; 71]) [1] /\
  encode_frame true 10 (CloseApp 16384 [65; 66; 67; 68; 69; 70; 71; 72]) = Some [29; 128; 0; 64; 0; 4; 65; 66; 67; 68].
Proof. vm_compute. repeat split; reflexivity. Qed.
Example C10_decode_error_example :
  decode_out [1; 2; 5; 0; 0; 9] = Some [0; 1; -1; 3; 2] /\ decode_out [] = Some [1].
Proof. vm_compute. split; reflexivity. Qed.

(** * Packet headers (Model/Header.v: [Header::encode], [PartialEncode::finish],
    [ProtectedHeader::decode], [PartialDecode::new] / [finish]; plaintext headers) *)

(** Every well-formed header (relative to the receiver's local CID length, supported versions and
    grease bit) with a payload of admissible size encodes, and decoding the packet followed by
    arbitrary trailing bytes returns the same header, header length and payload length. Initial /
    Handshake / 0-RTT packets end exactly at their encoded Length; Retry, Short and Version
    Negotiation packets extend to the end of the datagram. *)
Theorem C10_header_roundtrip : forall lcl grease versions h payload rest,
  Header.wf_header lcl grease versions h = true -> Header.size_ok h payload = true ->
  exists hl pk, Header.encode_packet h payload = Some (hl, pk) /\
    Header.decode_packet lcl grease versions (pk ++ rest) =
    Header.expected_decode h hl pk payload rest.
Proof. exact HeaderProofs.header_roundtrip. Qed.
Print Assumptions C10_header_roundtrip.

(** Coalesced packets split at exactly the encoded boundary: the packet length reported is the
    offset of the end of the Length field plus the encoded Length, which is the length of the
    encoded packet; the first packet is [pk] and the remainder handed back is [rest], untouched. *)
Theorem C10_coalesced_split_exact : forall lcl grease versions h payload rest,
  Header.wf_header lcl grease versions h = true -> Header.size_ok h payload = true ->
  Header.has_length h = true ->
  exists hl pk, Header.encode_packet h payload = Some (hl, pk) /\
    exists hl' pl ok h',
      Header.decode_packet lcl grease versions (pk ++ rest) =
        Header.DOk (zlen pk) (if zlen rest =? 0 then -1 else zlen rest)
                   (Header.pnl_of h + zlen payload) hl' pl ok h' /\
      zlen pk = (hl - Header.pnl_of h) + (Header.pnl_of h + zlen payload) /\
      firstn (Z.to_nat (zlen pk)) (pk ++ rest) = pk /\ skipn (Z.to_nat (zlen pk)) (pk ++ rest) = rest.
Proof. exact HeaderProofs.coalesced_split_exact. Qed.
Print Assumptions C10_coalesced_split_exact.

Example C10_header_example :
  Header.wf_header 8 false [1] (Header.HInitial 1 [6; 184; 88; 236; 111; 128; 69; 43] [] [] 1 0) = true /\
  Header.encode_packet (Header.HInitial 1 [6; 184; 88; 236; 111; 128; 69; 43] [] [] 1 0) [9; 9; 9] =
    Some (19, [192; 0; 0; 0; 1; 8; 6; 184; 88; 236; 111; 128; 69; 43; 0; 0; 64; 4; 0; 9; 9; 9]) /\
  Header.decode_packet 8 false [1]
    ([192; 0; 0; 0; 1; 8; 6; 184; 88; 236; 111; 128; 69; 43; 0; 0; 64; 4; 0; 9; 9; 9] ++ [77; 1; 2; 3; 4; 5; 6; 7; 8; 0; 1; 2; 3]) =
    Header.DOk 22 13 4 19 3 true (Header.HInitial 1 [6; 184; 88; 236; 111; 128; 69; 43] [] [] 1 0).
Proof. vm_compute. repeat split. Qed.

(** Connection IDs in long-header form ([ConnectionId::encode_long] / [decode_long]). *)
Theorem C10_cid_roundtrip : forall c x,
  zlen c <= Header.MAX_CID -> Header.decode_long (Header.cid_long c ++ x) = Some (c, x).
Proof. exact HeaderProofs.decode_long_cid. Qed.
Print Assumptions C10_cid_roundtrip.

(** The constants the models use are the ones of the compiled crate. *)
Example C10_constants :
  Frames.MAX_CID_SIZE = Constants.MAX_CID_SIZE /\ Header.MAX_CID = Constants.MAX_CID_SIZE /\
  Z.of_nat Frames.RESET_TOKEN_SIZE = Constants.RESET_TOKEN_SIZE.
Proof. repeat split; reflexivity. Qed.

(** * Transport parameters (Model/TParams.v: [TransportParameters::write] / [read]) *)

(** [read (write p)] = [p] for every parameter set [p] that satisfies the representation
    invariants and the semantic validation of [read] (for the reader's side), whatever reserved
    ("grease") parameter is added and in whatever order the 21 supported identifiers are written
    ([write_order] is an arbitrary permutation). Defaults are omitted by the writer and restored
    by the reader; the reserved parameter is ignored. *)
Theorem C10_tparams_roundtrip : forall server p g order,
  TParams.wf_tp Constants.MAX_STREAM_COUNT server p = true -> TParams.wf_grease g = true ->
  Permutation order (seq 0 21) ->
  exists b, TParams.write p g order = Some b /\
            TParams.read Constants.MAX_STREAM_COUNT server b = TParams.ROk p.
Proof. exact (TParamsProofs.tparams_roundtrip Constants.MAX_STREAM_COUNT). Qed.
Print Assumptions C10_tparams_roundtrip.

(** The reader is total on arbitrary bytes: a parameter set, Malformed or IllegalValue; the loop
    fuel of the model never runs out. *)
Theorem C10_tparams_read_total : forall msc server bs,
  match TParams.read msc server bs with
  | TParams.ROk _ | TParams.RErr TParams.Malformed | TParams.RErr TParams.Illegal => True
  | TParams.RErr TParams.OutOfFuel => False
  end.
Proof. exact TParamsProofs.read_total. Qed.
Print Assumptions C10_tparams_read_total.

Example C10_tparams_example :
  let p := {| TParams.ints := [30000; 1472; 1048576; 65536; 65536; 65536; 100; 3; 3; 25; 5];
              TParams.dam := true; TParams.mdfs := Some 65535; TParams.iscid := Some [1; 2; 3; 4];
              TParams.gqb := true; TParams.mad := Some 1000; TParams.odcid := Some [9; 9];
              TParams.rscid := None; TParams.srt := Some (repeat 7 16);
              TParams.pa := Some {| TParams.pa_v4 := Some ([127; 0; 0; 1], 443); TParams.pa_v6 := None;
                                    TParams.pa_cid := [5; 6]; TParams.pa_tok := repeat 8 16 |} |} in
  let order := [20; 3; 15; 0; 11; 7; 19; 1; 12; 5; 16; 2; 13; 9; 17; 4; 14; 6; 18; 8; 10]%nat in
  TParams.wf_tp Constants.MAX_STREAM_COUNT false p = true /\
  TParams.MSC = Constants.MAX_STREAM_COUNT /\
  match TParams.write p (Some (58, [1; 2; 3])) order with
  | Some b => TParams.read Constants.MAX_STREAM_COUNT false b = TParams.ROk p /\
              TParams.read Constants.MAX_STREAM_COUNT true b = TParams.RErr TParams.Illegal
  | None => False
  end.
Proof. vm_compute. repeat split; reflexivity. Qed.

(** * Address-validation / Retry tokens (Model/Token.v: payload layout of [Token::encode] /
    [Token::decode]) *)

(** For ANY sealing and opening functions such that opening a sealed plaintext under the same nonce
    returns it (the AEAD stays an explicit premise), decoding an encoded well-formed token returns
    that token (type, address, port, original destination CID, issue time, nonce). *)
Theorem C10_token_roundtrip :
  forall (seal : list Z -> list Z -> list Z) (open : list Z -> list Z -> option (list Z)),
  (forall n x, open n (seal n x) = Some x) ->
  forall t, Token.wf_token t = true -> Token.decode open (Token.encode seal t) = Some (Some t).
Proof. exact TokenProofs.token_roundtrip. Qed.
Print Assumptions C10_token_roundtrip.

(** The transparent AEAD under which the correspondence runs satisfies that premise. *)
Theorem C10_token_toy_aead : forall n x, Token.toy_open n (Token.toy_seal n x) = Some x.
Proof. exact TokenProofs.toy_open_seal. Qed.
Print Assumptions C10_token_toy_aead.

Example C10_token_example :
  let t := {| Token.nonce := [1; 2; 3; 4; 5; 6; 7; 8; 9; 10; 11; 12; 13; 14; 15; 16];
              Token.body := Token.Retry (Token.V4 [127; 0; 0; 1]) 4433 [9; 8; 7] 1700000000 |} in
  Token.wf_token t = true /\
  Token.decode Token.toy_open (Token.encode Token.toy_seal t) = Some (Some t) /\
  Token.decode Token.toy_open (removelast (Token.encode Token.toy_seal t)) = Some None.
Proof. vm_compute. repeat split; reflexivity. Qed.
