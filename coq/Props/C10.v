(** C10 — Wire encodings round-trip and decoders are total.
    Property theorems only: each is closed by [exact] of a lemma proved under Proofs/, followed by
    [Print Assumptions]. Models: Model/Varint.v, Model/PacketNumber.v (tied to the code by the
    correspondence check on every run). *)
From QV Require Import Lib.Tac Lib.Bytes Lib.Corr Model.Varint Model.PacketNumber
  Proofs.VarintProofs Proofs.PnProofs.
Open Scope Z_scope.

(** Every encodable value round-trips, with arbitrary trailing bytes left untouched. *)
Theorem C10_varint_roundtrip : forall x r,
  0 <= x < 2 ^ 62 ->
  exists b, Varint.encode x = Some b /\ Varint.decode (b ++ r) = Some (x, r).
Proof. exact varint_roundtrip. Qed.
Print Assumptions C10_varint_roundtrip.

Theorem C10_varint_size : forall x,
  0 <= x < 2 ^ 62 ->
  exists b s, Varint.encode x = Some b /\ Varint.size x = Some s /\ zlen b = s.
Proof. exact varint_size_encode. Qed.
Print Assumptions C10_varint_size.

Theorem C10_varint_rejects_out_of_range : forall x,
  ~ (0 <= x < 2 ^ 62) -> Varint.encode x = None.
Proof. exact varint_encode_none. Qed.
Print Assumptions C10_varint_rejects_out_of_range.

(** The decoder is total on arbitrary bytes, returns values in range and a suffix of its input
    after consuming between 1 and 8 bytes. *)
Theorem C10_varint_decode_total : forall bs,
  all_bytes bs = true ->
  match Varint.decode bs with
  | None => True
  | Some (v, r) => 0 <= v < 2 ^ 62 /\ exists p, bs = p ++ r /\ (1 <= length p <= 8)%nat
  end.
Proof. exact varint_decode_total. Qed.
Print Assumptions C10_varint_decode_total.

(** A truncated packet number decodes to the number that was sent for every receiver state
    inside the window of the chosen length. *)
Theorem C10_pn_roundtrip : forall n la e,
  0 <= la <= n -> 2 * (n - la) < 2 ^ 32 -> 0 <= e ->
  exists len b,
    PacketNumber.encode n la = Some (len, b) /\ length b = len /\
    (e - win len / 2 < n <= e + win len / 2 ->
     exists t, PacketNumber.decode len b = Some t /\ expand len t e = n).
Proof. exact pn_roundtrip. Qed.
Print Assumptions C10_pn_roundtrip.

Theorem C10_pn_roundtrip_protocol : forall n la e,
  0 <= la <= n -> 2 * (n - la) < 2 ^ 32 ->
  exists len b,
    PacketNumber.encode n la = Some (len, b) /\
    (la < e -> e < n + win len / 2 ->
     exists t, PacketNumber.decode len b = Some t /\ expand len t e = n).
Proof. exact pn_roundtrip_protocol. Qed.
Print Assumptions C10_pn_roundtrip_protocol.

Theorem C10_pn_rfc_deviation_unreachable : forall len t e,
  (1 <= len <= 4)%nat -> 0 <= e -> 0 <= t < win len ->
  let candidate := (e / win len) * win len + t in
  candidate = win len -> ~ (e + win len / 2 < candidate).
Proof. exact expand_rfc_deviation_unreachable. Qed.
Print Assumptions C10_pn_rfc_deviation_unreachable.

(** Non-vacuity: concrete instances at boundaries. *)
Example C10_varint_example :
  Varint.encode 16384 = Some [128; 0; 64; 0] /\ Varint.decode [128; 0; 64; 0; 7] = Some (16384, [7]).
Proof. vm_compute. split; reflexivity. Qed.
Example C10_pn_example :
  PacketNumber.encode 65836 65000 = Some (2%nat, [1; 44]) /\
  expand 2 300 65000 = 65836.
Proof. vm_compute. split; reflexivity. Qed.
