(** C15 — Path migration keeps the connection and cannot be hijacked (component level).
    Property theorems only: each is closed by [exact] of a lemma proved under Proofs/, followed by
    [Print Assumptions]. Model: Model/PathSM.v (the path state machine of an Established
    connection; per-path byte counters are Model/AntiAmp.v, so C07's bound is imported, not
    restated), tied to the real endpoints by the trace monitor Sys/MonC15.v on every run.

    A run is a list of operations on [PathSM.init server? migration_allowed? address]:
    [Datagram d] (source address, size, authentic?, older-than-dedup-window?, packet number,
    frames, and the random tokens / PTO values [migrate] would read), [Timeout now],
    [Transmit seg max sizes]. Everything the environment chooses is universally quantified. *)
From QV Require Import Lib.Tac Lib.Chk Lib.Corr gen.Constants.
From QV Require Import Model.PathSM Proofs.PathSMProofs Proofs.PathSMThms.
From QV Require Proofs.AntiAmpProofs.
Open Scope Z_scope.

(** non_migrating_ignores_strangers. For a client, or a server with migration disabled, a
    datagram from any other address is a no-op: the state afterwards is the state before (no
    counter, no dedup entry, no queued response), and nothing is sent. *)
Theorem C15_non_migrating_ignores_strangers : forall s d,
  may_migrate s = false -> d_from d <> remote (cur s) -> step s (Datagram d) = Some (s, []).
Proof. exact non_migrating_ignores_strangers. Qed.
Print Assumptions C15_non_migrating_ignores_strangers.

(** ... and therefore, for every run, such an endpoint stays on its first, validated, path *)
Theorem C15_non_migrating_never_moves : forall srv mig a l s,
  srv && mig = false -> steps (init srv mig a) l = Some s ->
  remote (cur s) = a /\ validated (cur s) = true.
Proof. exact non_migrating_never_moves. Qed.
Print Assumptions C15_non_migrating_never_moves.

(** migrate_requires_fresh_authentic. In any state satisfying the invariant (all reachable ones,
    [C15_reachable_inv]) a datagram changes the remote address only if the endpoint is a server
    allowing migration and the packet is authentic, not a duplicate (neither older than the dedup
    window nor seen before), contains a non-probing frame, and its number exceeds every number
    accepted so far; the new remote is the datagram's source. *)
Theorem C15_migrate_requires_fresh_authentic : forall s d,
  Inv s -> remote (cur (handle_datagram s d)) <> remote (cur s) ->
  may_migrate s = true /\ d_auth d = true /\ d_old d = false /\ memz (d_pn d) (seen s) = false /\
  all_probing (d_frames d) = false /\ (forall q, In q (seen s) -> q < d_pn d) /\
  d_from d <> remote (cur s) /\ remote (cur (handle_datagram s d)) = d_from d.
Proof. exact migrate_requires_fresh_authentic. Qed.
Print Assumptions C15_migrate_requires_fresh_authentic.

Theorem C15_reachable_inv : forall srv mig a l s,
  steps (init srv mig a) l = Some s -> Inv s.
Proof. intros srv mig a l s H. exact (steps_inv0 l _ _ (init_inv srv mig a) H). Qed.
Print Assumptions C15_reachable_inv.

(** a processed packet delivered again — from any address, any time later, whatever else the
    environment claims about the copy — is dropped before its frames are looked at *)
Theorem C15_replayed_packet_never_migrates : forall s d l s2 d',
  (d_from d = remote (cur s) \/ may_migrate s = true) -> d_auth d = true -> d_old d = false ->
  steps (handle_datagram s d) l = Some s2 -> d_pn d' = d_pn d ->
  handle_packet s2 d' = s2 /\ remote (cur (handle_datagram s2 d')) = remote (cur s2).
Proof. exact replayed_packet_never_migrates. Qed.
Print Assumptions C15_replayed_packet_never_migrates.

Theorem C15_unauthenticated_does_nothing : forall s d, d_auth d = false -> handle_packet s d = s.
Proof. exact unauthenticated_does_nothing. Qed.
Print Assumptions C15_unauthenticated_does_nothing.

(** new_path_limited_until_validated, part 1. Directly after a migration the path is
    unvalidated — always: neither [PathData::from_previous] (same IPv4 address, new port) nor
    [PathData::new] keeps [validated] — its counters restart from the triggering datagram, a
    challenge is outstanding, the validation timer is armed 3 x max(PTO after, PTO before) ahead,
    and [prev_path] is the path that was validated last. *)
Theorem C15_migration_starts_limited : forall s d,
  Inv s -> remote (cur (handle_datagram s d)) <> remote (cur s) ->
  let s' := handle_datagram s d in
  validated (cur s') = false /\ aa (cur s') = AA.recv (AA.fresh false) (d_size d) /\
  challenge (cur s') = Some (d_tok_new d) /\ pending (cur s') = true /\
  timer s' = Some (d_now d + 3 * Z.max (d_pto_new d) (d_pto_prev d)) /\
  last_valid s' = last_valid s /\
  exists p, prev s' = Some p /\ validated p = true /\ remote p = last_valid s.
Proof. exact migration_starts_limited. Qed.
Print Assumptions C15_migration_starts_limited.

(** part 2: C07's bound (imported: [AntiAmpProofs.amplification_bound]) holds on the current path
    in every reachable state in which it is unvalidated, on the bytes REALLY sent to / received
    from the address since the migration, for the crate's largest datagram. *)
Theorem C15_new_path_amplification_bound : forall srv mig a l s,
  Forall (op_wf MAX_UDP_PAYLOAD) l -> steps (init srv mig a) l = Some s ->
  validated (cur s) = false ->
  AA.gs (aa (cur s)) < 3 * AA.gr (aa (cur s)) + MAX_UDP_PAYLOAD.
Proof.
  intros srv mig a l s Hwf Hs Hv.
  exact (new_path_amplification_bound MAX_UDP_PAYLOAD srv mig a l s ltac:(vm_compute; reflexivity) Hwf Hs Hv).
Qed.
Print Assumptions C15_new_path_amplification_bound.

(** part 3: the path becomes validated only by an authentic, fresh datagram FROM THE PATH'S OWN
    ADDRESS carrying a PATH_RESPONSE with the outstanding token (or by the fallback below);
    a response from elsewhere, or with another token, changes nothing at all. *)
Theorem C15_validation_only_by : forall s o s' out,
  Inv s -> step s o = Some (s', out) -> validated (cur s) = false -> validated (cur s') = true ->
  (exists d tok, o = Datagram d /\ d_auth d = true /\ d_old d = false /\ memz (d_pn d) (seen s) = false /\
                 d_from d = remote (cur s) /\ challenge (cur s) = Some tok /\ In (FResponse tok) (d_frames d) /\
                 remote (cur s') = remote (cur s))
  \/ (exists now dl, o = Timeout now /\ timer s = Some dl /\ dl <= now /\ remote (cur s') = last_valid s).
Proof. exact validation_only_by. Qed.
Print Assumptions C15_validation_only_by.

Theorem C15_response_elsewhere_changes_nothing : forall from pn s tok,
  (from <> remote (cur s) \/ challenge (cur s) <> Some tok) ->
  process_frame from pn s (FResponse tok) = s.
Proof. exact response_elsewhere_changes_nothing. Qed.
Print Assumptions C15_response_elsewhere_changes_nothing.

(** fallback_within_3pto. In every reachable state an unvalidated path has its validation timer
    armed and a challenge outstanding, and [prev_path] is the most recently validated path —
    across overlapping and repeated migrations (the "don't clobber" rule); when [handle_timeout]
    runs at or after the deadline the connection is back on that path, validated, with no
    previous path and no timer. The deadline is the one computed by the most recent migration:
    its time + 3 x max(PTO after, PTO before). *)
Theorem C15_unvalidated_path_is_on_the_clock : forall srv mig a l s,
  steps (init srv mig a) l = Some s ->
  if validated (cur s)
  then timer s = None /\ last_valid s = remote (cur s) /\ challenge (cur s) = None
  else (exists dl, timer s = Some dl) /\ (exists tok, challenge (cur s) = Some tok) /\
       exists p, prev s = Some p /\ validated p = true /\ remote p = last_valid s.
Proof. exact unvalidated_path_is_on_the_clock. Qed.
Print Assumptions C15_unvalidated_path_is_on_the_clock.

Theorem C15_fallback_at_deadline : forall srv mig a l s dl now,
  steps (init srv mig a) l = Some s -> timer s = Some dl -> dl <= now ->
  let s' := handle_timeout s now in
  validated (cur s) = false /\ remote (cur s') = last_valid s /\ validated (cur s') = true /\
  challenge (cur s') = None /\ prev s' = None /\ timer s' = None.
Proof. exact fallback_at_deadline. Qed.
Print Assumptions C15_fallback_at_deadline.

Theorem C15_timer_set_only_by_migrate : forall s o s' out dl,
  step s o = Some (s', out) -> timer s' = Some dl -> timer s <> Some dl ->
  exists d, o = Datagram d /\ remote (cur s') = d_from d /\ d_from d <> remote (cur s) /\
            dl = d_now d + 3 * Z.max (d_pto_new d) (d_pto_prev d).
Proof. exact timer_set_only_by_migrate. Qed.
Print Assumptions C15_timer_set_only_by_migrate.

(** validated_path_resumes. The matching response from the path's address validates it in the
    same step and the send gate stops consulting the byte counters. *)
Theorem C15_validated_path_resumes : forall s d tok b,
  Inv s -> validated (cur s) = false -> challenge (cur s) = Some tok ->
  d_from d = remote (cur s) -> d_auth d = true -> d_old d = false -> memz (d_pn d) (seen s) = false ->
  In (FResponse tok) (d_frames d) ->
  let s' := handle_datagram s d in
  validated (cur s') = true /\ remote (cur s') = remote (cur s) /\ timer s' = None /\
  AA.blocked (aa (cur s')) b = Some false.
Proof. exact validated_path_resumes. Qed.
Print Assumptions C15_validated_path_resumes.

(** Where a poll_transmit may send (DESIGN §7 F9, decided). Besides the current path (accounted
    in its counters) there are exactly two other destinations, both one datagram of
    MIN_INITIAL_SIZE that is accounted nowhere:
    - the previous path, once per migration away from a validated path — that address IS
      validated, so the 3x rule does not apply to it;
    - the source of an authentic off-path PATH_CHALLENGE. This one is not bounded by what that
      address sent ([C15_offpath_response_not_limited]: 50 bytes in, 1200 out); RFC 9000 §8.2.2
      wants the padding dropped in that case. It needs a peer that holds the connection's keys,
      and a real quinn peer pads its challenges to 1200 bytes, so the simulator cannot reach it. *)
Theorem C15_transmit_destinations : forall s seg max ds s' out,
  Inv s -> transmit s seg max ds = Some (s', out) ->
  out = []
  \/ (exists t, out = [(remote (cur s), t)] /\
                AA.gs (aa (cur s')) = AA.gs (aa (cur s)) + t /\ AA.gr (aa (cur s')) = AA.gr (aa (cur s)))
  \/ (exists p, prev s = Some p /\ pending p = true /\ validated p = true /\ remote p = last_valid s /\
                validated (cur s) = false /\ out = [(remote p, MIN_INITIAL_SIZE)] /\
                prev s' = Some (set_pending p false) /\ cur s' = cur s)
  \/ (exists tok a r', PR.pop_off_path (resps s) (remote (cur s)) = (r', Some (tok, a)) /\
                a <> remote (cur s) /\ out = [(a, MIN_INITIAL_SIZE)] /\ resps s' = r' /\ cur s' = cur s).
Proof. exact transmit_destinations. Qed.
Print Assumptions C15_transmit_destinations.

Theorem C15_offpath_response_not_limited :
  let s1 := handle_datagram (init true true 0) offpath_witness in
  remote (cur s1) = 0 /\ validated (cur s1) = true /\
  option_map snd (step s1 (Transmit 1200 1 [100])) = Some [(9, MIN_INITIAL_SIZE)] /\
  3 * d_size offpath_witness < MIN_INITIAL_SIZE.
Proof. exact offpath_response_not_limited. Qed.
Print Assumptions C15_offpath_response_not_limited.

(** The full property includes a liveness clause — the server FOLLOWS a client that keeps sending
    from its new address and the transfer completes — which is not proved here: it is observed on
    sampled schedules by the trace monitor (Sys/MonC15.v, rule (d)). *)
Definition C15_full_follows_client : Prop :=
  forall (client_keeps_sending_from : Z -> Prop) (eventually_remote_is : Z -> Prop) (b : Z),
    client_keeps_sending_from b -> eventually_remote_is b.

(** Non-vacuity. Addresses: 0 = the client's first address, 5 = its new one, 66 = an attacker.
    (1) packet 7 from address 5 migrates (unvalidated, timer at 1000 + 3 x 400), the server sends
    its challenge within the budget 3 x 1200, the response with token 111 from address 5
    validates; the remote addresses over time are 0, 5, 5, 5. *)
Definition ex_mig : dgram := mkd 1000 5 1200 true false 7 [FOther] 111 222 400 300.
Definition ex_resp : dgram := mkd 1100 5 1200 true false 8 [FResponse 111; FOther] 0 0 0 0.
Example C15_example_migrate_then_validate :
  match steps (init true true 0) [Datagram ex_mig] with
  | Some s => (remote (cur s), validated (cur s), timer s, challenge (cur s),
               option_map remote (prev s)) = (5, false, Some 2200, Some 111, Some 0)
  | None => False
  end /\
  match steps (init true true 0) [Datagram ex_mig; Transmit 1200 10 [1200; 1200; 1200; 1200; 1200]] with
  | Some s => (AA.gs (aa (cur s)), AA.gr (aa (cur s))) = (0, 1200)   (* that poll sent the previous path's challenge *)
  | None => False
  end /\
  match steps (init true true 0)
          [Datagram ex_mig; Transmit 1200 10 [1200]; Transmit 1200 10 [1200; 1200; 1200; 1200; 1200];
           Transmit 1200 10 [1200]; Datagram ex_resp] with
  | Some s => (remote (cur s), validated (cur s), timer s, AA.gs (aa (cur s)), last_valid s)
              = (5, true, None, 3600, 5)
  | None => False
  end.
Proof. vm_compute. repeat split; reflexivity. Qed.

(** (2) the same packet replayed from the attacker's address 66 BEFORE the original arrives is
    fresh: the server moves to 66, limited and on the clock; the original (now a duplicate)
    does nothing; a response from elsewhere does nothing; at the deadline the server is back on
    address 0, validated. A second migration in between (to 67) does not clobber [prev_path]. *)
Definition ex_spoof : dgram := mkd 1000 66 1200 true false 7 [FOther] 333 444 400 300.
Definition ex_orig : dgram := mkd 1010 0 1200 true false 7 [FOther] 0 0 0 0.
Definition ex_resp_elsewhere : dgram := mkd 1020 0 1200 true false 9 [FResponse 333] 0 0 0 0.
Definition ex_spoof2 : dgram := mkd 1500 67 1200 true false 10 [FOther] 555 666 400 400.
Example C15_example_spoof_then_fallback :
  remotes (init true true 0)
    [Datagram ex_spoof; Datagram ex_orig; Timeout 2199; Timeout 2200] = [0; 66; 66; 66; 0] /\
  match steps (init true true 0) [Datagram ex_spoof; Datagram ex_orig; Timeout 2200] with
  | Some s => (remote (cur s), validated (cur s), timer s, prev s, challenge (cur s)) = (0, true, None, None, None)
  | None => False
  end /\
  match steps (init true true 0) [Datagram ex_spoof; Datagram ex_spoof2] with
  | Some s => (remote (cur s), validated (cur s), timer s, option_map remote (prev s)) = (67, false, Some 2700, Some 0)
  | None => False
  end /\
  remotes (init true true 0)
    [Datagram ex_spoof; Datagram ex_spoof2; Timeout 2700] = [0; 66; 67; 0] /\
  (* not from address 66 although the token matches: 9 is even the highest number: it migrates back to 0 instead *)
  match steps (init true true 0) [Datagram ex_spoof; Datagram ex_resp_elsewhere] with
  | Some s => (remote (cur s), validated (cur s), option_map remote (prev s)) = (66, false, Some 0)
  | None => False
  end /\
  (* a client ignores the lot *)
  remotes (init false false 0) [Datagram ex_spoof; Datagram ex_spoof2; Timeout 9999] = [0; 0; 0; 0].
Proof. vm_compute. repeat split; reflexivity. Qed.

(** Defect found by the trace ledger (rule (e) of Sys/MonC15.v) and repaired in the code
    (`fix: credit coalesced packets ...`): [handle_coalesced] credited the bytes behind the first
    packet of a datagram to the current path whatever the datagram's source. With that credit the
    bound is false — 1200 bytes came from address 66, two datagrams from elsewhere with 1149
    coalesced bytes each raise its budget, 6000 bytes go to 66 — and with the repaired credit
    (only from the path's own address) the invariant behind the bound is preserved. *)
Theorem C15_coalesced_credit_refuted :
  let s1 := handle_datagram (init true true 0) coalesced_witness in
  let s2 := coalesced_unfixed (coalesced_unfixed s1 1149) 1149 in
  match steps s2 [Transmit 1200 1 [1200]; Transmit 1200 10 [1200; 1200; 1200; 1200; 1200]] with
  | Some s3 => remote (cur s3) = 66 /\ validated (cur s3) = false /\
               AA.gr (aa (cur s3)) = 1200 /\ AA.gs (aa (cur s3)) = 6000 /\
               3 * AA.gr (aa (cur s3)) + 1200 <= AA.gs (aa (cur s3))
  | None => False
  end.
Proof. exact coalesced_credit_refuted. Qed.
Print Assumptions C15_coalesced_credit_refuted.

Theorem C15_coalesced_credit_fixed : forall mtu s from n,
  0 <= n -> Inv s /\ Hist mtu s -> Inv (coalesced_fixed s from n) /\ Hist mtu (coalesced_fixed s from n).
Proof. intros mtu s from n Hn [HI HH]. split; [apply coalesced_fixed_inv; exact HI|apply coalesced_fixed_hist; assumption]. Qed.
Print Assumptions C15_coalesced_credit_fixed.
