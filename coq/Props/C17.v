(** C17 — 0-RTT data vanishes if rejected: after the rejection the client's stream and
    flow-control state equals that of a brand-new connection (stream / flow-control part).
    Proofs: Proofs/ZeroRttProofs.v; models: Model/ZeroRtt.v, Model/FlowSend.v
    ([CODE_FIXED = true]: the model follows the repaired [StreamsState::zero_rtt_rejected]). *)
From QV Require Import Lib.Tac Lib.Corr Model.FlowSend Model.ZeroRtt
  Proofs.FlowRangeSet Proofs.FlowSendProofs Proofs.FlowSendFull Proofs.ZeroRttProofs.
Open Scope Z_scope.

(** Whole-record equality (every one of the 24 fields of the model state: [next], [max],
    [max_data], [data_sent], [unacked_data], the stream map, the pending / blocked / event queues,
    the blocked flags, ...) between "rejected, then new parameters" and "brand-new, then new
    parameters", for ANY new parameters and any state with the shape of an ended 0-RTT phase. *)
Theorem C17_rejected_is_fresh_partial : forall s p,
  EarlyShape s -> reject_and_params p s = Some (fresh_with p s).
Proof. exact rejected_is_fresh_shape. Qed.
Print Assumptions C17_rejected_is_fresh_partial.

(** ... hence every later operation sequence is observed identically on both. *)
Theorem C17_rejected_behaves_fresh : forall s p s' i,
  EarlyShape s -> reject_and_params p s = Some s' ->
  run_from s' i = run_from (fresh_with p s) i.
Proof.
  intros s p s' i H R. rewrite (rejected_is_fresh_shape s p H) in R. injection R as <-. reflexivity.
Qed.
Print Assumptions C17_rejected_behaves_fresh.

(** The brand-new state has that shape. *)
Theorem C17_fresh_has_early_shape : forall sd mrb sw p0,
  0 <= sd <= 1 -> EarlyShape (do_set_params p0 (init sd mrb sw)).
Proof. exact early_shape_start. Qed.
Print Assumptions C17_fresh_has_early_shape.

(** History: the code as found ([reject_with false]) REFUTED the property — F3 ([unacked_data]
    survives) and F6 ([max_data] survives).  Both replayed on the implementation
    (corpus/zero_rtt/*.json) and repaired by the [fix:] commit in the repository. *)
Theorem C17_rejected_is_fresh_refuted_before_fix :
  exists s p, EarlyShape s /\
    match reject_with false s with
    | Some s' => unacked_data (do_set_params p s') <> unacked_data (fresh_with p s)
    | None => False
    end.
Proof. exact rejected_is_fresh_refuted_before_fix. Qed.
Print Assumptions C17_rejected_is_fresh_refuted_before_fix.

Theorem C17_rejected_max_data_refuted_before_fix :
  exists s p,
    match reject_with false s with
    | Some s' => max_data (do_set_params p s') <> max_data (fresh_with p s)
    | None => False
    end.
Proof. exact rejected_max_data_refuted_before_fix. Qed.
Print Assumptions C17_rejected_max_data_refuted_before_fix.

(** The model follows the repaired code. *)
Theorem C17_model_follows_fixed_code : CODE_FIXED = true.
Proof. reflexivity. Qed.
Print Assumptions C17_model_follows_fixed_code.

(** Retry: in a 0-RTT state ([AllEarly]: nothing acknowledged, nothing queued for retransmission)
    [retransmit_all_for_0rtt] marks every visited stream on which something was sent as entirely
    unsent again (per stream; [retry_stream] is applied to every local stream in turn). *)
Theorem C17_retry_marks_stream_unsent_partial : forall id s s',
  AllEarly s -> retry_stream RETRY_FIXED id s = Some s' ->
  AllEarly s'
  /\ (forall y, lookup id s'.(send) = Some (Some y) -> y.(s_unsent) = 0)
  /\ (forall k, k <> id -> lookup k s'.(send) = lookup k s.(send)).
Proof.
  intros id s s' P R. destruct (retry_stream_spec _ _ _ _ R P) as (A & B & C & _). auto.
Qed.
Print Assumptions C17_retry_marks_stream_unsent_partial.

(** The Retry preserves all invariants of C05 (in particular the in-flight accounting restarts
    consistently): part of [reachable_full]; here the witness pair for the repaired defect. *)
Theorem C17_retry_lone_fin_refuted_before_fix :
  match retry_with false (state_after case_lone_fin) with
  | Some s' =>
      match lookup 0 s'.(send) with
      | Some (Some x) => is_pending x = false /\ s'.(pendq) = [] /\ x.(s_state) = 1
      | _ => False
      end
  | None => False
  end.
Proof. exact retry_lone_fin_refuted_before_fix. Qed.
Print Assumptions C17_retry_lone_fin_refuted_before_fix.

Theorem C17_retry_lone_fin_resent :
  match do_retry (state_after case_lone_fin) with
  | Some s' =>
      match lookup 0 s'.(send) with
      | Some (Some x) => x.(s_fin_pending) = true /\ s'.(pendq) = [0] /\ x.(s_unsent) = 0
      | _ => False
      end
  | None => False
  end.
Proof. exact retry_lone_fin_fixed. Qed.
Print Assumptions C17_retry_lone_fin_resent.

(** FULL statement (NOT proved) [retry_resends_everything]: after the Retry every early stream
    with data or a FIN sent is pending again AND in the pending queue.  Missing: the invariant
    "a pending stream that was not reset is in the pending queue" over the early operations. It is
    checked on the implementation by the FIN ledger of the oracle (Model/FlowSend.v [fin_run]). *)
Definition C17_retry_resends_everything_full : Prop := forall sd mrb sw p0 i s g s' d k x,
  0 <= sd <= 1 -> params_valid p0 = true -> grun i (start sd mrb sw p0) = (s, g) ->
  g.(g_phase) = 0 -> s.(side) = 0 -> do_retry s = Some s' ->
  0 <= d <= 1 -> 0 <= k < get_next d s -> lookup (sid 0 d k) s.(send) = Some (Some x) ->
  x.(s_state) <> 3 -> (0 < x.(s_offset) \/ x.(s_state) <> 0) ->
  exists y, lookup (sid 0 d k) s'.(send) = Some (Some y) /\ is_pending y = true
            /\ y.(s_unsent) = 0 /\ In (sid 0 d k) s'.(pendq).

(** FULL statement (NOT proved): [EarlyShape] holds after every sequence of early operations
    (open / write / finish / reset on local streams, transmission, loss, set_send_window, poll).
    Missing: the induction showing those operations preserve [EarlyShape] (they only insert local
    keys and modify existing local entries).  It is covered by the correspondence test of
    component [zero_rtt] (the oracle compares the rejected state with a real fresh
    [StreamsState] field by field and on every later operation) and by [early_shape_example]. *)
Definition early_op (sd : Z) (op : list Z) : bool :=
  let c := arg op 0 in
  is_neutral c || (is_app c && id_local sd (arg op 1) && (0 <=? arg op 1) && (0 <=? arg op 2)).
Definition C17_rejected_is_fresh_full : Prop := forall sd mrb sw p0 i p1,
  0 <= sd <= 1 -> 0 <= mrb -> params_valid p0 = true -> forallb (early_op sd) i = true ->
  let s := fold_left (fun s op => match apply op s with Some (s', _) => s' | None => s end) i
                     (do_set_params p0 (init sd mrb sw)) in
  reject_and_params p1 s = Some (fresh_with p1 s).

Example C17_example :
  EarlyShape (state_after case_early) /\ next_bi (state_after case_early) = 2
  /\ data_sent (state_after case_early) = 100 /\ unacked_data (state_after case_early) = 100.
Proof. exact early_shape_example. Qed.
