(** C17 — 0-RTT data vanishes if rejected: after the rejection the client's stream and
    flow-control state equals that of a brand-new connection (stream / flow-control part).
    Proofs: Proofs/ZeroRttProofs.v; models: Model/ZeroRtt.v, Model/FlowSend.v
    ([CODE_FIXED = true]: the model follows the repaired [StreamsState::zero_rtt_rejected]). *)
From QV Require Import Lib.Tac Lib.Corr Model.FlowSend Model.ZeroRtt
  Proofs.FlowSendProofs Proofs.ZeroRttProofs.
Open Scope Z_scope.

(** Whole-record equality (every one of the 24 fields of the model state: [next], [max],
    [max_data], [data_sent], [unacked_data], the stream map, the pending / blocked / event queues,
    the blocked flags, ...) between "rejected, then new parameters" and "brand-new, then new
    parameters", for ANY new parameters and any state with the shape of an ended 0-RTT phase. *)
Theorem C17_rejected_is_fresh_partial : forall s p,
  EarlyShape s -> reject_and_params p s = Some (fresh_with p s).
Proof. exact rejected_is_fresh_shape. Qed.
Print Assumptions C17_rejected_is_fresh_partial.

(** ... hence every later operation sequence is observed identically on both. *)
Theorem C17_rejected_behaves_fresh : forall s p s' i,
  EarlyShape s -> reject_and_params p s = Some s' ->
  run_from s' i = run_from (fresh_with p s) i.
Proof.
  intros s p s' i H R. rewrite (rejected_is_fresh_shape s p H) in R. injection R as <-. reflexivity.
Qed.
Print Assumptions C17_rejected_behaves_fresh.

(** The brand-new state has that shape. *)
Theorem C17_fresh_has_early_shape : forall sd mrb sw p0,
  0 <= sd <= 1 -> EarlyShape (do_set_params p0 (init sd mrb sw)).
Proof. exact early_shape_start. Qed.
Print Assumptions C17_fresh_has_early_shape.

(** History: the code as found ([reject_with false]) REFUTED the property — F3 ([unacked_data]
    survives) and F6 ([max_data] survives).  Both replayed on the implementation
    (corpus/zero_rtt/*.json) and repaired by the [fix:] commit in the repository. *)
Theorem C17_rejected_is_fresh_refuted_before_fix :
  exists s p, EarlyShape s /\
    match reject_with false s with
    | Some s' => unacked_data (do_set_params p s') <> unacked_data (fresh_with p s)
    | None => False
    end.
Proof. exact rejected_is_fresh_refuted_before_fix. Qed.
Print Assumptions C17_rejected_is_fresh_refuted_before_fix.

Theorem C17_rejected_max_data_refuted_before_fix :
  exists s p,
    match reject_with false s with
    | Some s' => max_data (do_set_params p s') <> max_data (fresh_with p s)
    | None => False
    end.
Proof. exact rejected_max_data_refuted_before_fix. Qed.
Print Assumptions C17_rejected_max_data_refuted_before_fix.

(** The model follows the repaired code. *)
Theorem C17_model_follows_fixed_code : CODE_FIXED = true.
Proof. reflexivity. Qed.
Print Assumptions C17_model_follows_fixed_code.

(** FULL statement (NOT proved): [EarlyShape] holds after every sequence of early operations
    (open / write / finish / reset on local streams, transmission, loss, set_send_window, poll).
    Missing: the induction showing those operations preserve [EarlyShape] (they only insert local
    keys and modify existing local entries).  It is covered by the correspondence test of
    component [zero_rtt] (the oracle compares the rejected state with a real fresh
    [StreamsState] field by field and on every later operation) and by [early_shape_example]. *)
Definition early_op (sd : Z) (op : list Z) : bool :=
  let c := arg op 0 in
  is_neutral c || (is_app c && id_local sd (arg op 1) && (0 <=? arg op 1) && (0 <=? arg op 2)).
Definition C17_rejected_is_fresh_full : Prop := forall sd mrb sw p0 i p1,
  0 <= sd <= 1 -> 0 <= mrb -> params_valid p0 = true -> forallb (early_op sd) i = true ->
  let s := fold_left (fun s op => match apply op s with Some (s', _) => s' | None => s end) i
                     (do_set_params p0 (init sd mrb sw)) in
  reject_and_params p1 s = Some (fresh_with p1 s).

Example C17_example :
  EarlyShape (state_after case_early) /\ next_bi (state_after case_early) = 2
  /\ data_sent (state_after case_early) = 100 /\ unacked_data (state_after case_early) = 100.
Proof. exact early_shape_example. Qed.
