(** C19 — The UDP layer preserves boundaries, payload and metadata.
    Property theorems only. Models: Model/UdpModel.v (segmentation, GRO, receive split),
    Model/Cmsg.v (control buffer layout, prepare_msg option space, receive decode), tied to
    quinn-udp / quinn on every run by checks/C19.py (udp_cmsg, udp_loop on real loopback sockets,
    source-shape check of the split loop). Layout numbers come from the compiled crate
    (gen/Constants.v): a changed buffer size, payload type or a new option breaks this file. *)
From QV Require Import Lib.Tac Lib.Bytes Lib.Corr gen.Constants Model.UdpModel Model.Cmsg
  Proofs.UdpProofs Proofs.CmsgProofs.

(** ** Boundaries *)

(** For every payload and every segment size: segmentation yields non-empty chunks of exactly
    [seg] bytes except a shorter last one, whose concatenation is the payload; and however the
    receiving kernel coalesces them ([choice] is arbitrary), splitting each received message by
    its reported stride — the loop of [RecvState::poll_socket] — returns exactly those chunks. *)
Theorem C19_split_coalesce_segments : forall (seg : nat) (contents : list Z),
  (0 < seg)%nat ->
  exists segs,
    segments seg contents = Some segs /\
    concat segs = contents /\
    run_shape seg segs /\
    Forall (fun d => (0 < length d <= seg)%nat) segs /\
    forall choice, split_all (gro_coalesce choice segs) = Some segs.
Proof. exact split_coalesce_segments. Qed.
Print Assumptions C19_split_coalesce_segments.

(** The same for any sequence of non-empty datagrams from one source (not only a GSO batch). *)
Theorem C19_gro_split_roundtrip : forall choice (dgs : list (list Z)),
  Forall (fun d => d <> []) dgs -> split_all (gro_coalesce choice dgs) = Some dgs.
Proof. exact gro_split_roundtrip. Qed.
Print Assumptions C19_gro_split_roundtrip.

(** The receive loop terminates and loses nothing for every positive stride ... *)
Theorem C19_split_terminates : forall (stride : nat) (data : list Z),
  (0 < stride)%nat -> exists l, split_by_stride stride data = Some l /\ concat l = data.
Proof. exact split_terminates. Qed.
Print Assumptions C19_split_terminates.

(** ... and only then: a zero stride on a non-empty message makes no progress. Kernel assumption
    (UDP_GRO never reports 0; without the cmsg the stride is the message length). *)
Theorem C19_split_stride_zero_hangs : forall data : list Z,
  data <> [] -> split_by_stride 0 data = None.
Proof. exact split_stride_zero_hangs. Qed.
Print Assumptions C19_split_stride_zero_hangs.

(** [effective_segment_size] is [None] exactly when the transmit is a single datagram, and the
    shortcut never changes which datagrams are sent. *)
Theorem C19_effective_none_iff_single : forall (seg : nat) (contents : list Z) segs,
  (0 < seg)%nat -> contents <> [] -> segments seg contents = Some segs ->
  (effective_segment_size (Some seg) (length contents) = None <-> length segs = 1%nat).
Proof. exact effective_none_iff_single. Qed.
Print Assumptions C19_effective_none_iff_single.

Theorem C19_transmit_datagrams_eq_segments : forall (seg : nat) (contents : list Z),
  (0 < seg)%nat -> contents <> [] ->
  transmit_datagrams (Some seg) contents = segments seg contents.
Proof. exact transmit_datagrams_eq_segments. Qed.
Print Assumptions C19_transmit_datagrams_eq_segments.

(** ** Control messages stay within their buffer *)
Open Scope Z_scope.

(** The layout formulas of the model agree with what libc computes in the compiled crate, the
    buffer type has the announced size and alignment, and the byte order is the modelled one. *)
Theorem C19_layout_consistent :
  cmsg_space gen_layout 0 = UDP_CMSG_SPACE_0 /\ cmsg_len gen_layout 0 = UDP_CMSG_LEN_0 /\
  cmsg_space gen_layout UDP_SZ_U8 = UDP_SPACE_U8 /\
  cmsg_space gen_layout UDP_SZ_U16 = UDP_SPACE_U16 /\
  cmsg_space gen_layout UDP_SZ_C_INT = UDP_SPACE_C_INT /\
  cmsg_space gen_layout UDP_SZ_IN_PKTINFO = UDP_SPACE_IN_PKTINFO /\
  cmsg_space gen_layout UDP_SZ_IN6_PKTINFO = UDP_SPACE_IN6_PKTINFO /\
  cmsg_space gen_layout UDP_SZ_TIMESPEC = UDP_SPACE_TIMESPEC /\
  UDP_CMSG_BUF_SIZE = UDP_CMSG_LEN /\ UDP_CMSGHDR_ALIGN <= UDP_CMSG_BUF_ALIGN /\
  0 < UDP_CMSG_ALIGN /\ 0 <= UDP_CMSGHDR_SIZE /\ UDP_LITTLE_ENDIAN = 1.
Proof. vm_compute. repeat split; congruence. Qed.
Print Assumptions C19_layout_consistent.

(** Send side. For EVERY combination of {dst v4 | v6 | v4-mapped} x {no ECN, ECT(1), ECT(0), CE}
    x {segment size or not} x {src none | v4 | v6} x sendmsg_einval x encode_src_ip
    (3*4*2*3*2*2 = 288 combinations, a finite domain enumerated in [all_sendopts] and proved
    complete), the control messages [prepare_msg] pushes fit the buffer: [Encoder::push] never
    hits its assertion. *)
Theorem C19_cmsg_fits : forall o : sendopt,
  total_space gen_layout (send_sizes gen_layout o) <= UDP_CMSG_LEN.
Proof. exact (send_fits_sound gen_layout ltac:(vm_compute; reflexivity)). Qed.
Print Assumptions C19_cmsg_fits.

(** The concrete model of [prepare_msg] — the function the correspondence runs against the real
    one, with ECN value, segment size and source address — pushes exactly the sizes of its option
    combination, so it never exceeds the buffer either (its [Encoder::push] panic is unreachable). *)
Theorem C19_prepare_msg_fits : forall dst ecn seg src einval,
  src_ok src ->
  cmsgs_space gen_layout (prepare_cmsgs gen_layout dst ecn seg src einval) <= UDP_CMSG_LEN.
Proof. exact (fun dst ecn seg src einval => prepare_cmsgs_fits dst ecn seg src einval ltac:(vm_compute; reflexivity)). Qed.
Print Assumptions C19_prepare_msg_fits.

(** ... and so does every prefix of the pushes (the assertion is checked after each one). *)
Theorem C19_cmsg_prefix_fits : forall (o : sendopt) (k : nat),
  total_space gen_layout (firstn k (send_sizes gen_layout o)) <= UDP_CMSG_LEN.
Proof.
  intros o k. apply (prefix_fits gen_layout); [vm_compute; reflexivity|vm_compute; congruence| |exact (C19_cmsg_fits o)].
  destruct o as [d e g s i c]; destruct d, g, s, i; vm_compute; repeat constructor; congruence.
Qed.
Print Assumptions C19_cmsg_prefix_fits.

(** Receive side. Everything the kernel attaches to one message of a socket configured by
    [UdpSocketState::new] — for every combination of socket family, packet family, coalescing and
    timestamping (16 combinations) — fits the receive control buffer, so nothing is truncated
    and in particular the TOS/TCLASS message carrying the ECN codepoint, which comes last, is
    delivered. (False for the 96-byte buffer the repository had: see the example below.) *)
Theorem C19_recv_cmsg_fits : forall r : recvopt,
  total_space gen_layout (recv_sizes gen_layout r) <= UDP_CMSG_LEN.
Proof. exact (recv_fits_sound gen_layout ltac:(vm_compute; reflexivity)). Qed.
Print Assumptions C19_recv_cmsg_fits.

(** Decode after encode: what the kernel attaches (timestamp, GRO stride, destination address and
    interface, ECN bits; any subset of the optional ones) is what [decode_recv] reports. *)
Theorem C19_cmsg_roundtrip : forall len ts gro dst ifx pkt4 tos,
  match ts with Some (s, n) => 0 <= s < 2 ^ 63 /\ 0 <= n < 10 ^ 9 | None => True end ->
  match gro with Some g => 0 <= g < 2 ^ 31 | None => True end ->
  addr_ok dst -> 0 <= ifx < 2 ^ 32 -> 0 <= tos < 256 ->
  decode_all gen_layout (init_meta len) (kernel_cmsgs gen_layout ts gro dst ifx pkt4 tos)
  = Some (expected_meta len ts gro dst ifx tos).
Proof. exact cmsg_roundtrip. Qed.
Print Assumptions C19_cmsg_roundtrip.

(** ** Non-vacuity and the finding *)
Example C19_example_boundaries :
  segments 3 [1; 2; 3; 4; 5; 6; 7; 8] = Some [[1; 2; 3]; [4; 5; 6]; [7; 8]] /\
  gro_coalesce [5%nat] [[1; 2; 3]; [4; 5; 6]; [7; 8]] = [(3%nat, [1; 2; 3; 4; 5; 6; 7; 8])] /\
  gro_coalesce [1%nat; 0%nat] [[1; 2; 3]; [4; 5; 6]; [7; 8]] = [(3%nat, [1; 2; 3; 4; 5; 6]); (2%nat, [7; 8])] /\
  split_by_stride 3 [1; 2; 3; 4; 5; 6; 7; 8] = Some [[1; 2; 3]; [4; 5; 6]; [7; 8]] /\
  effective_segment_size (Some 3%nat) 8 = Some 3%nat /\ effective_segment_size (Some 8%nat) 8 = None.
Proof. vm_compute. repeat split; reflexivity. Qed.

Example C19_example_cmsg :
  send_sizes gen_layout {| o_dst := DV6; o_ecn := Ce; o_seg := true; o_src := SV6; o_einval := false; o_encsrc := true |}
  = [UDP_SZ_C_INT; UDP_SZ_U16; UDP_SZ_IN6_PKTINFO] /\
  length all_sendopts = 288%nat /\ length all_recvopts = 16%nat.
Proof. vm_compute. repeat split; reflexivity. Qed.

(** With the 96-byte buffer (64-bit Linux layout) a coalesced, timestamped IPv4 message needs
    112 bytes and an IPv6 one 120: the trailing ECN message was dropped by the kernel. *)
Example C19_recv_budget_refuted_at_96 :
  recv_fits_all layout_96 = false /\ send_fits_all layout_96 = true /\
  total_space layout_96 (recv_sizes layout_96 {| r_sock6 := false; r_pkt4 := true; r_gro := true; r_ts := true |}) = 112 /\
  total_space layout_96 (recv_sizes layout_96 {| r_sock6 := true; r_pkt4 := false; r_gro := true; r_ts := true |}) = 120.
Proof. vm_compute. repeat split; reflexivity. Qed.

(** * Receive buffers sized as documented hold the largest GRO batch
    [UdpSocketState::gro_segments()] is what callers multiply the datagram size with to size a
    receive buffer (quinn's [RecvState] does).  The kernel coalesces at most UDP_GRO_CNT_MAX = 64
    segments (assumption about Linux, listed in the trusted base); the value the compiled crate
    reports on a fresh loopback socket ([UDP_GRO_SEGMENTS], read on every run) must therefore be
    64 when GRO is available, or 1 when it is not — and with that value every batch fits. *)
Example C19_gro_segments_constant :
  Constants.UDP_GRO_SEGMENTS = 64 \/ Constants.UDP_GRO_SEGMENTS = 1.
Proof. vm_compute. first [left; reflexivity | right; reflexivity]. Qed.

Theorem C19_gro_buffer_holds_batch : forall mss n last,
  0 <= mss -> 0 <= last <= mss -> 1 <= n <= 64 -> Constants.UDP_GRO_SEGMENTS = 64 ->
  (n - 1) * mss + last <= mss * Constants.UDP_GRO_SEGMENTS.
Proof. intros mss n last Hm Hl Hn ->. nia. Qed.
Print Assumptions C19_gro_buffer_holds_batch.
