(** C09 — Datagrams reach the right connection; connections are isolated (component level).

    Model: Model/Routing.v — [ConnectionIndex], [ConnectionMeta], the connection slab with slot
    reuse, [new_cid], and the call sequences of [Endpoint::{connect, handle, accept, refuse, ignore,
    handle_event}]; tied to a REAL [Endpoint] on every run by the `routing` correspondence check
    (exact outputs + an independent ownership-ledger oracle).  [state_after i] is the endpoint state
    after the history [i] of operations (any number of connects, accepts, NeedIdentifiers,
    RetireConnectionId in any order, ResetToken, Drained, datagrams; CID length 0..20 chosen by the
    first operation); the theorems quantify over ALL histories.

    The code as it was violated the property in two ways, both repaired by `fix:` commits and both
    kept here as computed counterexamples of the unrepaired model ([original]):
    [C09_remove_unconditional_refuted] (DESIGN F10, also for reset tokens) and
    [C09_connect_leak_refuted] (found here). *)
From QV Require Import Lib.Tac Lib.Corr Model.Routing Proofs.RoutingMap Proofs.RoutingInv
  Proofs.RoutingProofs Proofs.RoutingFrame.
Open Scope Z_scope.

(** [connection_ids[cid] = ch] implies [ch] is live and the CID is in the [loc_cids] of the slot's
    current occupant (issued to THIS incarnation, not retired); its incarnation number is one that
    was handed out. *)
Theorem C09_index_sound : forall i s c ch,
  state_after i = Some s -> lookup c (s_ids s) = Some ch ->
  exists m seq, lookup [ch] (s_conns s) = Some m /\ lookup seq (m_loc m) = Some c /\ m_inc m < s_epoch s.
Proof. exact index_sound. Qed.
Print Assumptions C09_index_sound.

(** Every issued, unretired (non-empty) CID of a live connection routes to it. *)
Theorem C09_index_complete : forall i s ch m seq c,
  state_after i = Some s -> lookup [ch] (s_conns s) = Some m -> lookup seq (m_loc m) = Some c -> c <> [] ->
  lookup c (s_ids s) = Some ch.
Proof. exact index_complete. Qed.
Print Assumptions C09_index_complete.

(** The [new_cid] loop never hands a CID in use to a second connection or sequence number. *)
Theorem C09_cids_disjoint : forall i s ch1 m1 k1 ch2 m2 k2 c,
  state_after i = Some s -> lookup [ch1] (s_conns s) = Some m1 -> lookup [ch2] (s_conns s) = Some m2 ->
  lookup k1 (m_loc m1) = Some c -> lookup k2 (m_loc m2) = Some c -> c <> [] ->
  ch1 = ch2 /\ k1 = k2.
Proof. exact cids_disjoint. Qed.
Print Assumptions C09_cids_disjoint.

(** After [Drained(ch)] none of the five maps contains [ch]. *)
Theorem C09_no_stale_after_drain : forall i s ch s' o,
  state_after i = Some s -> step s [8; ch] = Some (s', o) -> ~ mentions s' ch.
Proof. exact no_stale_after_drain. Qed.
Print Assumptions C09_no_stale_after_drain.

(** The slot the next connection will get is mentioned by no map: a reused handle inherits nothing. *)
Theorem C09_new_handle_fresh : forall i s,
  state_after i = Some s -> ~ mentions s (vacant_key s).
Proof. exact new_handle_fresh. Qed.
Print Assumptions C09_new_handle_fresh.

(** What [ConnectionIndex::get] can answer: only a live connection that holds the destination CID,
    or (Initial/0-RTT only) was created by that DCID, or (empty DCID) claimed the address tuple,
    or registered the trailing reset token for that remote. *)
Theorem C09_route_unique : forall i s kind r l t dcid ch,
  state_after i = Some s -> get s kind r l t dcid = Some (RConn ch) ->
  exists m, lookup [ch] (s_conns s) = Some m /\
    ((dcid <> [] /\ exists seq, lookup seq (m_loc m) = Some dcid) \/
     ((kind = 1 \/ kind = 2) /\ m_server m = true /\ m_init m = dcid) \/
     (dcid = [] /\ m_server m = true /\ m_remote m = r /\ m_local m = l) \/
     (dcid = [] /\ m_server m = false /\ m_remote m = r) \/
     m_tok m = Some (r, t)).
Proof. exact route_unique. Qed.
Print Assumptions C09_route_unique.

(** A short-header packet carrying an active CID reaches its owner from any address, with any
    trailing bytes. *)
Theorem C09_route_owner : forall i s ch m seq c r l t,
  state_after i = Some s -> lookup [ch] (s_conns s) = Some m -> lookup seq (m_loc m) = Some c -> c <> [] ->
  get s 0 r l t c = Some (RConn ch).
Proof. exact route_owner. Qed.
Print Assumptions C09_route_owner.

(** Every reachable state satisfies the whole routing invariant (slab well-formedness, per-connection
    consistency, soundness of all five maps). *)
Theorem C09_reachable_inv : forall i s, state_after i = Some s -> Inv s.
Proof. exact reachable_inv. Qed.
Print Assumptions C09_reachable_inv.

(** The unrepaired code, refuted by computation; the repaired model passes the same histories. *)
Theorem C09_remove_unconditional_refuted :
  oracle f10_history (run_v original f10_history) = false /\
  oracle tok_history (run_v original tok_history) = false /\
  oracle f10_history (run f10_history) = true /\ oracle tok_history (run tok_history) = true.
Proof.
  split; [exact (proj2 f10_refuted)|]. split; [exact (proj1 tok_refuted)|].
  split; [exact (proj2 f10_fixed) | exact (proj2 tok_refuted)].
Qed.
Print Assumptions C09_remove_unconditional_refuted.

Theorem C09_connect_leak_refuted :
  oracle leak_history (run_v original leak_history) = false /\
  oracle leak_history (run leak_history) = true.
Proof. split; [exact (proj2 leak_refuted) | exact (proj2 leak_fixed)]. Qed.
Print Assumptions C09_connect_leak_refuted.

(** [isolation] as a frame property.  [label s op] is the connection a step creates (connect, accept:
    the vacant slab slot), changes (NeedIdentifiers, RetireConnectionId, ResetToken) or removes
    (Drained); datagrams, refuse and ignore carry no label.  A step labelled [a] leaves every other
    connection [b] alone: [b]'s record is unchanged, exactly the same non-empty CIDs route to [b]
    (the entry for the empty CID is never consulted by [get]), and [b] gains no initial-DCID, tuple
    or reset-token entry. *)
Theorem C09_isolation_partial : forall i s op s' o b,
  state_after i = Some s -> step s op = Some (s', o) -> label s op <> Some b ->
  lookup [b] (s_conns s') = lookup [b] (s_conns s) /\
  (forall k, k <> [] -> (lookup k (s_ids s') = Some b <-> lookup k (s_ids s) = Some b)) /\
  (forall k, lookup k (s_init s') = Some (RConn b) -> lookup k (s_init s) = Some (RConn b)) /\
  (forall k, lookup k (s_in s') = Some b -> lookup k (s_in s) = Some b) /\
  (forall k, lookup k (s_out s') = Some b -> lookup k (s_out s) = Some b) /\
  (forall k, lookup k (s_tok s') = Some b -> lookup k (s_tok s) = Some b).
Proof.
  intros i s op s' o b R H N. apply reachable_inv in R.
  destruct (step_frame s op s' o b R H N) as [A B C D E F]. repeat split; auto; apply B; auto.
Qed.
Print Assumptions C09_isolation_partial.

(** Statements kept at full strength but NOT proved. *)

(** Missing from [C09_isolation_partial]: that [b] also LOSES no entry.  For [connection_ids] this
    is proved (the equivalence above); for [connection_ids_initial] it needs the Incoming
    bookkeeping invariant (an accepted/refused Incoming's DCID is not some connection's initial
    DCID), not carried by [Inv]; for the tuple and token maps it holds only under the step's
    precondition (the tuple claimed / token registered by [a] is not currently held by [b]) --
    otherwise the younger claimant takes the entry over, by design after the repair. *)
Definition C09_isolation_full : Prop :=
  forall i s op s' o b,
    state_after i = Some s -> step s op = Some (s', o) -> label s op <> Some b ->
    lookup [b] (s_conns s') = lookup [b] (s_conns s) /\
    (forall k, lookup k (s_ids s') = Some b <-> lookup k (s_ids s) = Some b) /\
    (forall k, lookup k (s_init s') = Some (RConn b) <-> lookup k (s_init s) = Some (RConn b)) /\
    (forall k, lookup k (s_in s') = Some b -> lookup k (s_in s) = Some b) /\
    (forall k, lookup k (s_out s') = Some b -> lookup k (s_out s) = Some b) /\
    (forall k, lookup k (s_tok s') = Some b -> lookup k (s_tok s) = Some b).

(** [tuple_route]: if live zero-length-CID connections have pairwise distinct tuples throughout
    the history, each of them owns its tuple entry.  Not proved (only the soundness direction is:
    [C09_route_unique] cases 3 and 4, and [I_in]/[I_out] of the invariant). *)
Definition distinct_tuples (s : st) : Prop :=
  forall a b ma mb, a <> b -> lookup [a] (s_conns s) = Some ma -> lookup [b] (s_conns s) = Some mb ->
                    m_remote ma <> m_remote mb.
Definition C09_tuple_route_full : Prop :=
  forall i s ch m,
    (forall j s0, state_after (firstn j i) = Some s0 -> distinct_tuples s0) ->
    state_after i = Some s -> s_len s = 0 -> lookup [ch] (s_conns s) = Some m ->
    (m_server m = true -> lookup [m_remote m; m_local m] (s_in s) = Some ch) /\
    (m_server m = false -> lookup [m_remote m] (s_out s) = Some ch).

(** [views_in_step] (endpoint [loc_cids]/[cids_issued] vs the connection's [CidState]) is not
    modelled here: [CidState] is private to the connection module (property C03's component). *)

(** Non-vacuity: a history with both roles, issuance, retirement, drain, slot reuse, a token. *)
Example C09_example :
  oracle example_history (run example_history) = true /\
  exists s, state_after example_history = Some s /\ size (s_conns s) = 2 /\ size (s_ids s) = 3.
Proof. destruct example_run as [_ [A B]]. split; [exact A | exact B]. Qed.

(** Regression for the ownership ledger (seed sweep): a short-lived accepted connection (first
    packet rejected) is the last claimant of its tuple; the older owner does not regain it. *)
Example C09_takeover_example :
  run takeover_history = [[0]; [2; 0]; [0; 0]; [1; 0]; [2; 1]; [1; 3]; [0; 0]] /\
  oracle takeover_history (run takeover_history) = true.
Proof. exact takeover_run. Qed.
