(** C01 — Stream data is delivered reliably, in order and exactly once.
    Property theorems only: each is closed by [exact] of a lemma proved under Proofs/, followed by
    [Print Assumptions]. Models: Model/Assembler.v, Model/SendBuffer.v, Model/RangeSet.v,
    Model/ArrayRangeSet.v (tied to the code by the correspondence check on every run); the
    composed system (sender + network + receiver) is defined in Proofs/StreamSysProofs.v.

    FULL STATEMENT and what is proved of it:
    - no alteration, in-order gap-free prefix for ordered reads, exact content for unordered reads,
      for all schedules of the composed system: PROVED ([C01_stream_no_alteration]);
    - exactly once: no stream offset is covered by two returned chunks, ordered or unordered,
      before or after the mode switch, for all executions: PROVED ([C01_assembler_exactly_once],
      [C01_assembler_unordered_disjoint], [C01_stream_exactly_once]); it rests on the set
      semantics of the BTree RangeSet ([C01_range_set_replace], [C01_range_set_insert]) and is
      REFUTED for the code before the two repairs ([C01_unfixed_*_refuted]);
    - no byte lost / progress of reads ([C01_full_assembler_progress]): NOT proved — it needs the
      heap-order invariant of the BinaryHeap model (the heap operations are proved to be
      permutations, [C01_heap_ops_permute], not yet to keep the maximum at the root); checked on
      every run by the oracle (an ordered read returns nothing only if the next byte was never
      inserted);
    - end-of-stream / reset code: at the Recv/Chunks level, handled under C11 (another check). *)
From QV Require Import Lib.Tac Lib.Bytes Lib.Corr Lib.RangeSpec Model.RangeSet Model.ArrayRangeSet
  Model.Assembler Model.SendBuffer Proofs.HeapProofs Proofs.AssemblerProofs Proofs.SendBufferProofs
  Proofs.StreamSysProofs Proofs.RangeSetProofs Proofs.BTreeRangeSetProofs Proofs.AssemblerOnceProofs.
Open Scope Z_scope.

(* ------------------------------------------------------------------ the composed system *)
(** [stream_no_alteration]: for EVERY schedule of the one-stream two-peer system — any application
    writes, any poll_transmit sizes, any acks / losses / re-chunked retransmissions / 0-RTT restart
    on the sender, the network delivering any previously produced frame any number of times in any
    order (or never), interleaved in any way with receiver reads of any size, ordered or unordered,
    mode switches and clear — on which the models do not panic: the bytes returned by ordered reads
    are, concatenated, a prefix of the bytes the sending application wrote, returned as
    consecutive chunks from offset 0; every chunk returned by any read equals the written bytes at
    its offset and lies within what was written. *)
Theorem C01_stream_no_alteration : forall sched st',
  Forall sched_ok sched -> sys_exec sys_init sched = Some st' ->
  let W := written st' in
  let evs := events st' in
  AssemblerProofs.obytes evs = firstn (length (AssemblerProofs.obytes evs)) W /\
  chain 0 (filter ev_ord evs) /\
  Forall (fun e => ev_bytes e = SendBufferProofs.slice W (ev_off e) (zlen (ev_bytes e)) /\
                   (ev_bytes e = [] \/ 0 <= ev_off e /\ ev_off e + zlen (ev_bytes e) <= zlen W)) evs.
Proof. exact stream_no_alteration. Qed.
Print Assumptions C01_stream_no_alteration.

(** [stream_exactly_once]: in the composed system no stream offset is delivered to the receiving
    application twice, whatever the network duplicates, re-delivers or reorders and whatever the
    sender retransmits. *)
Theorem C01_stream_exactly_once : forall sched st' x,
  Forall sched_ok sched -> sys_exec sys_init sched = Some st' ->
  AssemblerOnceProofs.cnt x (events st') <= 1.
Proof. exact stream_exactly_once. Qed.
Print Assumptions C01_stream_exactly_once.

(* ------------------------------------------------------------------ Assembler *)
(** (a) For EVERY sequence of operations on one Assembler (inserts of slices of the written
    sequence [w] below the bound [hi], in any order, with any overlaps, duplicates and allocation
    sizes, reads with any max_length, mode switches, clear, probes) on which the model does not
    panic: the concatenation of the chunks returned by ordered reads is the prefix of [w] of
    exactly that length, never beyond [hi]; the chunks are consecutive from offset 0; while the
    stream is in ordered mode [bytes_read] is that length. *)
Theorem C01_assembler_ordered_prefix : forall (w : Z -> Z) (hi : Z) os a' evs,
  Forall (AssemblerProofs.op_ok w hi) os ->
  AssemblerProofs.exec Assembler.init os = Some (a', evs) ->
  obytes evs = wslice w 0 (length (obytes evs)) /\
  (obytes evs = [] \/ zlen (obytes evs) <= hi) /\
  chain 0 (filter ev_ord evs) /\
  (Assembler.ordered a' = true -> Assembler.bytes_read a' = zlen (obytes evs)).
Proof. exact AssemblerProofs.ordered_prefix. Qed.
Print Assumptions C01_assembler_ordered_prefix.

(** (b), content half: every chunk returned by ANY read, ordered or unordered, before or after
    the mode switch, equals the written sequence at its offset and lies below [hi]. *)
Theorem C01_assembler_reads_exact : forall (w : Z -> Z) (hi : Z) os a' evs,
  Forall (AssemblerProofs.op_ok w hi) os ->
  AssemblerProofs.exec Assembler.init os = Some (a', evs) ->
  Forall (fun e => ev_bytes e = wslice w (ev_off e) (length (ev_bytes e)) /\
                   (ev_bytes e = [] \/ (0 <= ev_off e /\ ev_off e + zlen (ev_bytes e) <= hi))) evs.
Proof. exact AssemblerProofs.reads_exact. Qed.
Print Assumptions C01_assembler_reads_exact.

(** (b), exactly-once half: for EVERY execution, every stream offset is covered by at most one
    returned chunk ([cnt x evs] = number of returned chunks containing offset [x]) — ordered or
    unordered reads, before or after the ordered->unordered switch, whatever is re-inserted. *)
Theorem C01_assembler_exactly_once : forall (w : Z -> Z) (hi : Z) os a' evs x,
  Forall (AssemblerProofs.op_ok w hi) os ->
  AssemblerProofs.exec Assembler.init os = Some (a', evs) ->
  AssemblerOnceProofs.cnt x evs <= 1.
Proof. exact AssemblerOnceProofs.delivered_at_most_once. Qed.
Print Assumptions C01_assembler_exactly_once.

(** ... hence any two distinct returned chunks are disjoint (empty chunks, returned by reads with
    max_length = 0, carry no byte). This is [C01_full_unordered_disjoint]. *)
Theorem C01_assembler_unordered_disjoint : forall (w : Z -> Z) (hi : Z) os a' evs,
  Forall (AssemblerProofs.op_ok w hi) os ->
  AssemblerProofs.exec Assembler.init os = Some (a', evs) ->
  forall i j ei ej, i <> j -> nth_error evs i = Some ei -> nth_error evs j = Some ej ->
    ev_bytes ei = [] \/ ev_bytes ej = [] \/
    ev_off ei + zlen (ev_bytes ei) <= ev_off ej \/ ev_off ej + zlen (ev_bytes ej) <= ev_off ei.
Proof. exact AssemblerOnceProofs.unordered_disjoint. Qed.
Print Assumptions C01_assembler_unordered_disjoint.

(** (c) progress — full statement, NOT proved (see the header): in ordered mode, if some buffered
    chunk covers [bytes_read], a read with max_length > 0 returns a non-empty chunk. *)
Definition C01_full_assembler_progress : Prop := forall (w : Z -> Z) (hi : Z) os a evs m,
  Forall (AssemblerProofs.op_ok w hi) os ->
  AssemblerProofs.exec Assembler.init os = Some (a, evs) ->
  Assembler.ordered a = true -> 0 < m ->
  (exists b, In b (Assembler.data a) /\ b_off b <= Assembler.bytes_read a < bend b) ->
  exists a' off x bytes, Assembler.read a m true = Some (a', Some (off, x :: bytes)).

(** (d), content half: defragmentation (heap sort, trimming of overlaps, copying of contiguous
    runs into one buffer) keeps every buffered chunk a slice of [w] and does not touch
    [bytes_read] / the mode. *)
Theorem C01_assembler_defragment_preserves_content : forall (w : Z -> Z) (hi : Z) fixed a,
  Forall (good w hi) (Assembler.data a) ->
  Forall (good w hi) (Assembler.data (Assembler.defragment fixed a)) /\
  Assembler.bytes_read (Assembler.defragment fixed a) = Assembler.bytes_read a /\
  Assembler.ordered (Assembler.defragment fixed a) = Assembler.ordered a.
Proof. exact AssemblerProofs.defragment_preserves_content. Qed.
Print Assumptions C01_assembler_defragment_preserves_content.

(** The binary heap never loses or invents a buffer: push / pop / into_sorted_vec permute. *)
Theorem C01_heap_ops_permute : forall h x,
  Permutation.Permutation (Assembler.push h x) (x :: h) /\
  Permutation.Permutation (Assembler.into_sorted_vec h) h /\
  (forall top h', Assembler.pop h = Some (top, h') -> Permutation.Permutation h (top :: h')).
Proof. exact HeapProofs.heap_ops_permute. Qed.
Print Assumptions C01_heap_ops_permute.

(* ------------------------------------------------------------------ SendBuffer *)
(** [sendbuffer_frames_sound]: for EVERY op sequence (writes in any chunking, poll_transmit with
    any max_len, acks and losses of any ranges in any order, re-chunked retransmits,
    retransmit_all_for_0rtt) on which the model does not panic, every frame produced by
    poll_transmit + the copy loop of write_stream_frames carries exactly the bytes the application
    wrote at those offsets. *)
Theorem C01_sendbuffer_frames_sound : forall os s' W' fs,
  SendBufferProofs.exec SendBuffer.init [] os = Some (s', W', fs) ->
  Forall (frame_ok W') fs.
Proof. exact SendBufferProofs.frames_sound. Qed.
Print Assumptions C01_sendbuffer_frames_sound.

(** [sendbuffer_get_progress] (local form): inside the buffered window
    [offset - unacked_len, offset) a [get] for a non-empty range returns a non-empty slice, so the
    copy loop advances.  The ownership invariant (every byte of [0, offset) in exactly one of
    unsent / in flight / to retransmit / acked, under the environment assumption that only
    in-flight ranges are acked or declared lost), which places every polled range inside that
    window, is NOT proved (it needs the set semantics of the BTree RangeSet); it is checked on
    every run by the oracle of Model/SendBuffer.v. *)
Theorem C01_sendbuffer_get_progress : forall W s gs ge,
  SendBufferProofs.inv W s ->
  SendBufferProofs.base s <= gs -> gs < ge -> gs < SendBuffer.offset s ->
  exists b d, SendBuffer.get s gs ge = Some (b :: d).
Proof. exact SendBufferProofs.get_progress. Qed.
Print Assumptions C01_sendbuffer_get_progress.

(* ------------------------------------------------------------------ range sets *)
(** ArrayRangeSet.insert: representation invariant (ascending, non-empty, disjoint, NON-ADJACENT)
    preserved, the result denotes the union, and the returned flag is true iff something new was
    added.  (ArrayRangeSet.remove is tied by correspondence and by the reference specification
    Lib/RangeSpec.v used as oracle; its invariant is not proved.) *)
Theorem C01_array_range_set_insert : forall l xs xe,
  RangeSetProofs.wf l -> 0 <= xs ->
  let '(b, l') := ArrayRangeSet.insert xs xe l in
  RangeSetProofs.wf l' /\
  (forall x, RangeSetProofs.mem x l' <-> RangeSetProofs.mem x l \/ xs <= x < xe) /\
  (b = true <-> exists x, xs <= x < xe /\ ~ RangeSetProofs.mem x l).
Proof. exact RangeSetProofs.array_insert_correct. Qed.
Print Assumptions C01_array_range_set_insert.

(** BTree RangeSet (the [recvd] set of the Assembler, [acks]/[retransmits] of the SendBuffer):
    on a well-formed map (ascending, non-empty, NON-ADJACENT ranges) [replace] — with the Replace
    iterator drained by a for loop and then dropped, as Assembler::insert does — returns a
    well-formed map denoting the union, and the items seen by the loop are ascending sub-ranges of
    the new range that cover exactly its part already present; [insert] returns a well-formed map
    denoting the union. *)
Theorem C01_range_set_replace : forall m lo xs xe,
  RangeSetProofs.wfb lo m -> lo < xs -> xs < xe ->
  let '(dups, m') := RangeSet.replace xs xe m in
  RangeSetProofs.wfb lo m' /\
  (forall x, RangeSetProofs.mem x m' <-> RangeSetProofs.mem x m \/ xs <= x < xe) /\
  its_sorted xs xe dups /\
  (forall x, xs <= x < xe -> (RangeSetProofs.mem x m <-> in_its x dups)).
Proof. exact BTreeRangeSetProofs.replace_spec. Qed.
Print Assumptions C01_range_set_replace.

Theorem C01_range_set_insert : forall m lo xs xe,
  RangeSetProofs.wfb lo m -> lo < xs -> xs < xe ->
  RangeSetProofs.wfb lo (snd (RangeSet.insert xs xe m)) /\
  (forall x, RangeSetProofs.mem x (snd (RangeSet.insert xs xe m)) <-> RangeSetProofs.mem x m \/ xs <= x < xe).
Proof. exact BTreeRangeSetProofs.insert_spec. Qed.
Print Assumptions C01_range_set_insert.

(* ------------------------------------------------------------------ refutation witnesses *)
(** The code BEFORE the two repairs violates exactly-once delivery; the model of the unrepaired
    code ([run_unfixed]) exhibits it and the property oracle rejects those outputs.  Both were
    replayed on the real code (see the repository commits `fix: Assembler::...`). *)
Definition witness_empty_frame : ops :=
  [[7; 0]; [2; 0]; [0; 7; 10]; [0; 8; 10; 59]; [0; 5; 10; 38; 45; 52; 59];
   [1; 100; 0]; [1; 100; 0]; [3]].
Example C01_unfixed_empty_frame_refuted :
  Assembler.run_unfixed witness_empty_frame =
    [[0]; [0]; [0]; [0]; [0]; [1; 5; 38; 45; 52; 59]; [1; 8; 59]; [5]] /\
  Assembler.oracle witness_empty_frame (Assembler.run_unfixed witness_empty_frame) = false /\
  Assembler.oracle witness_empty_frame (Assembler.run witness_empty_frame) = true.
Proof. vm_compute. repeat split. Qed.

Definition witness_stale_chunk : ops :=
  [[7; 0]; [0; 0; 3; 3; 10; 17]; [0; 0; 3; 3; 10; 17]; [1; 3; 1]; [1; 100; 0]; [3]].
Example C01_unfixed_stale_chunk_refuted :
  Assembler.run_unfixed witness_stale_chunk =
    [[0]; [0]; [0]; [1; 0; 3; 10; 17]; [1; 0; 3; 10; 17]; [6]] /\
  Assembler.oracle witness_stale_chunk (Assembler.run_unfixed witness_stale_chunk) = false /\
  Assembler.oracle witness_stale_chunk (Assembler.run witness_stale_chunk) = true.
Proof. vm_compute. repeat split. Qed.

(** Counterexample to the STRICT ownership invariant of the SendBuffer ("each byte of [0, offset)
    is in exactly one of unsent / in flight / to retransmit / acked"), found by the seed sweep and
    identical on the real code: after [retransmit(0..3)] the restart [retransmit_all_for_0rtt]
    only resets [unsent]; bytes 0..3 are then both "to retransmit" and "unsent" and poll_transmit
    hands them out twice.  The duplicate is harmless for C01 (frames stay sound, the receiver
    de-duplicates) and the situation does not arise in Connection (0-RTT data is never declared
    lost before the Retry / rejection that triggers the restart), so the oracle treats the restart
    with a pending lost range as outside the valid environment; it is recorded here, not as a
    violation. *)
Example C01_sendbuffer_ownership_counterexample :
  SendBuffer.run [[0; 1; 2; 3]; [1; 37]; [4; 0; 3]; [5]; [1; 30]; [1; 30]] =
    [[0]; [0; 0; 3; 1; 1; 2; 3]; [0]; [0]; [0; 0; 3; 1; 1; 2; 3]; [0; 0; 3; 1; 1; 2; 3]].
Proof. vm_compute. reflexivity. Qed.

(* ------------------------------------------------------------------ non-vacuity *)
Definition pat (x : Z) : Z := Assembler.w 0 x.
Example C01_assembler_example :
  let os := [OInsert 3 40000 [pat 3; pat 4; pat 5]; OInsert 0 5 [pat 0; pat 1; pat 2; pat 3];
             OInsert 0 5 [pat 0; pat 1; pat 2; pat 3]; ORead 2 true; OInsert 1 40000 [pat 1; pat 2];
             ORead 100 true; ORead 100 true; ORead 100 false] in
  exists a' evs, AssemblerProofs.exec Assembler.init os = Some (a', evs) /\
                 obytes evs = [pat 0; pat 1; pat 2; pat 3; pat 4; pat 5] /\ length evs = 3%nat.
Proof. eexists; eexists. split; [vm_compute; reflexivity|]. vm_compute. split; reflexivity. Qed.

Example C01_sendbuffer_example :
  let os := [OWrite [1; 2; 3]; OWrite [4; 5; 6; 7; 8; 9; 10; 11; 12; 13; 14; 15; 16; 17; 18; 19; 20];
             OPoll 16; ORetransmit 0 16; OWrite [21]; OPoll 18; OAck 0 10; OPoll 16; OPoll 100] in
  exists s' W' fs, SendBufferProofs.exec SendBuffer.init [] os = Some (s', W', fs) /\
    fs = [(true, 0, 16, [1;2;3;4;5;6;7;8;9;10;11;12;13;14;15;16]);
          (true, 0, 10, [1;2;3;4;5;6;7;8;9;10]);
          (true, 10, 16, [11;12;13;14;15;16]);
          (true, 16, 21, [17;18;19;20;21])].
Proof. do 3 eexists. split; vm_compute; reflexivity. Qed.

(** a schedule of the composed system with loss, duplication, reordering and re-chunking:
    write 12 bytes; transmit [0,12); the frame is declared lost and re-sent as [0,8) + [8,12); the
    second half arrives first and twice, the "lost" frame arrives late too. *)
Example C01_stream_example :
  let sched := [SSend (OWrite [10; 20; 30]); SSend (OWrite [40; 50; 60; 70; 80; 90; 100; 110; 120]);
                SSend (OPoll 100); SSend (ORetransmit 0 12); SSend (OPoll 16); SSend (OPoll 100);
                SDeliver 2 1200; SDeliver 2 1200; SRecv (ORead 100 true); SDeliver 1 1200;
                SRecv (ORead 1 true); SDeliver 0 1200; SRecv (ORead 100 true); SRecv (ORead 100 true)] in
  Forall sched_ok sched /\
  exists st', sys_exec sys_init sched = Some st' /\
              frames st' = [(true, 0, 12, [10; 20; 30; 40; 50; 60; 70; 80; 90; 100; 110; 120]);
                            (true, 0, 8, [10; 20; 30; 40; 50; 60; 70; 80]);
                            (true, 8, 12, [90; 100; 110; 120])] /\
              AssemblerProofs.obytes (events st') = [10; 20; 30; 40; 50; 60; 70; 80; 90; 100; 110; 120] /\
              length (events st') = 2%nat.
Proof.
  split; [repeat constructor; cbn; lia|].
  eexists. split; [vm_compute; reflexivity|]. vm_compute. repeat split.
Qed.
