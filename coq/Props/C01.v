(** C01 — Stream data is delivered reliably, in order and exactly once.
    Property theorems only: each is closed by [exact] of a lemma proved under Proofs/, followed by
    [Print Assumptions]. Models: Model/Assembler.v, Model/SendBuffer.v, Model/RangeSet.v,
    Model/ArrayRangeSet.v (tied to the code by the correspondence check on every run). *)
From QV Require Import Lib.Tac Lib.Bytes Lib.Corr Lib.RangeSpec Model.RangeSet Model.ArrayRangeSet
  Model.Assembler Model.SendBuffer Proofs.HeapProofs Proofs.AssemblerProofs Proofs.SendBufferProofs.
Open Scope Z_scope.

(* ------------------------------------------------------------------ Assembler *)
(** (a) For EVERY sequence of operations on one Assembler (inserts of slices of the written
    sequence [w] in any order, with any overlaps, duplicates and allocation sizes — hence any
    loss/duplication/reordering/re-chunking by the network and the sender —, reads with any
    max_length, mode switches, clear, probes), on which the model does not panic:
    the concatenation of the chunks returned by ordered reads is the prefix of [w] of exactly that
    length, the chunks are consecutive from offset 0, and while the stream is in ordered mode
    [bytes_read] is that length. *)
Theorem C01_assembler_ordered_prefix : forall (w : Z -> Z) os a' evs,
  Forall (AssemblerProofs.op_ok w) os ->
  AssemblerProofs.exec Assembler.init os = Some (a', evs) ->
  obytes evs = wslice w 0 (length (obytes evs)) /\
  chain 0 (filter ev_ord evs) /\
  (Assembler.ordered a' = true -> Assembler.bytes_read a' = zlen (obytes evs)).
Proof. exact AssemblerProofs.ordered_prefix. Qed.
Print Assumptions C01_assembler_ordered_prefix.

(** (b), content half: every chunk returned by ANY read, ordered or unordered, before or after
    the mode switch, equals the written sequence at its offset — no byte is ever altered. *)
Theorem C01_assembler_reads_exact : forall (w : Z -> Z) os a' evs,
  Forall (AssemblerProofs.op_ok w) os ->
  AssemblerProofs.exec Assembler.init os = Some (a', evs) ->
  Forall (fun e => ev_bytes e = wslice w (ev_off e) (length (ev_bytes e))) evs.
Proof. exact AssemblerProofs.reads_exact. Qed.
Print Assumptions C01_assembler_reads_exact.

(** (d), content half: defragmentation (heap sort, trimming of overlaps, copying of contiguous
    runs into one buffer) keeps every buffered chunk a slice of [w] and does not touch
    [bytes_read] / the mode. *)
Theorem C01_assembler_defragment_preserves_content : forall (w : Z -> Z) fixed a,
  Forall (good w) (Assembler.data a) ->
  Forall (good w) (Assembler.data (Assembler.defragment fixed a)) /\
  Assembler.bytes_read (Assembler.defragment fixed a) = Assembler.bytes_read a /\
  Assembler.ordered (Assembler.defragment fixed a) = Assembler.ordered a.
Proof.
  intros w fixed a H. pose proof (defragment_fields fixed a) as (E1 & _ & E3 & _).
  split; [now apply defragment_good | auto].
Qed.
Print Assumptions C01_assembler_defragment_preserves_content.

(** The binary heap never loses or invents a buffer: push/pop/into_sorted_vec permute. *)
Theorem C01_heap_ops_permute : forall h x,
  Permutation.Permutation (Assembler.push h x) (x :: h) /\
  Permutation.Permutation (Assembler.into_sorted_vec h) h /\
  (forall top h', Assembler.pop h = Some (top, h') -> Permutation.Permutation h (top :: h')).
Proof.
  intros h x. split; [apply push_perm|]. split; [apply into_sorted_vec_perm|].
  intros top h' H. now apply pop_perm in H.
Qed.
Print Assumptions C01_heap_ops_permute.

(* ------------------------------------------------------------------ SendBuffer *)
(** [sendbuffer_frames_sound]: for EVERY op sequence (writes in any chunking, poll_transmit with
    any max_len, acks and losses of any ranges in any order, re-chunked retransmits,
    retransmit_all_for_0rtt) on which the model does not panic, every frame produced by
    poll_transmit + the copy loop of write_stream_frames carries exactly the bytes the application
    wrote at those offsets. *)
Theorem C01_sendbuffer_frames_sound : forall os s' W' fs,
  SendBufferProofs.exec SendBuffer.init [] os = Some (s', W', fs) ->
  Forall (frame_ok W') fs.
Proof. exact SendBufferProofs.frames_sound. Qed.
Print Assumptions C01_sendbuffer_frames_sound.

(** [sendbuffer_get_progress] (local form): inside the buffered window
    [offset - unacked_len, offset) a [get] for a non-empty range returns a non-empty slice, so the
    copy loop advances. *)
Theorem C01_sendbuffer_get_progress : forall W s gs ge,
  SendBufferProofs.inv W s ->
  SendBufferProofs.base s <= gs -> gs < ge -> gs < SendBuffer.offset s ->
  exists b d, SendBuffer.get s gs ge = Some (b :: d).
Proof. exact SendBufferProofs.get_progress. Qed.
Print Assumptions C01_sendbuffer_get_progress.

(* ------------------------------------------------------------------ refutation witnesses *)
(** The code BEFORE the two repairs violates exactly-once delivery; the model of the unrepaired
    code ([run_unfixed]) exhibits it and the property oracle rejects those outputs.  Both were
    replayed on the real code (see the repository commits `fix: Assembler::...`). *)
Definition witness_empty_frame : ops :=
  [[7; 0]; [2; 0]; [0; 7; 10]; [0; 8; 10; 59]; [0; 5; 10; 38; 45; 52; 59];
   [1; 100; 0]; [1; 100; 0]; [3]].
Example C01_unfixed_empty_frame_refuted :
  Assembler.run_unfixed witness_empty_frame =
    [[0]; [0]; [0]; [0]; [0]; [1; 5; 38; 45; 52; 59]; [1; 8; 59]; [5]] /\
  Assembler.oracle witness_empty_frame (Assembler.run_unfixed witness_empty_frame) = false /\
  Assembler.oracle witness_empty_frame (Assembler.run witness_empty_frame) = true.
Proof. vm_compute. repeat split. Qed.

Definition witness_stale_chunk : ops :=
  [[7; 0]; [0; 0; 3; 3; 10; 17]; [0; 0; 3; 3; 10; 17]; [1; 3; 1]; [1; 100; 0]; [3]].
Example C01_unfixed_stale_chunk_refuted :
  Assembler.run_unfixed witness_stale_chunk =
    [[0]; [0]; [0]; [1; 0; 3; 10; 17]; [1; 0; 3; 10; 17]; [6]] /\
  Assembler.oracle witness_stale_chunk (Assembler.run_unfixed witness_stale_chunk) = false /\
  Assembler.oracle witness_stale_chunk (Assembler.run witness_stale_chunk) = true.
Proof. vm_compute. repeat split. Qed.

(* ------------------------------------------------------------------ non-vacuity *)
Definition pat (x : Z) : Z := Assembler.w 0 x.
Example C01_assembler_example :
  let os := [OInsert 3 40000 [pat 3; pat 4; pat 5]; OInsert 0 5 [pat 0; pat 1; pat 2; pat 3];
             OInsert 0 5 [pat 0; pat 1; pat 2; pat 3]; ORead 2 true; OInsert 1 40000 [pat 1; pat 2];
             ORead 100 true; ORead 100 true; ORead 100 false] in
  Forall (AssemblerProofs.op_ok pat) os /\
  exists a' evs, AssemblerProofs.exec Assembler.init os = Some (a', evs) /\
                 obytes evs = [pat 0; pat 1; pat 2; pat 3; pat 4; pat 5] /\ length evs = 3%nat.
Proof.
  split.
  - repeat constructor; cbn; lia.
  - eexists; eexists. split; [vm_compute; reflexivity|]. vm_compute. split; reflexivity.
Qed.

Example C01_sendbuffer_example :
  let os := [OWrite [1; 2; 3]; OWrite [4; 5; 6; 7; 8; 9; 10; 11; 12; 13; 14; 15; 16; 17; 18; 19; 20];
             OPoll 16; ORetransmit 0 16; OWrite [21]; OPoll 18; OAck 0 10; OPoll 16; OPoll 100] in
  exists s' W' fs, SendBufferProofs.exec SendBuffer.init [] os = Some (s', W', fs) /\
    fs = [(true, 0, 16, [1;2;3;4;5;6;7;8;9;10;11;12;13;14;15;16]);
          (true, 0, 10, [1;2;3;4;5;6;7;8;9;10]);
          (true, 10, 16, [11;12;13;14;15;16]);
          (true, 16, 21, [17;18;19;20;21])].
Proof. do 3 eexists. split; vm_compute; reflexivity. Qed.
