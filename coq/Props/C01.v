(** C01 — Stream data is delivered reliably, in order and exactly once. (stub, theorems follow) *)
From QV Require Import Lib.Tac Lib.Bytes Lib.Corr Model.RangeSet Model.ArrayRangeSet Model.Assembler
  Model.SendBuffer.
Open Scope Z_scope.
