(** C13 — component level (MtuDiscovery). *)
From QV Require Import Lib.Tac Lib.Corr Model.Mtud.
Open Scope Z_scope.

Example C13_mtud_example :
  Mtud.run [[0; 1200; 1200; -1; 1; 1452; 600000000; 60000000; 20]; [3; 0; 1]; [4; 2; 1; 1326]; [3; 0; 2]]
  = [[0; 1200; -1]; [1326; 1200; 1]; [1; 1326; -1]; [1389; 1326; 2]].
Proof. vm_compute. reflexivity. Qed.
