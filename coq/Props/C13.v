(** C13 — Datagrams never exceed the validated path MTU or peer limits.  COMPONENT LEVEL
    ([MtuDiscovery] with [EnabledMtuDiscovery], [SearchState], [BlackHoleDetector]); the
    datagram-size statements over [poll_transmit] are added by the simulator level.
    Property theorems only; proofs in Proofs/MtudProofs.v.  Model: Model/Mtud.v (debug build, the
    code AFTER the F8 repair), tied to quinn-proto/src/connection/mtud.rs on every run by the
    `mtud` correspondence; MAX_PROBE_RETRANSMITS and BLACK_HOLE_THRESHOLD are the generated values.

    [reach MPR BHT m plow]: [m] is reachable from scratch by ANY sequence of operations that
    respects the caller contract of [Connection] ([op_ok]: [on_probe_lost] only while a probe is in
    flight; [new]/[reset] with [current >= min_mtu]; [minimum_change >= 3]; without a peer limit
    [initial <= MAX_UDP_PAYLOAD]) and does not panic; [plow] is the lowest peer limit received. *)
From QV Require Import Lib.Tac Lib.Corr gen.Constants Model.Mtud Proofs.MtudProofs Proofs.MtudEvidence.
Open Scope Z_scope.

Lemma MPR_side : 1 <= MAX_PROBE_RETRANSMITS.
Proof. vm_compute. discriminate. Qed.

Notation REACH := (reach MAX_PROBE_RETRANSMITS BLACK_HOLE_THRESHOLD).
Notation STEP := (Mtud.step MAX_PROBE_RETRANSMITS BLACK_HOLE_THRESHOLD true).

(** probe_bounds: a probe size returned by [poll_transmit] is strictly above the current MTU and at
    most min(config.upper_bound, peer max_udp_payload_size); it is only issued when no probe is in
    flight, and then it is the one in flight. *)
Theorem C13_probe_bounds : forall m plow e now pn e' p,
  REACH m plow -> st m = Some e ->
  Mtud.enabled_poll MAX_PROBE_RETRANSMITS e now (cur m) pn = Some (e', Some p) ->
  in_flight_probe m = None /\
  cur m < p <= Z.min (c_upper (config e)) (peer_max e) /\
  in_flight_probe (mkMtud (cur m) (Some e') (bhd m)) = Some pn /\
  outstanding (mkMtud (cur m) (Some e') (bhd m)) = Some p.
Proof. exact (probe_bounds MAX_PROBE_RETRANSMITS BLACK_HOLE_THRESHOLD MPR_side). Qed.
Print Assumptions C13_probe_bounds.

(** No hypothesis relates [initial_mtu] and [config.upper_bound] (independent public setters,
    [initial_mtu > upper_bound] is legal): [SearchState::new] clamps the search's upper bound up to
    the current MTU, and then no probe is issued at all — for every contract configuration.  The
    contract hypothesis that matters is [minimum_change >= 3] (in [op_ok] of [ONew]): smaller
    values are accepted by [MtuDiscoveryConfig::minimum_change] and refute probe_bounds and
    mtu_floor (witnesses below; known finding mtud-minimum-change-below-3). *)
Theorem C13_no_probe_when_upper_bound_not_above_current : forall m plow e now pn e' r,
  REACH m plow -> st m = Some e -> Z.min (c_upper (config e)) (peer_max e) <= cur m ->
  Mtud.enabled_poll MAX_PROBE_RETRANSMITS e now (cur m) pn = Some (e', r) -> r = None.
Proof. exact (no_probe_when_upper_bound_not_above_current MAX_PROBE_RETRANSMITS BLACK_HOLE_THRESHOLD MPR_side). Qed.
Print Assumptions C13_no_probe_when_upper_bound_not_above_current.

(** With minimum_change = 0 that clamp makes the probe EXCEED the configured upper bound:
    initial_mtu 9000, upper_bound 1452 -> a probe of 9000 (= current MTU). *)
Example C13_minimum_change_0_probe_above_upper_bound_refuted :
  polls_of 3 3 [ONew 9000 1400 (Some 9000) true (mkConfig 1452 600000000 500 0); OPoll 1000 0] = [0; 9000].
Proof. vm_compute. reflexivity. Qed.

(** (how [enabled_poll] is the [poll_transmit] operation of the model) *)
Theorem C13_poll_is_enabled_poll : forall m now pn,
  STEP m (OPoll now pn) =
  match st m with
  | None => Some (m, -1)
  | Some e => match Mtud.enabled_poll MAX_PROBE_RETRANSMITS e now (cur m) pn with
              | None => None
              | Some (e', r) => Some (mkMtud (cur m) (Some e') (bhd m), optz r)
              end
  end.
Proof. exact (step_poll_unfold MAX_PROBE_RETRANSMITS BLACK_HOLE_THRESHOLD). Qed.
Print Assumptions C13_poll_is_enabled_poll.

(** mtu_rises_only_on_probe_ack: in ANY state (no invariant needed) an operation that increases the
    estimate is [on_acked] in the Data space of the in-flight probe's packet number, returning
    true, and the new estimate is exactly the outstanding probe's size — or an explicit
    re-initialisation ([new]/[reset]).  In particular black-hole fallback never raises it. *)
Theorem C13_mtu_rises_only_on_probe_ack : forall m op m' r,
  STEP m op = Some (m', r) -> cur m < cur m' ->
  (exists i mn p en c, op = ONew i mn p en c) \/ (exists c mn, op = OReset c mn) \/
  (exists sp pn len, op = OAcked sp pn len /\ is_data sp = true /\
     in_flight_probe m = Some pn /\ r = 1 /\ outstanding m = Some (cur m')).
Proof. exact (mtu_rises_only_on_probe_ack MAX_PROBE_RETRANSMITS BLACK_HOLE_THRESHOLD). Qed.
Print Assumptions C13_mtu_rises_only_on_probe_ack.

(** mtu_floor: never below min(min_mtu, lowest peer limit received). *)
Theorem C13_mtu_floor : forall m plow,
  REACH m plow -> Z.min (bmin_mtu (bhd m)) plow <= cur m.
Proof. exact (mtu_floor MAX_PROBE_RETRANSMITS BLACK_HOLE_THRESHOLD MPR_side). Qed.
Print Assumptions C13_mtu_floor.

(** With MTU discovery enabled the estimate never exceeds the peer's max_udp_payload_size
    (for a disabled MtuDiscovery this is REFUTED: finding F8b below). *)
Theorem C13_mtu_within_peer_limit : forall m plow e,
  REACH m plow -> st m = Some e -> cur m <= peer_max e.
Proof. exact (mtu_within_peer_limit MAX_PROBE_RETRANSMITS BLACK_HOLE_THRESHOLD MPR_side). Qed.
Print Assumptions C13_mtu_within_peer_limit.

(** F8 (DESIGN §7), decided by the faithful model: REFUTED on the code before the repair —
    [black_hole_detected] raised the estimate from 1200 to min_mtu = 1300 although the peer's
    max_udp_payload_size was 1200; with the repair (commit `fix: black hole fallback never
    raises ...`) the same sequence stays at 1200 and the theorems above hold at full strength. *)
Theorem C13_F8_refuted_before_fix :
  cur_after 3 3 false f8_witness = Some 1200 /\
  cur_after 3 3 false (f8_witness ++ [OBlackHole 0]) = Some 1300 /\
  cur_after 3 3 true (f8_witness ++ [OBlackHole 0]) = Some 1200.
Proof. exact F8_refuted. Qed.
Print Assumptions C13_F8_refuted_before_fix.

(** F8b (known finding `mtud-disabled-forgets-peer-limit`): a disabled MtuDiscovery does not
    remember the peer's limit; [reset] puts the estimate back above it. *)
Theorem C13_F8b_disabled_forgets_peer_limit_refuted :
  cur_after 3 3 true [ONew 1400 1200 None false (mkConfig 0 0 0 0); OPeerMax 1200] = Some 1200 /\
  cur_after 3 3 true [ONew 1400 1200 None false (mkConfig 0 0 0 0); OPeerMax 1200; OReset 1400 1200] = Some 1400.
Proof. exact F8b_disabled_reset_refuted. Qed.
Print Assumptions C13_F8b_disabled_forgets_peer_limit_refuted.

(** Why [minimum_change >= 3] is in the contract ([MtuDiscoveryConfig::minimum_change] is not
    validated): with 1 a probe BELOW the current MTU is issued and lowers the estimate when
    acknowledged; with 0 the search never completes. *)
Theorem C13_minimum_change_1_refuted :
  polls_of 3 3 [ONew 1200 1200 None true (mkConfig 1202 0 0 1);
                OPoll 0 1; OProbeLost; OPoll 0 2; OProbeLost; OPoll 0 3; OProbeLost;
                OPoll 0 4; OProbeLost; OPoll 0 5; OProbeLost; OPoll 0 6; OProbeLost;
                OPoll 0 7; OAcked 2 7 1199]
  = [0; 1201; 0; 1201; 0; 1201; 0; 1200; 0; 1200; 0; 1200; 0; 1199; 1] /\
  cur_after 3 3 true [ONew 1200 1200 None true (mkConfig 1202 0 0 1);
                OPoll 0 1; OProbeLost; OPoll 0 2; OProbeLost; OPoll 0 3; OProbeLost;
                OPoll 0 4; OProbeLost; OPoll 0 5; OProbeLost; OPoll 0 6; OProbeLost;
                OPoll 0 7; OAcked 2 7 1199] = Some 1199.
Proof. exact min_change_1_refuted. Qed.
Print Assumptions C13_minimum_change_1_refuted.

Theorem C13_minimum_change_0_never_completes_refuted :
  polls_of 3 3 [ONew 1200 1200 None true (mkConfig 1200 0 0 0);
                OPoll 0 1; OAcked 2 1 1200; OPoll 0 2; OAcked 2 2 1200; OPoll 0 3; OAcked 2 3 1200;
                OPoll 0 4; OAcked 2 4 1200; OPoll 0 5; OAcked 2 5 1200; OPoll 0 6; OAcked 2 6 1200;
                OPoll 0 7; OAcked 2 7 1200; OPoll 0 8]
  = [0; 1200; 1; 1200; 1; 1200; 1; 1200; 1; 1200; 1; 1200; 1; 1200; 1; 1200].
Proof. exact min_change_0_refuted. Qed.
Print Assumptions C13_minimum_change_0_never_completes_refuted.

(** The witnesses above use the literal constants 3, 3: they must be the generated ones. *)
Example C13_constants_pinned : MAX_PROBE_RETRANSMITS = 3 /\ BLACK_HOLE_THRESHOLD = 3.
Proof. vm_compute. split; reflexivity. Qed.

(** Non-vacuity: a reachable state in the middle of a search after a retransmit exhaustion, and
    the default search of the crate's own unit test (1200 -> 1326 -> 1389 ...). *)
Example C13_mtud_example :
  Mtud.run [[0; 1200; 1200; -1; 1; 1452; 600000000; 60000000; 20]; [3; 0; 1]; [4; 2; 1; 1326]; [3; 0; 2];
            [5]; [3; 0; 3]; [5]; [3; 0; 4]; [5]; [3; 0; 5]]
  = [[0; 1200; -1]; [1326; 1200; 1]; [1; 1326; -1]; [1389; 1326; 2];
     [0; 1326; -1]; [1389; 1326; 3]; [0; 1326; -1]; [1389; 1326; 4]; [0; 1326; -1]; [1357; 1326; 5]].
Proof. vm_compute. reflexivity. Qed.

Example C13_reach_example :
  exists m, REACH m MAX_UDP_PAYLOAD /\ cur m = 1300 /\ in_flight_probe m = Some 1 /\ outstanding m = Some 1376.
Proof.
  eexists. split.
  - eapply (reach_step _ _ _ _ (OPoll 0 1)).
    + eapply (reach_step _ _ dummy 0 (ONew 1300 1200 None true (mkConfig 1452 1000 1000 20))).
      * apply reach_init.
      * cbn. repeat split; try lia. discriminate.
      * vm_compute. reflexivity.
    + exact I.
    + vm_compute. reflexivity.
  - vm_compute. repeat split; reflexivity.
Qed.

(** NOT PROVED at this level — full statements kept as definitions (see the final report).
    Both are checked on every generated case by the correspondence (model equality) and, for the
    black hole, by the oracle's specification-level burst counter (Model/Mtud.v [t_nbursts]). *)

(** Contract-respecting continuation, and the number of probes issued while the search that is
    active in [m] lasts. *)
Fixpoint contract_run (m : Mtud) (ops : list Op) : Prop :=
  match ops with
  | [] => True
  | op :: r => op_ok m op /\ match STEP m op with Some (m', _) => contract_run m' r | None => True end
  end.

Definition searching (m : Mtud) : bool :=
  match st m with Some e => match phase e with Searching _ => true | _ => false end | None => false end.

Fixpoint probe_sends (m : Mtud) (ops : list Op) : Z :=
  match ops with
  | [] => 0
  | op :: r =>
      match STEP m op with
      | None => 0
      | Some (m', x) =>
          if searching m' then
            (match op with OPoll _ _ => if 0 <=? x then 1 else 0 | _ => 0 end) + probe_sends m' r
          else 0
      end
  end.

(** search_terminates: from any reachable searching state, whatever happens next, at most
    MAX_PROBE_RETRANSMITS * (ceil(log2(upper - lower)) + 1) further probes are sent before the
    search is [Complete] (and a poll with no probe in flight either sends or completes). *)
Definition C13_full_search_terminates : Prop :=
  forall m plow e s ops,
    REACH m plow -> st m = Some e -> phase e = Searching s -> contract_run m ops ->
    probe_sends m ops <= MAX_PROBE_RETRANSMITS * (Z.log2_up (upper s - lower s) + 1).

(** black_hole_needs_evidence, proved part: [black_hole_detected] returns true only with more than
    BLACK_HOLE_THRESHOLD recorded suspicious bursts, every one of which consisted solely of packets
    larger than min_mtu (inductive invariant over all reachable states).  NOT proved: the clause
    "larger than any more recently acknowledged packet" (the [retain]/[acked_mtu] bookkeeping);
    its statement needs a ghost history of acknowledgements and is left to the correspondence. *)
Theorem C13_black_hole_needs_evidence_partial : forall m plow now m',
  REACH m plow -> STEP m (OBlackHole now) = Some (m', 1) ->
  let b := finish_loss_burst BLACK_HOLE_THRESHOLD (bhd m) in
  BLACK_HOLE_THRESHOLD < Z.of_nat (length (bursts b)) /\
  Forall (fun x => bmin_mtu b < x) (bursts b).
Proof. exact (black_hole_needs_evidence MAX_PROBE_RETRANSMITS BLACK_HOLE_THRESHOLD). Qed.
Print Assumptions C13_black_hole_needs_evidence_partial.
