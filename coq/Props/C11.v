(** C11 — Stream operations follow the QUIC stream state machine.
    Property theorems only (proofs under Proofs/StreamSMProofs.v). Implementation model:
    Model/StreamSM.v over Model/FlowRecv.v; specification: Model/StreamSpec.v.  On every run the
    model is compared verbatim with the code and the specification, run on the op sequence, must
    predict every API result, event, counter and half presence the implementation reports
    ([StreamSM.oracle] = [StreamSpec.spec_oracle]). *)
From QV Require Import Lib.Tac Lib.Corr Model.FlowRecv Model.StreamSpec Model.StreamSM
  Proofs.FlowRecvProofs Proofs.StreamSMProofs Proofs.FinishedOnce.
Open Scope Z_scope.

(** * api_refines_spec (partial: receive half, results of stop and received_reset)
    With [abs_recv] mapping None / Free slots to an idle open half, an open [Recv] to its phase
    (stopped > reset > receiving with optional size) and map absence to absence, the
    implementation returns exactly the specification's result, for every state. *)
Theorem C11_api_refines_spec_recv_partial : forall s x id,
  abs_recv s id = alookup id (x_rh x) ->
  (forall code, snd (stop_op true id code s) = snd (spec_stop id x)) /\
  snd (rreset_op id s) = snd (spec_received_reset id x).
Proof.
  intros s x id H. split; [intro code; apply stop_refines; exact H|].
  apply received_reset_refines; exact H.
Qed.
Print Assumptions C11_api_refines_spec_recv_partial.

(** Full statement (not proved): every operation of the component returns the spec's result and
    commutes with the abstraction.  [abs] would map the whole state; the observable content of
    this statement is what the oracle checks on the implementation for every generated case. *)
Definition C11_api_refines_spec_full : Prop :=
  forall (abs : st -> spec) cfg i s op,
    reach_sm cfg i = Some s ->
    let '(s', out) := StreamSM.step s op in
    let '(x', want) := spec_step (abs s) op out in
    abs s' = x' /\ match want with Some r => prefix_eq r out = true | None => True end.

(** * finished_once_after_full_ack (partial: "only after", "never for a reset stream")
    An acknowledgement emits an event only if it is [Finished] for that stream, the stream was
    finished (DataSent, not ResetSent), FIN is acknowledged and no byte remains unacknowledged. *)
Theorem C11_finished_only_after_full_ack : forall id a b fin s,
  events (ack_frame id a b fin s) = events s \/
  exists sd, alookup id (sendm s) = Some (TSome sd) /\
    (s_state sd = 1 \/ s_state sd = 2) /\ (s_state sd = 2 \/ fin = true) /\
    fst (sbuf_ack sd a b) = 0 /\
    events (ack_frame id a b fin s) = events s ++ [[4; id]].
Proof. exact ack_finished. Qed.
Print Assumptions C11_finished_only_after_full_ack.

(** Full statement over all op sequences (not proved; checked by the oracle on every run). *)
(** * finished_once (all op sequences)
    [g_fin s] is the ghost list of stream ids for which the model emitted [Finished] (it is
    extended exactly where [ack_frame] pushes the event — the only place a Finished is pushed),
    [g_reset s] the ids on which the application's reset() succeeded.  For every configuration and
    every op sequence (application calls, frames, transmissions, acks and losses in any order):
    Finished is emitted at most once per stream, never for a stream that was reset (neither before
    nor after the reset), and the send half of a Finished stream is gone for good. *)
Theorem C11_finished_once : forall sd mru mrb rw srw pmb pmu i s,
  (sd = 0 \/ sd = 1) -> 0 <= mrb ->
  reach_sm [0; sd; mru; mrb; rw; srw; pmb; pmu] i = Some s ->
  NoDup (g_fin s) /\
  (forall id, In id (g_reset s) -> ~ In id (g_fin s)) /\
  (forall id, In id (g_fin s) -> alookup id (sendm s) = None).
Proof. exact finished_once. Qed.
Print Assumptions C11_finished_once.

(** * concurrency_accounting
    (1) For every configuration and op sequence the window of permitted remotely initiated
        streams is full: [allocated_remote_count[dir] = max_concurrent_remote_count[dir]] — every
        decrement is compensated at once by exactly one newly permitted stream.
    (2) One [stream_freed] call in such a state raises [max_remote] of the stream's direction by
        exactly one iff the stream is remotely initiated and its other half is already gone
        (unidirectional: its single half); in every other case [max_remote] is unchanged — so a
        stream stops counting exactly when both halves are terminal, not before.
    Together with [C11_finished_once] (a send half that is gone never comes back; the same key
    argument applies to [stream_freed]'s callers) this gives "never twice".  Not proved: that
    the decrement never underflows (needs the counting invariant [allocated_remote_count =
    number of remote streams with a live half]); kept as [C11_no_underflow_full]. *)
Theorem C11_concurrency_accounting : forall sd mru mrb rw srw pmb pmu i s,
  (sd = 0 \/ sd = 1) -> 0 <= mrb ->
  reach_sm [0; sd; mru; mrb; rw; srw; pmb; pmu] i = Some s ->
  forall d, pget d (alloc s) = pget d (max_conc s).
Proof. exact alloc_full. Qed.
Print Assumptions C11_concurrency_accounting.

Theorem C11_stream_credit_exact : forall id (half : bool) s,
  (side s = 0 \/ side s = 1) -> (forall d, pget d (alloc s) = pget d (max_conc s)) ->
  let fully := negb (sid_init id =? side s) &&
               ((sid_dir id =? 1) || (if half then negb (amem id (recvm s)) else negb (amem id (sendm s)))) in
  max_remote (stream_freed id half s) =
    if fully then pset (sid_dir id) (pget (sid_dir id) (max_remote s) + 1) (max_remote s)
    else max_remote s.
Proof. exact stream_freed_exact. Qed.
Print Assumptions C11_stream_credit_exact.

Definition C11_no_underflow_full : Prop :=
  forall sd mru mrb rw srw pmb pmu i s, (sd = 0 \/ sd = 1) -> 0 <= mrb -> 0 <= mru ->
    reach_sm [0; sd; mru; mrb; rw; srw; pmb; pmu] i = Some s ->
    (* every remotely initiated stream with a live half is counted *)
    forall d, (d = 0 \/ d = 1) ->
      Z.of_nat (length (filter (fun idx =>
         amem (mk_sid (1 - side s) d idx) (recvm s) || amem (mk_sid (1 - side s) d idx) (sendm s))
         (map Z.of_nat (seq 0 (Z.to_nat (pget d (max_remote s))))))) = pget d (alloc s).

(** * Refutation on the code before the repair (F2), witness replayed on the real code:
    unordered read; ordered read (IllegalOrderedRead); every later read reported ClosedStream
    while the spec still has the half open with unread data. *)
Definition f2_witness : ops :=
  [[0;0;4;4;1000;100;4;4]; [1;3;0;10;1]; [3;3;0;4]; [3;3;1;4]; [3;3;0;100]; [7;0;0;1]].
Theorem C11_api_refines_spec_refuted :
  exists i, spec_oracle i (FlowRecv.run_unfixed i) = false /\ spec_oracle i (StreamSM.run i) = true.
Proof. exists f2_witness. vm_compute. split; reflexivity. Qed.
Print Assumptions C11_api_refines_spec_refuted.

(** * Non-vacuity: a stream finished and fully acknowledged emits exactly one Finished; a reader
    sees end of stream once and a closed stream afterwards. *)
Example C11_example :
  let i := [[0;0;1;1;1000;100;1;1]; [8;1]; [10;2;5]; [11;2]; [15]; [16;0]; [18]; [16;0]; [18];
            [1;3;0;4;1]; [3;3;1;100]; [3;3;1;100]] in
  map (firstn 2) (StreamSM.run i) =
    [[0;0]; [0;2]; [0;5]; [0;0]; [0;1]; [0;2]; [4;2]; [3;0]; [0;0]; [0;0]; [0;4]; [1;0]] /\
  StreamSM.oracle i (StreamSM.run i) = true.
Proof. vm_compute. split; reflexivity. Qed.
