(** C18 — Async API: no lost wakeups, cancellation-safe, clean teardown.
    Property theorems only: each is closed by [exact] of a lemma proved under Proofs/, followed by
    [Print Assumptions]. Models: Model/AsyncConn.v (connection: steps = whole critical sections of
    the connection mutex) and Model/AsyncEndpoint.v (endpoint); tied to the code by the asyncsim
    trace monitor Sys/MonC18.v on every run. [run ls] = fold_left step' ls init: ALL schedules of
    application polls, future drops, driver polls with arbitrary event lists, closes, stream calls,
    handle clones and drops. [ok ls] excludes exactly the known class [stopped-after-reset]
    (a driver event [PResetAcked]), for which [C18_no_lost_wakeup_refuted] is the witness. *)
From QV Require Import Lib.Tac Model.AsyncConn Proofs.AsyncConnInv Proofs.AsyncConnFacts Proofs.AsyncConnMain Proofs.AsyncConnIoError.
From QV Require Import Model.AsyncEndpoint Proofs.AsyncEndpointProofs.

(** * The inductive invariant holds in every reachable state (all schedules, unbounded) *)
Theorem C18_invariant : forall ls, ok ls -> Inv (run ls).
Proof. exact Inv_run. Qed.
Print Assumptions C18_invariant.

(** * no lost wake-up: a pending operation whose condition holds has a runnable task *)
Theorem C18_no_lost_wakeup : forall ls, ok ls -> forall t o,
  pend (run ls) t = Some o -> cond (run ls) o = true -> runnable (run ls) t = true.
Proof. exact no_lost_wakeup. Qed.
Print Assumptions C18_no_lost_wakeup.

Theorem C18_driver_no_lost_wakeup : forall ls, ok ls ->
  driver_alive (run ls) = true -> drv_work (run ls) = true -> drv_runnable (run ls) = true.
Proof. exact driver_no_lost_wakeup. Qed.
Print Assumptions C18_driver_no_lost_wakeup.

(** * close wakes everyone: [State::terminate], [Connection::close], [Event::ConnectionLost] *)
Theorem C18_close_wakes_everyone : forall ls, ok ls -> forall code t o,
  pend (terminate (run ls) code) t = Some o -> runnable (terminate (run ls) code) t = true.
Proof. exact close_wakes_everyone. Qed.
Print Assumptions C18_close_wakes_everyone.

Theorem C18_close_wakes_everyone_AppClose : forall ls, ok ls -> (0 < nhandles (run ls))%Z -> forall t o,
  pend (step' (run ls) AppClose) t = Some o -> runnable (step' (run ls) AppClose) t = true.
Proof. exact close_wakes_everyone_AppClose. Qed.
Print Assumptions C18_close_wakes_everyone_AppClose.

Theorem C18_close_wakes_everyone_PLost : forall ls, ok ls -> driver_alive (run ls) = true -> forall code t o,
  pend (step' (run ls) (DrvPoll [PLost code])) t = Some o ->
  runnable (step' (run ls) (DrvPoll [PLost code])) t = true.
Proof. exact close_wakes_everyone_PLost. Qed.
Print Assumptions C18_close_wakes_everyone_PLost.

(** * cancellation: nothing received is lost or duplicated, whatever is dropped and when *)
Theorem C18_cancel_safe_ops_lose_nothing : forall ls, ok ls ->
  (forall k, discarded (run ls) k = false -> arrived (run ls) k = delivered (run ls) k ++ rx (run ls) k) /\
  d_arrived (run ls) = d_delivered (run ls) ++ dq (run ls).
Proof. exact cancel_safe_ops_lose_nothing. Qed.
Print Assumptions C18_cancel_safe_ops_lose_nothing.

Theorem C18_drop_leaves_no_notify_registration : forall ls t, ok ls ->
  forall n, nwait (step' (run ls) (AppDrop t)) n t = false.
Proof. exact drop_leaves_no_notify_registration. Qed.
Print Assumptions C18_drop_leaves_no_notify_registration.

Theorem C18_drop_then_fresh_poll_same_result : forall s t o n,
  poll_ok s t o n = true ->
  snd (step (step' s (AppDrop t)) (AppPoll t o n)) = snd (step s (AppPoll t o n)).
Proof. exact drop_then_fresh_poll_same_result. Qed.
Print Assumptions C18_drop_then_fresh_poll_same_result.

(** the [debug_assert!] in [RecvStream::drop] cannot fire *)
Theorem C18_recv_drop_assert : forall ls k, ok ls ->
  all_read (run ls) k = true -> aget (br (run ls)) k = None.
Proof. exact recv_drop_assert. Qed.
Print Assumptions C18_recv_drop_assert.

(** * reference counting *)
Theorem C18_refcount_tracks_handles : forall ls, ok ls ->
  (driver_alive (run ls) = true -> refcnt (run ls) = nhandles (run ls)) /\
  (driver_alive (run ls) = false -> refcnt (run ls) = (nhandles (run ls) - 1)%Z).
Proof. exact refcount_tracks_handles. Qed.
Print Assumptions C18_refcount_tracks_handles.

(** * implicit teardown: dropping the last handle closes the connection *)
Theorem C18_last_handle_drop_closes : forall ls, ok ls ->
  driver_alive (run ls) = true -> nhandles (run ls) = 1%Z ->
  closed (step' (run ls) HDropConn) = true /\ inner_closed (step' (run ls) HDropConn) = true.
Proof. exact last_handle_drop_closes. Qed.
Print Assumptions C18_last_handle_drop_closes.

Theorem C18_last_handle_drop_closes_recv : forall ls k, ok ls ->
  driver_alive (run ls) = true -> nhandles (run ls) = 1%Z ->
  recv_h (run ls) k = true -> rborrow (run ls) k = None ->
  closed (step' (run ls) (HDropRecv k)) = true /\ inner_closed (step' (run ls) (HDropRecv k)) = true.
Proof. exact last_handle_drop_closes_recv. Qed.
Print Assumptions C18_last_handle_drop_closes_recv.

Theorem C18_last_handle_drop_closes_send : forall ls k, ok ls ->
  driver_alive (run ls) = true -> nhandles (run ls) = 1%Z ->
  send_h (run ls) k = true -> wborrow (run ls) k = None ->
  closed (step' (run ls) (HDropSend k)) = true /\ inner_closed (step' (run ls) (HDropSend k)) = true.
Proof. exact last_handle_drop_closes_send. Qed.
Print Assumptions C18_last_handle_drop_closes_send.

(** * close wakes everyone (single-step parts; the run-level part is below) *)
Theorem C18_closed_poll_never_pends : forall s t o n,
  closed s = true -> snd (app_poll s t o n) <> Pending.
Proof. exact closed_poll_never_pends. Qed.
Print Assumptions C18_closed_poll_never_pends.

Theorem C18_closed_poll_errors : forall s t o n r,
  closed s = true -> snd (app_poll s t o n) = Ready r ->
  match o with
  | OWrite _ | OOpen _ | OSendDgram | OAuth | OHsConf => r = RErr
  | OClosed => r = ROk
  | OConnect => r = ROk \/ r = RErr
  | OAccept _ => (exists k, r = RStream k) \/ r = RErr
  | ORead _ => (exists l, r = RData l) \/ r = REnd \/ r = RErr
  | OStopped _ => r = ROk \/ r = RErr
  | ORecvDgram => (exists d, r = RDgram d) \/ r = RErr
  end.
Proof. exact closed_poll_errors. Qed.
Print Assumptions C18_closed_poll_errors.

Theorem C18_closed_is_stable : forall s l, closed s = true -> closed (step' s l) = true.
Proof. exact closed_is_stable. Qed.
Print Assumptions C18_closed_is_stable.

(** * cancellation *)
Theorem C18_drop_changes_no_protocol_state : forall s t, proto_eq (step' s (AppDrop t)) s.
Proof. exact drop_changes_no_protocol_state. Qed.
Print Assumptions C18_drop_changes_no_protocol_state.

Theorem C18_drop_leaves_stale_stream_waker_witness : exists ls t k,
  pend (run ls) t = None /\ aget (br (run ls)) k = Some t.
Proof. exact drop_leaves_stale_stream_waker_witness. Qed.
Print Assumptions C18_drop_leaves_stale_stream_waker_witness.

Theorem C18_stale_waker_cleared_by_handle_drop : forall s k,
  rborrow s k = None -> recv_h s k = true -> all_read s k = false ->
  aget (br (step' s (HDropRecv k))) k = None.
Proof. exact stale_waker_cleared_by_handle_drop. Qed.
Print Assumptions C18_stale_waker_cleared_by_handle_drop.

Theorem C18_stale_writer_waker_cleared_by_handle_drop : forall s k,
  wborrow s k = None -> send_h s k = true ->
  aget (bw (step' s (HDropSend k))) k = None.
Proof. exact stale_writer_waker_cleared_by_handle_drop. Qed.
Print Assumptions C18_stale_writer_waker_cleared_by_handle_drop.

(** * implicit teardown (single-step parts) *)
Theorem C18_recv_drop_stops : forall s k,
  recv_h s k = true -> rborrow s k = None -> all_read s k = false -> closed s = false ->
  rx_end (step' s (HDropRecv k)) k = true /\ rx (step' s (HDropRecv k)) k = [] \/ closed (step' s (HDropRecv k)) = true.
Proof. exact recv_drop_stops. Qed.
Print Assumptions C18_recv_drop_stops.

Theorem C18_send_drop_finishes : forall s k,
  send_h s k = true -> wborrow s k = None -> closed s = false ->
  w_end (step' s (HDropSend k)) k = true.
Proof. exact send_drop_finishes. Qed.
Print Assumptions C18_send_drop_finishes.

Theorem C18_driver_exits_when_drained : forall s evs,
  driver_alive s = true ->
  drained (fold_left drv_event evs (set_drv s true false false (drv_work s))) = true ->
  driver_alive (drv_poll s evs) = false.
Proof. exact driver_exits_when_drained. Qed.
Print Assumptions C18_driver_exits_when_drained.

Theorem C18_drained_releases_endpoint_entry : forall s,
  closed s = true -> ep_entry (drv_event s PDrained) = false /\ drained (drv_event s PDrained) = true.
Proof. exact drained_releases_endpoint_entry. Qed.
Print Assumptions C18_drained_releases_endpoint_entry.

(** * refuted parts (faithful model of the code) *)
Theorem C18_no_lost_wakeup_refuted : exists ls t o,
  pend (run ls) t = Some o /\ cond (run ls) o = true /\ runnable (run ls) t = false.
Proof. exact no_lost_wakeup_refuted. Qed.
Print Assumptions C18_no_lost_wakeup_refuted.

Theorem C18_refcount_zero_with_live_handle_witness : exists ls,
  refcnt (run ls) = 0%Z /\ nhandles (run ls) = 1%Z /\ driver_alive (run ls) = false.
Proof. exact refcount_zero_with_live_handle_witness. Qed.
Print Assumptions C18_refcount_zero_with_live_handle_witness.

Example C18_two_readers_one_waker_slot :
  let s0 := run [DrvPoll [POpened false 3 [] false]; AppPoll 0 (OAccept false) 0] in
  let s2 := drv_event (register (register s0 1 (ORead 3)) 2 (ORead 3)) (PData 3 [7%Z] false) in
  pend s2 1 = Some (ORead 3) /\ cond s2 (ORead 3) = true /\ runnable s2 1 = false.
Proof. exact two_readers_one_waker_slot. Qed.

(** * the driver's exit on a socket error (finding fixed by /repo ade9d8a) *)
Theorem C18_io_error_preserves_invariant : forall s, Inv s -> Inv (drv_io_error s).
Proof. exact io_error_preserves_invariant. Qed.
Print Assumptions C18_io_error_preserves_invariant.

Theorem C18_io_error_wakes_everyone : forall ls, ok ls -> driver_alive (run ls) = true -> forall t o,
  pend (drv_io_error (run ls)) t = Some o -> runnable (drv_io_error (run ls)) t = true.
Proof. exact io_error_wakes_everyone. Qed.
Print Assumptions C18_io_error_wakes_everyone.

Theorem C18_io_error_unfixed_refuted : exists ls t o,
  let s := drv_io_error_unfixed (run ls) in
  pend s t = Some o /\ runnable s t = false /\ closed s = false /\ driver_alive s = false /\
  (0 < nhandles s)%Z.
Proof. exact io_error_unfixed_refuted. Qed.
Print Assumptions C18_io_error_unfixed_refuted.

(** * Endpoint half (Model/AsyncEndpoint.v): Accept, wait_idle, Endpoint::close, driver exit *)
Local Open Scope nat_scope.
Theorem C18_endpoint_no_lost_wakeup : forall ls t o,
  e_pend (erun ls) t = Some o -> econd (erun ls) o = true -> e_run (erun ls) t = true.
Proof. exact endpoint_no_lost_wakeup. Qed.
Print Assumptions C18_endpoint_no_lost_wakeup.

Theorem C18_endpoint_driver_exit_not_missed : forall ls,
  e_alive (erun ls) = true -> e_refs (erun ls) = 0%Z -> e_conns (erun ls) = 0 -> e_drun (erun ls) = true.
Proof. exact endpoint_driver_exit_not_missed. Qed.
Print Assumptions C18_endpoint_driver_exit_not_missed.

Theorem C18_endpoint_driver_exits : forall s,
  e_alive s = true -> e_refs s = 0%Z -> e_conns s = 0 ->
  e_alive (edrv_poll s []) = false /\ e_lost (edrv_poll s []) = true.
Proof. exact endpoint_driver_exits. Qed.
Print Assumptions C18_endpoint_driver_exits.

Theorem C18_endpoint_close_wakes_accept : forall ls t,
  e_pend (estep' (erun ls) LClose) t = Some EAccept -> e_run (estep' (erun ls) LClose) t = true.
Proof. exact endpoint_close_wakes_accept. Qed.
Print Assumptions C18_endpoint_close_wakes_accept.

Theorem C18_endpoint_closed_accept_never_pends : forall s t,
  e_close s = true -> snd (epoll s t EAccept) <> EPending.
Proof. exact endpoint_closed_accept_never_pends. Qed.
Print Assumptions C18_endpoint_closed_accept_never_pends.

Theorem C18_endpoint_drop_changes_nothing : forall s t,
  let s' := estep' s (LDrop t) in
  e_incoming s' = e_incoming s /\ e_close s' = e_close s /\ e_conns s' = e_conns s /\ e_refs s' = e_refs s
  /\ e_winc s' t = false /\ e_widle s' t = false.
Proof. exact endpoint_drop_changes_nothing. Qed.
Print Assumptions C18_endpoint_drop_changes_nothing.

Example C18_endpoint_teardown :
  let s := erun [LConnect; LPoll 1 EWaitIdle; LDrv []; LHandleDrop; LDrv [VDrained]] in
  e_alive s = false /\ e_lost s = true /\ e_run s 1 = true /\ e_refs s = (-1)%Z.
Proof. exact endpoint_teardown. Qed.
