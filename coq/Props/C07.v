(** C07 — Unvalidated addresses are never sent more than 3x what they sent (component level).
    Property theorems only: each is closed by [exact] of a lemma proved under Proofs/, followed by
    [Print Assumptions]. Models: Model/AntiAmp.v (exact), Model/StatelessReset.v (relational in the
    random padding length), tied to the code by the correspondence check on every run. *)
From QV Require Import Lib.Tac Lib.Chk Lib.Corr Proofs.ChkProofs gen.Constants.
From QV Require Model.AntiAmp Model.StatelessReset.
From QV Require Proofs.AntiAmpProofs Proofs.StatelessResetProofs.
Open Scope Z_scope.

(** amplification_bound. A history is a list of events on one path: [1; n] = a datagram of n
    bytes received from the address, [6; seg; max; d0; d1; ...] = one poll_transmit batch wanting
    to send datagrams of those sizes (first at most seg <= mtu, later ones at most the first),
    [4; b] / [5] = queries, [7; 1] = the address becomes validated, [0; v] = a new path.
    [gs]/[gr] are the bytes REALLY sent/received (unbounded), independent of the u64 counters.
    Proved for an arbitrary datagram bound [mtu] > 0 and instantiated with the crate's
    MAX_UDP_PAYLOAD; the factor is [AntiAmp.FACTOR] = 3 (pinned to the code by the budget probe of
    the correspondence on every run). *)
Theorem C07_amplification_bound : forall l s,
  Forall (AntiAmpProofs.op_wf MAX_UDP_PAYLOAD) l ->
  AntiAmp.steps (AntiAmp.fresh false) l = Some s ->
  AntiAmp.validated s = false ->
  AntiAmp.gs s < 3 * AntiAmp.gr s + MAX_UDP_PAYLOAD.
Proof.
  intros l s Hwf H Hv.
  exact (AntiAmpProofs.amplification_bound MAX_UDP_PAYLOAD l s ltac:(vm_compute; reflexivity) Hwf H Hv).
Qed.
Print Assumptions C07_amplification_bound.

Theorem C07_amplification_bound_any_mtu : forall mtu l s,
  0 < mtu -> Forall (AntiAmpProofs.op_wf mtu) l ->
  AntiAmp.steps (AntiAmp.fresh false) l = Some s ->
  AntiAmp.validated s = false ->
  AntiAmp.gs s < AntiAmp.FACTOR * AntiAmp.gr s + mtu.
Proof. exact AntiAmpProofs.amplification_bound. Qed.
Print Assumptions C07_amplification_bound_any_mtu.

Theorem C07_no_datagram_when_exhausted : forall mtu l s seg max ds s' n t,
  0 < mtu -> Forall (AntiAmpProofs.op_wf mtu) l ->
  AntiAmp.steps (AntiAmp.fresh false) l = Some s ->
  AntiAmp.validated s = false -> AntiAmp.FACTOR * AntiAmp.gr s <= AntiAmp.gs s ->
  AntiAmp.poll s seg max ds = Some (s', n, t) -> n = 0 /\ t = 0 /\ AntiAmp.gs s' = AntiAmp.gs s.
Proof. exact AntiAmpProofs.no_datagram_when_exhausted. Qed.
Print Assumptions C07_no_datagram_when_exhausted.

Theorem C07_counters_saturate_safely : forall mtu l s,
  0 < mtu -> Forall (AntiAmpProofs.op_wf mtu) l ->
  AntiAmp.steps (AntiAmp.fresh false) l = Some s ->
  0 <= AntiAmp.recvd s <= AntiAmp.gr s /\
  (AntiAmp.sent s = AntiAmp.gs s \/ (AntiAmp.sent s = U64MAX /\ U64MAX <= AntiAmp.gs s)) /\
  (AntiAmp.validated s = false -> AntiAmp.sent s = U64MAX ->
   forall b, 1 <= b -> AntiAmp.blocked s b = None).
Proof. exact AntiAmpProofs.counters_saturate_safely. Qed.
Print Assumptions C07_counters_saturate_safely.

(** reset_smaller_and_rate_limited. A history is a list of (arrival time, datagram length, padding
    choice) of datagrams that reach [stateless_reset]; [emitted] = the resets sent, as
    (time, inciting length, reset size), and is [None] only if a choice is not a size the code can
    produce. Every emitted reset is strictly smaller than its datagram, which is longer than
    MIN_PADDING_LEN + RESET_TOKEN_SIZE = 21 bytes, and any two are at least the interval apart. *)
Theorem C07_reset_smaller_and_rate_limited : forall srv iv evs out,
  0 <= iv ->
  StatelessReset.emitted (StatelessReset.mk srv iv None) evs = Some out ->
  Forall (fun e => snd e < snd (fst e) /\ 21 < snd (fst e)) out /\
  StatelessResetProofs.spaced iv out.
Proof. exact StatelessResetProofs.reset_smaller_and_rate_limited. Qed.
Print Assumptions C07_reset_smaller_and_rate_limited.

Theorem C07_short_initial_ignored : forall s now len hint,
  StatelessReset.has_server s = true -> len < 1200 ->
  StatelessReset.handle s 2 now len hint = Some (s, StatelessReset.none_out 0).
Proof. exact StatelessResetProofs.short_initial_ignored. Qed.
Print Assumptions C07_short_initial_ignored.

(** Non-vacuity. 1200 bytes received: a 10-datagram batch of 1200-byte segments is cut after the
    third datagram (3600 = 3 x 1200 sent), and the next batch starts nothing. *)
Example C07_antiamp_example :
  match AntiAmp.steps (AntiAmp.fresh false) [[1; 1200]; [6; 1200; 10; 1200; 1200; 1200; 1200; 1200]] with
  | Some s => (AntiAmp.gs s, AntiAmp.gr s, AntiAmp.poll s 1200 10 [1200]) = (3600, 1200, Some (s, 0, 0))
  | None => False
  end.
Proof. vm_compute. reflexivity. Qed.
Example C07_reset_example :
  StatelessReset.emitted (StatelessReset.mk false 20000 None)
    [(0, 22, 21); (10, 100, 50); (20000, 100, 73); (20001, 21, 0); (50000, 43, 41)]
  = Some [(0, 22, 21); (20000, 100, 73); (50000, 43, 41)].
Proof. vm_compute. reflexivity. Qed.
