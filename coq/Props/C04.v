(** C04 — Only authentic packets are acted on, each at most once (component level: [Dedup]).
    Property theorems only; proofs under Proofs/DedupProofs.v. Model: Model/Dedup.v (tied to
    quinn-proto/src/connection/spaces.rs by the correspondence check on every run). *)
From QV Require Import Lib.Tac Lib.Corr Model.Dedup Proofs.DedupProofs gen.Constants.
From QV Require Import Model.PacketNumber Model.PktAccept Proofs.PktAcceptProofs.
From QV Require Model.CidQueue Proofs.CidQueueProofs Proofs.CidQueueToken.
From Coq Require Import List.
Open Scope Z_scope.

(** The model's window constants are the ones of the compiled crate. *)
Example C04_dedup_constants :
  Dedup.WINDOW_SIZE = Constants.DEDUP_WINDOW_SIZE /\ Dedup.BITS = Constants.DEDUP_WINDOW_BITS.
Proof. vm_compute. split; reflexivity. Qed.

(** For every sequence [l] of packet numbers handed to [insert] (arbitrary order, gaps, jumps of
    any size), with [ds] the "duplicate" answers: a number that was inserted before — whatever
    happened in between — and a number left of the window are reported duplicate.  Hence each
    packet number is reported non-duplicate at most once. *)
Theorem C04_dedup_at_most_once : forall l d ds,
  Forall (fun p => 0 <= p) l ->
  inserts Dedup.init l = Some (d, ds) ->
  forall j p, nth_error l j = Some p ->
    (In p (firstn j l) \/ p + Constants.DEDUP_WINDOW_SIZE <= maxl (firstn j l)) ->
    nth_error ds j = Some true.
Proof. exact dedup_at_most_once. Qed.
Print Assumptions C04_dedup_at_most_once.

Theorem C04_dedup_new_at_most_once : forall l d ds,
  Forall (fun p => 0 <= p) l ->
  inserts Dedup.init l = Some (d, ds) ->
  forall i j p, (i < j)%nat -> nth_error l i = Some p -> nth_error l j = Some p ->
    nth_error ds j = Some true.
Proof. exact dedup_new_at_most_once. Qed.
Print Assumptions C04_dedup_new_at_most_once.

(** No false duplicates inside the window: a number never inserted before and not more than
    WINDOW_SIZE - 1 below the highest one so far is reported non-duplicate. *)
Theorem C04_dedup_first_time_fresh_in_window : forall l d ds,
  Forall (fun p => 0 <= p) l ->
  inserts Dedup.init l = Some (d, ds) ->
  forall j p, nth_error l j = Some p ->
    ~ In p (firstn j l) -> maxl (firstn j l) < p + Constants.DEDUP_WINDOW_SIZE ->
    nth_error ds j = Some false.
Proof. exact dedup_first_time_fresh_in_window. Qed.
Print Assumptions C04_dedup_first_time_fresh_in_window.

(** [insert] never panics on packet numbers below [u64::MAX] (QUIC packet numbers are < 2^62),
    and [next] is one more than the highest number inserted. *)
Theorem C04_dedup_total : forall l d0,
  Forall (fun p => p < 2 ^ 64 - 1) l ->
  exists d ds, inserts d0 l = Some (d, ds) /\ length ds = length l.
Proof. exact dedup_total. Qed.
Print Assumptions C04_dedup_total.

Theorem C04_dedup_next : forall l d ds,
  Forall (fun p => 0 <= p) l ->
  inserts Dedup.init l = Some (d, ds) -> next d = maxl l + 1.
Proof. exact dedup_next_is_highest_plus_one. Qed.
Print Assumptions C04_dedup_next.

(** [smallest_missing_in_interval(l, u)] (used to decide on immediate ACKs) is exact with respect
    to the abstract membership [seen] (inserted, or left of the window): it returns the smallest
    number strictly between the bounds that has not been seen, [None] if there is none; and it
    never panics when its documented preconditions hold. [missing_in_interval] is its [is_some]. *)
Theorem C04_dedup_smallest_missing_exact : forall d l u r,
  0 <= l ->
  smallest_missing d l u = Some r ->
  match r with
  | None => forall m, l < m < u -> seen d m = true
  | Some q => l < q < u /\ seen d q = false /\ forall m, l < m < q -> seen d m = true
  end.
Proof. exact smallest_missing_exact. Qed.
Print Assumptions C04_dedup_smallest_missing_exact.

Theorem C04_dedup_smallest_missing_total : forall d l u,
  0 <= l -> l <= u -> 1 <= next d -> u <= next d - 1 -> smallest_missing d l u <> None.
Proof. exact smallest_missing_total. Qed.
Print Assumptions C04_dedup_smallest_missing_total.

(** [seen] is what [insert] answers, and for a state reached by inserting the numbers [l] it is
    exactly "inserted before, or left of the window". *)
Theorem C04_dedup_seen_is_insert_answer : forall d p d' dup,
  insert d p = Some (d', dup) -> dup = seen d p.
Proof. exact insert_dup. Qed.
Print Assumptions C04_dedup_seen_is_insert_answer.

Theorem C04_dedup_seen_spec : forall l d ds,
  Forall (fun p => 0 <= p) l ->
  inserts Dedup.init l = Some (d, ds) ->
  forall m, 0 <= m ->
    seen d m = Dedup.mem m l || (m + Constants.DEDUP_WINDOW_SIZE <=? maxl l).
Proof. exact seen_spec. Qed.
Print Assumptions C04_dedup_seen_spec.

(** ---- packet acceptance decisions (connection/packet_crypto.rs), packet protection as an oracle ---- *)

Example C04_reset_token_size : PktAccept.RESET_TOKEN_SIZE = Constants.RESET_TOKEN_SIZE.
Proof. vm_compute. reflexivity. Qed.

(** [decrypt_packet_body] reports a packet as decrypted only if it was sealed under a key of this
    connection that is legitimate for its header: the 0-RTT key for a 0-RTT packet, the space's
    current key (1-RTT: only in the connection's key phase), the previous 1-RTT key only for a
    packet of the other phase numbered below the end of the previous phase, the next 1-RTT key
    only as a key update that is newer than every packet received and not while an earlier
    remote update is unacknowledged.  (Key ids: 10/11/12 current keys per space, 20 previous,
    21 next, 30 0-RTT.) *)
Theorem C04_decrypt_only_under_legitimate_key :
  forall kind kp pn rx ckp prev np zp sealed rok n a u,
  0 <= kind <= 4 ->
  decrypt kind kp pn rx ckp prev np zp sealed rok = Some (Decrypted n a u) ->
  n = expand 4 pn (rx + 1) /\ kind <> 4 /\
  ((kind = 2 /\ sealed = 30 /\ zp = true /\ u = false) \/
   (kind <> 2 /\ sealed = 10 + space_of kind /\ u = false /\ (kind = 3 -> kp = ckp)) \/
   (kind = 3 /\ kp <> ckp /\ sealed = 20 /\ u = false /\
    exists p, prev = Some p /\ match end_packet p with None => True | Some e => n < e end) \/
   (kind = 3 /\ kp <> ckp /\ sealed = 21 /\ u = true /\ np = true /\ rx < n /\
    match prev with Some p => update_unacked p = false | None => True end)).
Proof. exact decrypt_only_under_legitimate_key. Qed.
Print Assumptions C04_decrypt_only_under_legitimate_key.

(** A datagram is treated as a stateless reset iff it is at least RESET_TOKEN_SIZE + 5 bytes long
    and its last 16 bytes are exactly the token expected for the CID in use — over all suffixes. *)
Theorem C04_reset_only_on_exact_token : forall token pkt,
  reset_detect token pkt = true <->
  exists t, token = Some t /\ Constants.RESET_TOKEN_SIZE + 5 <= Z.of_nat (length pkt) /\ lastn 16 pkt = t.
Proof. exact reset_only_on_exact_token. Qed.
Print Assumptions C04_reset_only_on_exact_token.

Theorem C04_unprotect_reset_flag : forall token cid_len pkt p r,
  unprotect token cid_len pkt = Some (Some (p, r)) -> r = reset_detect token pkt.
Proof. exact unprotect_reset_flag. Qed.
Print Assumptions C04_unprotect_reset_flag.

(** Non-vacuity: a jump of 200, a late arrival inside the window, one left of it, a replay. *)
Example C04_dedup_example :
  inserts Dedup.init [0; 1; 3; 203; 100; 74; 75; 3; 100; 204; 75] =
  Some (Dedup.mk (2 ^ 103 + 1) 205,
        [false; false; false; false; false; true; false; true; true; false; true]).
Proof. vm_compute. reflexivity. Qed.
Example C04_dedup_query_example :
  smallest_missing (Dedup.mk (2 ^ 103 + 1) 205) 100 203 = Some (Some 101) /\
  smallest_missing (Dedup.mk (2 ^ 103 + 1) 205) 3 100 = Some (Some 76) /\
  smallest_missing (Dedup.mk (2 ^ 103 + 1) 205) 203 204 = Some None.
Proof. vm_compute. repeat split; reflexivity. Qed.

(** * Stateless reset tokens follow the connection ID in use (cid_queue.rs).
    "...a stateless reset carrying exactly the token the peer issued for the connection ID in
    use": whenever [CidQueue::insert] (NEW_CONNECTION_ID with retire_prior_to) or
    [CidQueue::next] moves the active remote CID, the reset token it hands to the endpoint
    (which then replaces the token it matches incoming datagrams against) is the token issued
    with the CID that is active AFTER the call — for every handshake-time sequence of
    [update_initial_cid] followed by every sequence of inserts and nexts. *)
Theorem C04_reset_token_follows_active_cid : forall id0 pre post s outs,
  Forall CidQueueProofs.upd_op pre -> Forall CidQueueProofs.main_op post ->
  CidQueue.run_ops CID_QUEUE_LEN (CidQueue.new CID_QUEUE_LEN id0) (pre ++ post) = Some (s, outs) ->
  Forall2 CidQueueToken.tok_ok (pre ++ post) outs.
Proof. exact (CidQueueToken.cidqueue_token_lemma CID_QUEUE_LEN eq_refl). Qed.
Print Assumptions C04_reset_token_follows_active_cid.

(** non-vacuity: the second insert retires sequence numbers 0..2; CID 7 (sequence 2) becomes
    active and its token (7) is the one reported *)
Example C04_reset_token_example :
  CidQueue.run [[1; 2; 0; 7]; [1; 3; 2; 8]; [2]] = [[0; 0; 0]; [2; 7; 1; 0; 2; 7]; [3; 8; 1; 8; 2; 3]].
Proof. vm_compute. reflexivity. Qed.
