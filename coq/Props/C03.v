(** C03 — Peer-controlled input never crashes or hangs an endpoint (component level).
    Property theorems only: each is closed by [exact] of a lemma proved under Proofs/, followed by
    [Print Assumptions].  Models: Model/CidQueue.v, CidState.v, PathResponses.v, AckRanges.v,
    PendingAcks.v, AckFrequency.v (tied to the code by the correspondence check on every run) and
    Model/RetireQueue.v (model only).  Constants come from gen/Constants.v: a changed
    [CidQueue::LEN], [MAX_ACK_BLOCKS] or [MAX_PATH_RESPONSES] breaks the side conditions here. *)
From QV Require Import Lib.Tac Lib.Corr gen.Constants
  Model.CidQueue Model.CidState Model.PathResponses Model.AckRanges Model.PendingAcks
  Model.AckFrequency Model.RetireQueue
  Proofs.CidQueueProofs Proofs.CidStateProofs Proofs.PathResponsesProofs Proofs.PendingAcksProofs
  Proofs.AckFrequencyProofs Proofs.RetireQueueProofs.
Open Scope Z_scope.

(** * 1. CidQueue: remote connection IDs driven by NEW_CONNECTION_ID frames.
    For every initial CID, every handshake-time sequence of [update_initial_cid] followed by every
    sequence of [insert(sequence, retire_prior_to <= sequence)] / [next]: no [expect]/[unwrap]/
    debug assertion fires ([run_ops] is [Some]), [buffer[cursor]] is occupied ([active] is [Some]),
    the cursor is in range, every returned retired range is non-empty with at most [LEN] elements,
    the active sequence number is 0 or the sequence number of an inserted frame, and it is not
    below the [retire_prior_to] of any frame the queue accepted. *)
Theorem C03_cidqueue_never_panics : forall id0 pre post,
  Forall CidQueueProofs.upd_op pre -> Forall CidQueueProofs.main_op post ->
  exists s outs acc,
    CidQueue.run_ops CID_QUEUE_LEN (CidQueue.new CID_QUEUE_LEN id0) (pre ++ post) = Some (s, outs) /\
    Forall2 CidQueueProofs.out_ok (pre ++ post) outs /\
    length (CidQueue.buf s) = Z.to_nat CID_QUEUE_LEN /\ 0 <= CidQueue.cursor s < CID_QUEUE_LEN /\
    (exists a, CidQueue.active s = Some a) /\
    CidQueueProofs.gexec (CidQueue.new CID_QUEUE_LEN id0) [] (pre ++ post) = Some (s, acc) /\
    (CidQueue.active_seq s = 0 \/
     exists rpt id, In (CidQueue.Insert (CidQueue.active_seq s) rpt id) post) /\
    (forall seq rpt id, In (seq, rpt, id) acc -> rpt <= CidQueue.active_seq s).
Proof. exact (cidqueue_never_panics_lemma CID_QUEUE_LEN eq_refl). Qed.
Print Assumptions C03_cidqueue_never_panics.

(** non-vacuity: a run that wraps the ring, retires through retire_prior_to and ends at 1000000 *)
Example C03_cidqueue_example :
  CidQueue.run [[1; 2; 0; 7]; [1; 3; 1; 8]; [2]; [1; 1000000; 1000000; 9]; [1; 0; 0; 5]]
  = [[0; 0; 0]; [2; 7; 1; 0; 2; 7]; [3; 8; 1; 8; 2; 3]; [1000000; 9; 1; 3; 8; 9]; [1000000; 9; 2]].
Proof. vm_compute. reflexivity. Qed.

(** * 2. CidState: local connection IDs driven by RETIRE_CONNECTION_ID frames and timeouts. *)
Theorem C03_cidstate_safe : forall os,
  Forall CidStateProofs.wf_op os ->
  exists s outs, CidStateProofs.exec CidState.init os = Some s /\
    CidState.run_ops CidState.init os = Some outs /\ length outs = length os /\
    (forall x, In x (CidState.active s) -> 0 <= x < CidState.issued s) /\
    Z.of_nat (length (CidState.active s)) <= CidState.issued s /\
    0 <= CidState.prev s <= CidState.issued s /\ 0 <= CidState.rseq s <= CidState.issued s.
Proof. exact cidstate_safe_lemma. Qed.
Print Assumptions C03_cidstate_safe.

Theorem C03_cidstate_retire_unissued_rejected : forall s seq limit,
  CidState.issued s < seq ->
  CidState.on_cid_retirement s seq limit = (s, inr CidState.PROTOCOL_VIOLATION).
Proof. exact retire_unissued_rejected. Qed.
Print Assumptions C03_cidstate_retire_unissued_rejected.

(** F11 verdict: [sequence == issued] passes the guard ([>] instead of [>=]) but is a no-op on
    every reachable state (harmless; RFC 9000 19.16 would have it rejected). *)
Theorem C03_cidstate_retire_at_issued_is_noop : forall s limit,
  CidStateProofs.Inv s -> CidState.cid_len s <> 0 ->
  exists b, CidState.on_cid_retirement s (CidState.issued s) limit = (s, inl b)
            /\ b = (Z.of_nat (length (CidState.active s)) <? limit).
Proof. exact retire_at_issued_is_noop. Qed.
Print Assumptions C03_cidstate_retire_at_issued_is_noop.

Theorem C03_cidstate_retire_accepted : forall s seq limit s' b,
  CidStateProofs.Inv s -> CidState.on_cid_retirement s seq limit = (s', inl b) ->
  seq <= CidState.issued s /\ ~ In seq (CidState.active s') /\
  (forall x, In x (CidState.active s') -> In x (CidState.active s)) /\
  CidState.issued s' = CidState.issued s /\
  (b = true <-> Z.of_nat (length (CidState.active s')) < limit).
Proof. exact retire_accepted. Qed.
Print Assumptions C03_cidstate_retire_accepted.

Example C03_cidstate_example :
  CidState.run [[0; 8; 1000; 0; 2]; [1; 3; 5]; [2; 5; 8]; [2; 6; 8]; [2; 1; 8]; [3]]
  = [[0; 0; 2; 0; 0; 1; 1000; 2; 0; 1]; [0; 0; 5; 0; 0; 2; 1000; 5; 0; 1; 2; 3; 4];
     [0; 1; 5; 0; 0; 2; 1000; 5; 0; 1; 2; 3; 4]; [1; 10; 5; 0; 0; 2; 1000; 5; 0; 1; 2; 3; 4];
     [0; 1; 5; 0; 0; 2; 1000; 4; 0; 2; 3; 4]; [0; 1; 5; 0; 2; 1; 1005; 4; 0; 2; 3; 4]].
Proof. vm_compute. reflexivity. Qed.

(** * 3. PathResponses: PATH_RESPONSE frames owed to peer-chosen remotes. *)
Theorem C03_path_responses_bounded : forall os,
  let l := PathResponsesProofs.exec MAX_PATH_RESPONSES [] os in
  Z.of_nat (length l) <= MAX_PATH_RESPONSES /\ NoDup (PathResponsesProofs.remotes l) /\
  Forall (fun out => 0 <= hd (-1) out <= MAX_PATH_RESPONSES)
         (PathResponses.run_ops MAX_PATH_RESPONSES [] os).
Proof. apply path_responses_bounded_lemma. vm_compute. discriminate. Qed.
Print Assumptions C03_path_responses_bounded.

Theorem C03_path_responses_keeps_newest : forall M l p tk r,
  NoDup (PathResponsesProofs.remotes l) ->
  forall e, In e (PathResponses.push M l p tk r) -> PathResponses.remote e = r ->
            p <= PathResponses.packet e.
Proof. exact push_keeps_newest. Qed.
Print Assumptions C03_path_responses_keeps_newest.

Example C03_path_responses_example :
  PathResponses.run ([[0; 1; 11; 5]; [0; 2; 12; 6]; [0; 0; 13; 5]; [1; 5]; [2; 6]; [3]])
  = [[1]; [2]; [2]; [1; 1; 12; 6]; [1; 0]; [1; 0]].
Proof. vm_compute. reflexivity. Qed.

(** * 4. PendingAcks: packet numbers awaiting acknowledgement, any arrival order. *)
Theorem C03_pending_acks_bounded_partial : forall os,
  Forall PendingAcksProofs.wf_op os ->
  exists s outs, PendingAcksProofs.exec MAX_ACK_BLOCKS PendingAcks.init os = Some s /\
                 PendingAcks.run_ops MAX_ACK_BLOCKS PendingAcks.init os = Some outs /\
                 Z.of_nat (length (PendingAcks.ranges s)) <= MAX_ACK_BLOCKS /\
                 length outs = length os.
Proof. apply pending_acks_bounded_lemma. vm_compute. discriminate. Qed.
Print Assumptions C03_pending_acks_bounded_partial.

Theorem C03_pending_acks_insert_keeps_packet : forall M s p now s',
  PendingAcks.insert_one M s p now = Some s' ->
  AckRanges.mem (PendingAcks.ranges s') p = true \/
  (M < Z.of_nat (length (AckRanges.insert (PendingAcks.ranges s) p (p + 1))) /\
   PendingAcks.ranges s' = tl (AckRanges.insert (PendingAcks.ranges s) p (p + 1))).
Proof. exact insert_one_keeps_packet. Qed.
Print Assumptions C03_pending_acks_insert_keeps_packet.

(** Full statement (NOT proved; checked on every run by the correspondence oracle, which is this
    specification evaluated on the implementation's outputs): the ranges are exactly the maximal
    runs of the element-list specification, in which only the lowest run is ever dropped. *)
Definition C03_pending_acks_full : Prop := forall (i : ops) os,
  PendingAcks.decode_ops i = Some os -> Forall PendingAcksProofs.wf_op os ->
  exists s, PendingAcksProofs.exec MAX_ACK_BLOCKS PendingAcks.init os = Some s /\
            PendingAcks.ranges s
            = PendingAcks.runs (fold_left (fun e op => PendingAcks.spec_step op e) i []).

(** * 5. AckFrequencyState. *)
(** F4: the code before the repair panics for a parameter set that validation admits. *)
Theorem C03_ack_frequency_never_panics_refuted :
  exists max_ms min_us rtt,
    AckFrequencyProofs.validated max_ms min_us /\ 0 <= rtt /\
    AckFrequency.candidate_pre_fix (AckFrequency.new (max_ms * 1000)) rtt None (Some min_us) = None /\
    AckFrequency.run_pre_fix [[0; max_ms * 1000]; [2]; [1; rtt; -1; min_us]] = [PANIC].
Proof. exact candidate_pre_fix_refuted. Qed.
Print Assumptions C03_ack_frequency_never_panics_refuted.

Theorem C03_ack_frequency_pre_fix_panics_iff : forall s rtt cfg minad,
  AckFrequency.candidate_pre_fix s rtt cfg minad = None <->
  Z.max rtt AckFrequency.MIN_AUTOMATIC_ACK_DELAY < AckFrequency.opt_default minad 0.
Proof. exact candidate_pre_fix_panics_iff. Qed.
Print Assumptions C03_ack_frequency_pre_fix_panics_iff.

(** After the repair: total for ALL (rtt, min_ack_delay, peer max_ack_delay, config) — no
    hypothesis on the parameters is needed — with the documented bounds, and unchanged outside
    the defect class. *)
Theorem C03_candidate_max_ack_delay_total : forall s rtt cfg minad,
  exists d, AckFrequency.candidate s rtt cfg minad = Some d /\
    AckFrequency.opt_default minad 0 <= d /\
    d <= Z.max (Z.max rtt AckFrequency.MIN_AUTOMATIC_ACK_DELAY) (AckFrequency.opt_default minad 0) /\
    (AckFrequency.opt_default minad 0
       <= AckFrequency.opt_default cfg (AckFrequency.peer_max_ack_delay s)
       <= Z.max rtt AckFrequency.MIN_AUTOMATIC_ACK_DELAY ->
     d = AckFrequency.opt_default cfg (AckFrequency.peer_max_ack_delay s)).
Proof. exact candidate_total. Qed.
Print Assumptions C03_candidate_max_ack_delay_total.

Theorem C03_candidate_agrees_pre_fix : forall s rtt cfg minad d,
  AckFrequency.candidate_pre_fix s rtt cfg minad = Some d ->
  AckFrequency.candidate s rtt cfg minad = Some d.
Proof. exact candidate_agrees_pre_fix. Qed.
Print Assumptions C03_candidate_agrees_pre_fix.

Theorem C03_ack_frequency_never_panics : forall d os,
  Z.of_nat (length os) <= VARINT_MAX + 1 ->
  exists outs, AckFrequency.run_ops AckFrequency.candidate (AckFrequency.new d) os = Some outs /\
               length outs = length os.
Proof. exact ack_frequency_never_panics_lemma. Qed.
Print Assumptions C03_ack_frequency_never_panics.

Example C03_ack_frequency_example :
  AckFrequency.run [[0; 30000]; [2]; [1; 10000; -1; 26000]; [1; 40000; -1; 1000]]
  = [[0; 30000; 30000; 30000]; [0; 0; 30000; 30000; 30000];
     [0; 26000; 30000; 30000; 30000]; [0; 30000; 30000; 30000; 30000]].
Proof. vm_compute. reflexivity. Qed.

(** * 6. The NEW_CONNECTION_ID arm and the queue of pending RETIRE_CONNECTION_ID frames. *)
(** Refuted as "bounded": frames for an already retired sequence number are queued without any
    check ([Err(InsertError::Retired)] path), one entry per frame. *)
Theorem C03_retire_queue_bounded_refuted : forall n : nat,
  exists os s', RetireQueue.run CID_QUEUE_LEN true false (RetireQueue.init CID_QUEUE_LEN 0) os = RetireQueue.Continue s'
                /\ Z.of_nat n < RetireQueue.pending s'.
Proof. exact retire_queue_unbounded. Qed.
Print Assumptions C03_retire_queue_bounded_refuted.

(** Everything else is bounded: never a panic, only PROTOCOL_VIOLATION / CONNECTION_ID_LIMIT_ERROR
    close the connection, and at most [10 * LEN + 4] entries are queued besides those pushed on
    the Retired path. *)
Theorem C03_retire_queue_bound : forall cu sv id os,
  Forall RetireQueueProofs.wf_op os ->
  match RetireQueue.run CID_QUEUE_LEN cu sv (RetireQueue.init CID_QUEUE_LEN id) os with
  | RetireQueue.Continue s =>
      0 <= RetireQueue.pending s
        <= RetireQueue.max_pending CID_QUEUE_LEN + 4 + RetireQueue.retired_hits s
  | RetireQueue.Close c =>
      c = RetireQueue.PROTOCOL_VIOLATION \/ c = RetireQueue.CONNECTION_ID_LIMIT_ERROR
  | RetireQueue.Panic => False
  end.
Proof. exact (retire_queue_bound_lemma CID_QUEUE_LEN eq_refl). Qed.
Print Assumptions C03_retire_queue_bound.
