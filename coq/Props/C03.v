(** C03 — Peer-controlled input never crashes or hangs an endpoint (component level).
    Property theorems only: each is closed by [exact] of a lemma proved under Proofs/, followed by
    [Print Assumptions].  Models: Model/CidQueue.v, CidState.v, PathResponses.v, AckRanges.v,
    PendingAcks.v, AckFrequency.v (tied to the code by the correspondence check on every run) and
    Model/RetireQueue.v, Model/FrameLegality.v (model only).  Constants come from gen/Constants.v: a changed
    [CidQueue::LEN], [MAX_ACK_BLOCKS] or [MAX_PATH_RESPONSES] breaks the side conditions here. *)
From QV Require Import Lib.Tac Lib.Corr gen.Constants
  Model.CidQueue Model.CidState Model.PathResponses Model.AckRanges Model.PendingAcks
  Model.AckFrequency Model.RetireQueue Model.FrameLegality
  Proofs.CidQueueProofs Proofs.CidStateProofs Proofs.PathResponsesProofs Proofs.PendingAcksProofs
  Proofs.AckRangesProofs Proofs.AckFrequencyProofs Proofs.RetireQueueProofs
  Proofs.FrameLegalityProofs.
Open Scope Z_scope.

(** * 0. The bounds the theorems are instantiated with, pinned to the values the property names:
    a changed constant in the code is a conscious decision that has to be repeated here. *)
Example C03_constants_pinned :
  CID_QUEUE_LEN = 5 /\ MAX_PATH_RESPONSES = 16 /\ MAX_ACK_BLOCKS = 64 /\
  PathResponses.PINNED_MAX_PATH_RESPONSES = MAX_PATH_RESPONSES /\
  PendingAcks.PINNED_MAX_ACK_BLOCKS = MAX_ACK_BLOCKS.
Proof. vm_compute. repeat split; reflexivity. Qed.

(** * 1. CidQueue: remote connection IDs driven by NEW_CONNECTION_ID frames.
    For every initial CID, every handshake-time sequence of [update_initial_cid] followed by every
    sequence of [insert(sequence, retire_prior_to <= sequence)] / [next]: no [expect]/[unwrap]/
    debug assertion fires ([run_ops] is [Some]), [buffer[cursor]] is occupied ([active] is [Some]),
    the cursor is in range, every returned retired range is non-empty with at most [LEN] elements,
    the active sequence number is 0 or the sequence number of an inserted frame, and it is not
    below the [retire_prior_to] of any frame the queue accepted. *)
Theorem C03_cidqueue_never_panics : forall id0 pre post,
  Forall CidQueueProofs.upd_op pre -> Forall CidQueueProofs.main_op post ->
  exists s outs acc,
    CidQueue.run_ops CID_QUEUE_LEN (CidQueue.new CID_QUEUE_LEN id0) (pre ++ post) = Some (s, outs) /\
    Forall2 CidQueueProofs.out_ok (pre ++ post) outs /\
    length (CidQueue.buf s) = Z.to_nat CID_QUEUE_LEN /\ 0 <= CidQueue.cursor s < CID_QUEUE_LEN /\
    (exists a, CidQueue.active s = Some a) /\
    CidQueueProofs.gexec (CidQueue.new CID_QUEUE_LEN id0) [] (pre ++ post) = Some (s, acc) /\
    (CidQueue.active_seq s = 0 \/
     exists rpt id, In (CidQueue.Insert (CidQueue.active_seq s) rpt id) post) /\
    (forall seq rpt id, In (seq, rpt, id) acc -> rpt <= CidQueue.active_seq s).
Proof. exact (cidqueue_never_panics_lemma CID_QUEUE_LEN eq_refl). Qed.
Print Assumptions C03_cidqueue_never_panics.

(** non-vacuity: a run that wraps the ring, retires through retire_prior_to and ends at 1000000 *)
Example C03_cidqueue_example :
  CidQueue.run [[1; 2; 0; 7]; [1; 3; 1; 8]; [2]; [1; 1000000; 1000000; 9]; [1; 0; 0; 5]]
  = [[0; 0; 0]; [2; 7; 1; 0; 2; 7]; [3; 8; 1; 8; 2; 3]; [1000000; 9; 1; 3; 8; 9]; [1000000; 9; 2]].
Proof. vm_compute. reflexivity. Qed.

(** * 2. CidState: local connection IDs driven by RETIRE_CONNECTION_ID frames and timeouts. *)
Theorem C03_cidstate_safe : forall os,
  Forall CidStateProofs.wf_op os ->
  exists s outs, CidStateProofs.exec CidState.init os = Some s /\
    CidState.run_ops CidState.init os = Some outs /\ length outs = length os /\
    (forall x, In x (CidState.active s) -> 0 <= x < CidState.issued s) /\
    Z.of_nat (length (CidState.active s)) <= CidState.issued s /\
    0 <= CidState.prev s <= CidState.issued s /\ 0 <= CidState.rseq s <= CidState.issued s.
Proof. exact cidstate_safe_lemma. Qed.
Print Assumptions C03_cidstate_safe.

Theorem C03_cidstate_retire_unissued_rejected : forall s seq limit,
  CidState.issued s < seq ->
  CidState.on_cid_retirement s seq limit = (s, inr CidState.PROTOCOL_VIOLATION).
Proof. exact retire_unissued_rejected. Qed.
Print Assumptions C03_cidstate_retire_unissued_rejected.

(** F11 verdict: [sequence == issued] passes the guard ([>] instead of [>=]) but is a no-op on
    every reachable state (harmless; RFC 9000 19.16 would have it rejected). *)
Theorem C03_cidstate_retire_at_issued_is_noop : forall s limit,
  CidStateProofs.Inv s -> CidState.cid_len s <> 0 ->
  exists b, CidState.on_cid_retirement s (CidState.issued s) limit = (s, inl b)
            /\ b = (Z.of_nat (length (CidState.active s)) <? limit).
Proof. exact retire_at_issued_is_noop. Qed.
Print Assumptions C03_cidstate_retire_at_issued_is_noop.

Theorem C03_cidstate_retire_accepted : forall s seq limit s' b,
  CidStateProofs.Inv s -> CidState.on_cid_retirement s seq limit = (s', inl b) ->
  seq <= CidState.issued s /\ ~ In seq (CidState.active s') /\
  (forall x, In x (CidState.active s') -> In x (CidState.active s)) /\
  CidState.issued s' = CidState.issued s /\
  (b = true <-> Z.of_nat (length (CidState.active s')) < limit).
Proof. exact retire_accepted. Qed.
Print Assumptions C03_cidstate_retire_accepted.

Example C03_cidstate_example :
  CidState.run [[0; 8; 1000; 0; 2]; [1; 3; 5]; [2; 5; 8]; [2; 6; 8]; [2; 1; 8]; [3]]
  = [[0; 0; 2; 0; 0; 1; 1000; 2; 0; 1]; [0; 0; 5; 0; 0; 2; 1000; 5; 0; 1; 2; 3; 4];
     [0; 1; 5; 0; 0; 2; 1000; 5; 0; 1; 2; 3; 4]; [1; 10; 5; 0; 0; 2; 1000; 5; 0; 1; 2; 3; 4];
     [0; 1; 5; 0; 0; 2; 1000; 4; 0; 2; 3; 4]; [0; 1; 5; 0; 2; 1; 1005; 4; 0; 2; 3; 4]].
Proof. vm_compute. reflexivity. Qed.

(** * 3. PathResponses: PATH_RESPONSE frames owed to peer-chosen remotes. *)
Theorem C03_path_responses_bounded : forall os,
  let l := PathResponsesProofs.exec MAX_PATH_RESPONSES [] os in
  Z.of_nat (length l) <= MAX_PATH_RESPONSES /\ NoDup (PathResponsesProofs.remotes l) /\
  Forall (fun out => 0 <= hd (-1) out <= MAX_PATH_RESPONSES)
         (PathResponses.run_ops MAX_PATH_RESPONSES [] os).
Proof. apply path_responses_bounded_lemma. vm_compute. discriminate. Qed.
Print Assumptions C03_path_responses_bounded.

Theorem C03_path_responses_keeps_newest : forall M l p tk r,
  NoDup (PathResponsesProofs.remotes l) ->
  forall e, In e (PathResponses.push M l p tk r) -> PathResponses.remote e = r ->
            p <= PathResponses.packet e.
Proof. exact push_keeps_newest. Qed.
Print Assumptions C03_path_responses_keeps_newest.

Example C03_path_responses_example :
  PathResponses.run ([[0; 1; 11; 5]; [0; 2; 12; 6]; [0; 0; 13; 5]; [1; 5]; [2; 6]; [3]])
  = [[1]; [2]; [2]; [1; 1; 12; 6]; [1; 0]; [1; 0]].
Proof. vm_compute. reflexivity. Qed.

(** * 4. PendingAcks: packet numbers awaiting acknowledgement, any arrival order. *)
Theorem C03_pending_acks_bounded_partial : forall os,
  Forall PendingAcksProofs.wf_op os ->
  exists s outs, PendingAcksProofs.exec MAX_ACK_BLOCKS PendingAcks.init os = Some s /\
                 PendingAcks.run_ops MAX_ACK_BLOCKS PendingAcks.init os = Some outs /\
                 Z.of_nat (length (PendingAcks.ranges s)) <= MAX_ACK_BLOCKS /\
                 length outs = length os.
Proof. apply pending_acks_bounded_lemma. vm_compute. discriminate. Qed.
Print Assumptions C03_pending_acks_bounded_partial.

Theorem C03_pending_acks_insert_keeps_packet : forall M s p now s',
  PendingAcks.insert_one M s p now = Some s' ->
  AckRanges.mem (PendingAcks.ranges s') p = true \/
  (M < Z.of_nat (length (AckRanges.insert (PendingAcks.ranges s) p (p + 1))) /\
   PendingAcks.ranges s' = tl (AckRanges.insert (PendingAcks.ranges s) p (p + 1))).
Proof. exact insert_one_keeps_packet. Qed.
Print Assumptions C03_pending_acks_insert_keeps_packet.

(** Full statement (NOT proved; checked on every run by the correspondence oracle, which is this
    specification evaluated on the implementation's outputs): the ranges are exactly the maximal
    runs of the element-list specification, in which only the lowest run is ever dropped. *)
Definition C03_pending_acks_full : Prop := forall (i : ops) os,
  PendingAcks.decode_ops i = Some os -> Forall PendingAcksProofs.wf_op os ->
  exists s, PendingAcksProofs.exec MAX_ACK_BLOCKS PendingAcks.init os = Some s /\
            PendingAcks.ranges s
            = PendingAcks.runs (fold_left (fun e op => PendingAcks.spec_step op e) i []).

(** * 5. AckFrequencyState. *)
(** F4: the code before the repair panics for a parameter set that validation admits. *)
Theorem C03_ack_frequency_never_panics_refuted :
  exists max_ms min_us rtt,
    AckFrequencyProofs.validated max_ms min_us /\ 0 <= rtt /\
    AckFrequency.candidate_pre_fix (AckFrequency.new (max_ms * 1000)) rtt None (Some min_us) = None /\
    AckFrequency.run_pre_fix [[0; max_ms * 1000]; [2]; [1; rtt; -1; min_us]] = [PANIC].
Proof. exact candidate_pre_fix_refuted. Qed.
Print Assumptions C03_ack_frequency_never_panics_refuted.

Theorem C03_ack_frequency_pre_fix_panics_iff : forall s rtt cfg minad,
  AckFrequency.candidate_pre_fix s rtt cfg minad = None <->
  Z.max rtt AckFrequency.MIN_AUTOMATIC_ACK_DELAY < AckFrequency.opt_default minad 0.
Proof. exact candidate_pre_fix_panics_iff. Qed.
Print Assumptions C03_ack_frequency_pre_fix_panics_iff.

(** After the repair: total for ALL (rtt, min_ack_delay, peer max_ack_delay, config) — no
    hypothesis on the parameters is needed — with the documented bounds, and unchanged outside
    the defect class. *)
Theorem C03_candidate_max_ack_delay_total : forall s rtt cfg minad,
  exists d, AckFrequency.candidate s rtt cfg minad = Some d /\
    AckFrequency.opt_default minad 0 <= d /\
    d <= Z.max (Z.max rtt AckFrequency.MIN_AUTOMATIC_ACK_DELAY) (AckFrequency.opt_default minad 0) /\
    (AckFrequency.opt_default minad 0
       <= AckFrequency.opt_default cfg (AckFrequency.peer_max_ack_delay s)
       <= Z.max rtt AckFrequency.MIN_AUTOMATIC_ACK_DELAY ->
     d = AckFrequency.opt_default cfg (AckFrequency.peer_max_ack_delay s)).
Proof. exact candidate_total. Qed.
Print Assumptions C03_candidate_max_ack_delay_total.

Theorem C03_candidate_agrees_pre_fix : forall s rtt cfg minad d,
  AckFrequency.candidate_pre_fix s rtt cfg minad = Some d ->
  AckFrequency.candidate s rtt cfg minad = Some d.
Proof. exact candidate_agrees_pre_fix. Qed.
Print Assumptions C03_candidate_agrees_pre_fix.

Theorem C03_ack_frequency_never_panics : forall d os,
  Z.of_nat (length os) <= VARINT_MAX + 1 ->
  exists outs, AckFrequency.run_ops AckFrequency.candidate (AckFrequency.new d) os = Some outs /\
               length outs = length os.
Proof. exact ack_frequency_never_panics_lemma. Qed.
Print Assumptions C03_ack_frequency_never_panics.

Example C03_ack_frequency_example :
  AckFrequency.run [[0; 30000]; [2]; [1; 10000; -1; 26000]; [1; 40000; -1; 1000]]
  = [[0; 30000; 30000; 30000]; [0; 0; 30000; 30000; 30000];
     [0; 26000; 30000; 30000; 30000]; [0; 30000; 30000; 30000; 30000]].
Proof. vm_compute. reflexivity. Qed.

(** * 6. The NEW_CONNECTION_ID arm and the queue of pending RETIRE_CONNECTION_ID frames.
    [RetireQueue.run false] is the arm as found, [RetireQueue.run true] the arm after the repair
    (the [Err(InsertError::Retired)] path applies MAX_PENDING_RETIRED_CIDS too). *)
(** Refuted as "bounded" for the code as found: frames for an already retired sequence number are
    queued without any check, one entry per frame. *)
Theorem C03_retire_queue_bounded_refuted : forall n : nat,
  exists os s',
    RetireQueue.run false CID_QUEUE_LEN true false (RetireQueue.init CID_QUEUE_LEN 0) os
      = RetireQueue.Continue s'
    /\ Z.of_nat n < RetireQueue.pending s'.
Proof. exact retire_queue_unbounded. Qed.
Print Assumptions C03_retire_queue_bounded_refuted.

(** Both variants: never a panic, only PROTOCOL_VIOLATION / CONNECTION_ID_LIMIT_ERROR close the
    connection, and at most [10 * LEN + 4] entries are queued besides those pushed on the Retired
    path. *)
Theorem C03_retire_queue_bound_except_retired_path : forall fx cu sv id os,
  Forall RetireQueueProofs.wf_op os ->
  match RetireQueue.run fx CID_QUEUE_LEN cu sv (RetireQueue.init CID_QUEUE_LEN id) os with
  | RetireQueue.Continue s =>
      0 <= RetireQueue.pending s
        <= RetireQueue.max_pending CID_QUEUE_LEN + 4 + RetireQueue.retired_hits s
  | RetireQueue.Close c =>
      c = RetireQueue.PROTOCOL_VIOLATION \/ c = RetireQueue.CONNECTION_ID_LIMIT_ERROR
  | RetireQueue.Panic => False
  end.
Proof. exact (retire_queue_bound_lemma CID_QUEUE_LEN eq_refl). Qed.
Print Assumptions C03_retire_queue_bound_except_retired_path.

(** After the repair, at full strength: for every frame sequence, zero-length or not, client or
    server, the queue never holds more than [10 * LEN + 4] entries. *)
Theorem C03_retire_queue_bounded : forall cu sv id os,
  Forall RetireQueueProofs.wf_op os ->
  match RetireQueue.run true CID_QUEUE_LEN cu sv (RetireQueue.init CID_QUEUE_LEN id) os with
  | RetireQueue.Continue s =>
      0 <= RetireQueue.pending s <= RetireQueue.max_pending CID_QUEUE_LEN + 4
  | RetireQueue.Close c =>
      c = RetireQueue.PROTOCOL_VIOLATION \/ c = RetireQueue.CONNECTION_ID_LIMIT_ERROR
  | RetireQueue.Panic => False
  end.
Proof. exact (retire_queue_bounded_lemma CID_QUEUE_LEN eq_refl). Qed.
Print Assumptions C03_retire_queue_bounded.

Example C03_retire_queue_example :
  match RetireQueue.run true 5 true false (RetireQueue.init 5 0)
          [RetireQueue.Frame 1 1 1; RetireQueue.Frame 0 0 2; RetireQueue.Frame 7 3 3] with
  | RetireQueue.Continue s => RetireQueue.pending s = 7
  | _ => False
  end.
Proof. vm_compute. reflexivity. Qed.

(** ** 4b. PendingAcks at set level: canonical ranges and exact per-operation semantics. *)
Theorem C03_pending_acks_canonical : forall os,
  Forall PendingAcksProofs.wf_op os ->
  exists s outs, PendingAcksProofs.exec MAX_ACK_BLOCKS PendingAcks.init os = Some s /\
                 PendingAcks.run_ops MAX_ACK_BLOCKS PendingAcks.init os = Some outs /\
                 AckRangesProofs.WInv MAX_ACK_BLOCKS s.
Proof. apply pending_acks_canonical_lemma. vm_compute. discriminate. Qed.
Print Assumptions C03_pending_acks_canonical.

(** [insert_one p] on a reachable state: the set becomes S + {p}; only if that needs more than
    [M] ranges is anything dropped, and then exactly the LOWEST run, every element of which is
    below every element kept. *)
Theorem C03_pending_acks_insert_one_spec : forall M s p now s',
  0 <= M -> AckRangesProofs.WInv M s -> 0 <= p -> PendingAcks.insert_one M s p now = Some s' ->
  AckRangesProofs.WInv M s' /\
  let l1 := AckRanges.insert (PendingAcks.ranges s) p (p + 1) in
  AckRangesProofs.wf_from (-1) l1 /\
  (forall x, AckRanges.mem l1 x = AckRanges.mem (PendingAcks.ranges s) x || (x =? p)) /\
  (Z.of_nat (length l1) <= M -> PendingAcks.ranges s' = l1) /\
  (M < Z.of_nat (length l1) ->
     exists a b r, l1 = (a, b) :: r /\ PendingAcks.ranges s' = r /\
       (forall x, AckRanges.mem r x = AckRanges.mem l1 x && (b <=? x)) /\
       (forall x y, AckRangesProofs.in_rng a b x = true -> AckRanges.mem r y = true -> x < y)).
Proof. exact insert_one_spec. Qed.
Print Assumptions C03_pending_acks_insert_one_spec.

Theorem C03_pending_acks_subtract_below_spec : forall M s m s',
  AckRangesProofs.WInv M s -> 0 <= m -> PendingAcks.subtract_below s m = Some s' ->
  AckRangesProofs.WInv M s' /\
  (forall x, AckRanges.mem (PendingAcks.ranges s') x
             = AckRanges.mem (PendingAcks.ranges s) x && (m <? x)).
Proof. exact subtract_below_spec. Qed.
Print Assumptions C03_pending_acks_subtract_below_spec.

Example C03_pending_acks_example :
  PendingAcks.run [[0; 5; 1]; [0; 7; 2]; [0; 6; 3]; [1; 5]; [3]]
  = [[1; 5; 6]; [2; 5; 8]; [1; 5; 8]; [1; 6; 8]; [1; 6; 8]].
Proof. vm_compute. reflexivity. Qed.

(** * 7. Frame legality: frame kind x packet space x receiving side.
    A placement the RFCs forbid is answered with PROTOCOL_VIOLATION, except the listed lenient
    placements (ACK / PATH_RESPONSE in 0-RTT, APPLICATION_CLOSE in Initial/Handshake), which reach
    the ordinary handler or drain the connection; a permitted placement is dispatched, except
    APPLICATION_CLOSE in 0-RTT (PROTOCOL_VIOLATION).  Checked over all 24 x 4 x 2 combinations. *)
Theorem C03_violation_class_table : forall f sp sd,
  match FrameLegality.legal f sp sd with
  | FrameLegality.Unreachable => sp = FrameLegality.ZeroRtt /\ sd = FrameLegality.Client
  | o =>
      (FrameLegality.rfc_permits f sp sd = false ->
         o = FrameLegality.Err FrameLegality.PROTOCOL_VIOLATION \/
         (FrameLegality.lenient f sp sd = true /\
          (o = FrameLegality.Dispatch \/ o = FrameLegality.Drain))) /\
      (FrameLegality.rfc_permits f sp sd = true ->
         (o = FrameLegality.Dispatch \/ o = FrameLegality.Drain) \/
         (FrameLegality.stricter f sp sd = true /\
          o = FrameLegality.Err FrameLegality.PROTOCOL_VIOLATION))
  end.
Proof. exact violation_class_table_lemma. Qed.
Print Assumptions C03_violation_class_table.

Theorem C03_violation_class_table_rows : forall f sp sd, FrameLegality.row_ok f sp sd = true.
Proof. exact row_ok_all. Qed.
Print Assumptions C03_violation_class_table_rows.

Example C03_frame_legality_example :
  FrameLegality.legal FrameLegality.Stream FrameLegality.Initial FrameLegality.Server
    = FrameLegality.Err 10 /\
  FrameLegality.legal FrameLegality.HandshakeDone FrameLegality.OneRtt FrameLegality.Server
    = FrameLegality.Err 10 /\
  FrameLegality.legal FrameLegality.HandshakeDone FrameLegality.OneRtt FrameLegality.Client
    = FrameLegality.Dispatch /\
  length FrameLegality.table = 192%nat.
Proof. vm_compute. repeat split; reflexivity. Qed.
