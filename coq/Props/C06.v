(** C06 — A receiver enforces its own limits and buffers a bounded amount.
    Property theorems only (proofs under Proofs/FlowRecv*.v). Model: Model/FlowRecv.v, tied to
    quinn-proto/src/connection/streams/{state,recv,mod}.rs by the correspondence check on every
    run ([FlowRecv.run] compared verbatim, [FlowRecv.oracle] evaluated on the implementation). *)
From QV Require Import Lib.Tac Lib.Corr Model.FlowRecv Proofs.FlowRecvProofs Proofs.FlowRecvInv.
From QV Require Lib.Bytes Model.DatagramState Proofs.DatagramProofs.
From Coq Require Import List. Import ListNotations.
Open Scope Z_scope.

(** * over_limit_rejected *)

(** A frame for a remotely initiated stream at or beyond the advertised stream count is answered
    with STREAM_LIMIT_ERROR and the state is returned untouched. *)
Theorem C06_stream_limit_rejected : forall id off len fin code final s,
  sid_init id <> side s -> pget (sid_dir id) (max_remote s) <= sid_index id ->
  received true id off len fin s = (s, Err STREAM_LIMIT_ERROR) /\
  received_reset true id code final s = (s, Err STREAM_LIMIT_ERROR).
Proof.
  intros. split; [apply stream_limit_rejected|apply reset_limit_rejected]; assumption.
Qed.
Print Assumptions C06_stream_limit_rejected.

(** STREAM frame on a live stream whose receive half (as the application sees it) is [r]:
    end at or above 2^62, or beyond the advertised stream limit, or new bytes beyond
    [local_max_data - data_recvd] => FLOW_CONTROL_ERROR; data beyond or a FIN disagreeing with a
    known final size, or a first FIN below the high-water mark => FINAL_SIZE_ERROR; in every case
    the state is [quiesce id s]: equal to [s] except that the stream's slot is replaced by its own
    view, so nothing of the frame can ever be read. *)
Theorem C06_over_limit_rejected_stream : forall id off len fin s slot,
  validate_receive_id id s = None ->
  alookup id (recvm s) = Some slot -> is_receiving (rview s slot) = true ->
  let r := rview s slot in
  let e := off + len in
  let rejected c := received true id off len fin s = (quiesce id s, Err c) in
  (2 ^ 62 <= e -> rejected FLOW_CONTROL_ERROR) /\
  (e < 2 ^ 62 -> forall f, final_offset r = Some f -> (f < e \/ (fin = true /\ e <> f)) ->
     rejected FINAL_SIZE_ERROR) /\
  (e < 2 ^ 62 -> final_offset r = None -> fin = true -> e < r_end r -> rejected FINAL_SIZE_ERROR) /\
  (e < 2 ^ 62 ->
     (forall f, final_offset r = Some f -> e <= f /\ (fin = true -> e = f)) ->
     (final_offset r = None -> fin = true -> r_end r <= e) ->
     (r_sent_msd r < e \/ local_max s < data_recvd s + Z.max 0 (e - r_end r)) ->
     rejected FLOW_CONTROL_ERROR).
Proof.
  intros id off len fin s slot V L R r e rejected. subst rejected.
  destruct (ingest_verdict (rview s slot) off len fin (data_recvd s) (local_max s))
    as (H1 & H2 & H3 & H4).
  repeat split; intros; apply (received_over_limit id off len fin s slot V L R); auto.
  - eapply H2; eauto.
Qed.
Print Assumptions C06_over_limit_rejected_stream.

Theorem C06_over_limit_rejected_reset : forall id code final s slot,
  validate_receive_id id s = None -> alookup id (recvm s) = Some slot ->
  let r := rview s slot in
  let rejected c := received_reset true id code final s = (quiesce id s, Err c) in
  (forall f, final_offset r = Some f -> f <> final -> rejected FINAL_SIZE_ERROR) /\
  (final_offset r = None -> final < r_end r -> rejected FINAL_SIZE_ERROR) /\
  ((forall f, final_offset r = Some f -> f = final) -> (final_offset r = None -> r_end r <= final) ->
   (r_sent_msd r < final \/ local_max s < data_recvd s + Z.max 0 (final - r_end r)) ->
   rejected FLOW_CONTROL_ERROR).
Proof.
  intros id code final s slot V L r rejected. subst rejected.
  destruct (reset_verdict (rview s slot) code final (data_recvd s) (local_max s)) as (H1 & H2 & H3).
  repeat split; intros; apply (received_reset_over_limit id code final s slot V L); auto.
  - eapply H1; eauto.
Qed.
Print Assumptions C06_over_limit_rejected_reset.

(** Conversely, every rejection leaves the state unchanged ([s] itself for an invalid id). *)
Theorem C06_rejected_frame_changes_nothing : forall id off len fin code final s s' c,
  (received true id off len fin s = (s', Err c) -> s' = s \/ s' = quiesce id s) /\
  (received_reset true id code final s = (s', Err c) -> s' = s \/ s' = quiesce id s).
Proof.
  intros. split; intro H.
  - destruct (received_error_cases _ _ _ _ _ _ _ H) as [[_ E]|(_ & E & _)]; auto.
  - destruct (received_reset_error_cases _ _ _ _ _ _ H) as [[_ E]|(_ & E & _)]; auto.
Qed.
Print Assumptions C06_rejected_frame_changes_nothing.

Definition reach (cfg : list Z) (i : ops) : option st :=
  match cfg with
  | [0; sd; mru; mrb; rw; srw; pmb; pmu] =>
      Some (fst (run_from (step true) (init sd mru mrb rw srw pmb pmu) i))
  | _ => None
  end.

(** * accounting_exact (all op sequences)
    For every configuration and every sequence of ops of the component (STREAM / RESET_STREAM
    frames with non-negative offsets, budgeted ordered and unordered reads, stop, received_reset,
    set_receive_window, control-frame transmission, open, accept, SendStream::reset, reset_acked,
    in any order), the reached state satisfies [Inv]:
    [local_max_data <= u64::MAX], [data_recvd <= local_max_data],
    [data_recvd = sum of the final ends of closed streams + sum over the map of end (final size
    once reset)], and for every open stream [0 <= end <= final size <= sent_max_stream_data] and the
    assembler invariant (everything buffered or delivered lies below [end]); hence
    [0 <= bytes_read <= end].  No premise on panics: the invariant does not depend on them. *)
Theorem C06_accounting_exact : forall sd mru mrb rw srw pmb pmu i s,
  0 <= rw <= U64MAX -> 0 <= srw -> Forall op_wf i ->
  reach [0; sd; mru; mrb; rw; srw; pmb; pmu] i = Some s ->
  Inv s /\
  Forall (fun p => match snd p with SOpen r => 0 <= bytes_read r <= r_end r | _ => True end) (recvm s).
Proof.
  intros sd mru mrb rw srw pmb pmu i s Hr Hs W H. unfold reach in H. inversion H; subst; clear H.
  pose proof (run_from_Inv i _ (init_Inv sd mru mrb rw srw pmb pmu Hr Hs) W) as I.
  split; [exact I|apply Inv_reads_bounded; exact I].
Qed.
Print Assumptions C06_accounting_exact.

Definition cfg_ok (cfg : list Z) : Prop :=
  match cfg with
  | [0; sd; mru; mrb; rw; srw; pmb; pmu] => 0 <= rw < 2 ^ 62 /\ 0 <= srw < 2 ^ 62 /\ 0 <= mru /\ 0 <= mrb
  | _ => False
  end.

(** Remaining full statements (over all op sequences) — not proved; their observable content is
    what [FlowRecv.oracle] checks on the implementation on every run. *)
Definition C06_buffered_bounded_full : Prop :=
  forall cfg i s, cfg_ok cfg -> reach cfg i = Some s -> panic s = false ->
    sum_unread (recvm s) <= rwin s + debt s /\
    Forall (fun p => match snd p with
                     | SOpen r => r_stopped r = false -> is_receiving r = true ->
                                  r_end r - bytes_read r <= swin s
                     | _ => True end) (recvm s).
Definition C06_credit_only_for_consumed_full : Prop :=
  forall cfg i s, cfg_ok cfg -> reach cfg i = Some s -> panic s = false ->
    (* every byte is credited exactly once, when read, discarded by stop or skipped by a reset *)
    g_credits s = g_closed s + sum_consumed_m (recvm s) /\
    (* and MAX_DATA only ever reflects the configured windows plus those credits *)
    local_max s <= nth 4 cfg 0 + g_expand s + g_credits s.
Definition C06_stream_credit_only_when_terminal_full : Prop :=
  forall cfg i s, cfg_ok cfg -> reach cfg i = Some s -> panic s = false ->
    forall d, (d = 0 \/ d = 1) ->
      (* the window of permitted streams is kept full, and [max_remote] has grown by exactly the
         number of remotely initiated streams of that direction with no live half left *)
      pget d (alloc s) = pget d (max_conc s) /\
      pget d (max_remote s) - pget d (max_conc s) =
        Z.of_nat (length (filter (fun idx =>
          negb (amem (mk_sid (1 - side s) d idx) (recvm s) || amem (mk_sid (1 - side s) d idx) (sendm s)))
          (map Z.of_nat (seq 0 (Z.to_nat (pget d (max_remote s))))))).

(** * Refutations on the code before the repairs (witnesses replayed on the real code) *)
Definition n1_witness : ops :=
  [[0;0;4;4;1000;100;4;4]; [1;3;0;32;0]; [4;3;0]; [2;3;0;32]; [7;1;0;0]].
Definition n1b_witness : ops :=
  [[0;0;4;4;1000;100;4;4]; [1;3;0;32;0]; [2;3;0;48]; [4;3;0]; [7;1;0;0]].
Definition n3_witness : ops :=
  [[0;0;4;4;1000;100;4;4]; [1;3;0;8;0]; [1;3;0;4;1]; [3;3;1;100]; [3;3;1;100]].
Definition f2_witness : ops :=
  [[0;0;4;4;1000;100;4;4]; [1;3;0;10;1]; [3;3;0;4]; [3;3;1;4]; [3;3;0;100]; [7;0;0;1]].

(** N1: credit issued twice for a stream that is stopped and reset (both orders). *)
Theorem C06_credit_only_for_consumed_refuted :
  exists i, FlowRecv.oracle i (run_unfixed i) = false /\ FlowRecv.oracle i (run i) = true.
Proof. exists n1_witness. vm_compute. split; reflexivity. Qed.
Print Assumptions C06_credit_only_for_consumed_refuted.
Theorem C06_credit_only_for_consumed_refuted_reset_first :
  exists i, FlowRecv.oracle i (run_unfixed i) = false /\ FlowRecv.oracle i (run i) = true.
Proof. exists n1b_witness. vm_compute. split; reflexivity. Qed.
Print Assumptions C06_credit_only_for_consumed_refuted_reset_first.
(** N3: a first FIN below the high-water mark was accepted. *)
Theorem C06_over_limit_rejected_refuted :
  exists i, FlowRecv.oracle i (run_unfixed i) = false /\ FlowRecv.oracle i (run i) = true.
Proof. exists n3_witness. vm_compute. split; reflexivity. Qed.
Print Assumptions C06_over_limit_rejected_refuted.
(** F2: the stream dropped on IllegalOrderedRead never returns its stream credit. *)
Theorem C06_stream_credit_refuted :
  exists i, FlowRecv.oracle i (run_unfixed i) = false /\ FlowRecv.oracle i (run i) = true.
Proof. exists f2_witness. vm_compute. split; reflexivity. Qed.
Print Assumptions C06_stream_credit_refuted.

(** * Non-vacuity *)
Example C06_example_flow_control :
  (* window 16 per stream: a frame ending at 17 is rejected, one ending at 16 accepted *)
  let s := init 0 1 0 100 16 0 0 in
  snd (received true 3 0 17 false s) = Err FLOW_CONTROL_ERROR /\
  snd (received true 3 0 16 false s) = Ok false /\
  snd (received true 7 0 1 false s) = Err STREAM_LIMIT_ERROR /\
  data_recvd (fst (received true 3 0 16 false s)) = 16.
Proof. vm_compute. repeat split; reflexivity. Qed.

(** * Unread DATAGRAM payloads are bounded by the configured datagram receive buffer
    (model Model/DatagramState.v, tied to connection/datagrams.rs by the `datagrams`
    correspondence; proofs shared with C16).  An oversized DATAGRAM frame (or any DATAGRAM frame
    when datagrams are disabled: no window) is refused — [Connection] turns that into
    PROTOCOL_VIOLATION — and leaves the buffer untouched; an accepted one evicts the OLDEST
    unread datagrams, as many as needed and no more, so that the bytes held for the application
    never exceed the window [x], whatever sizes arrived before. *)
Theorem C06_datagram_buffer_bounded : forall s d x,
  DatagramProofs.Inv s -> Bytes.zlen d <= x ->
  exists s' pre kept,
    DatagramState.received s d (Some x) = DatagramState.Ok (s', Some (DatagramState.recv_buffered s =? 0)) /\
    DatagramState.incoming s = pre ++ kept /\ DatagramState.incoming s' = kept ++ [d] /\
    DatagramState.recv_buffered s' = DatagramState.sum_len (DatagramState.incoming s') /\
    DatagramState.recv_buffered s' <= x.
Proof.
  intros s d x I L.
  destruct (DatagramProofs.receive_overflow_drops_oldest s d x I L) as (s' & pre & kept & A & B & C & D & E & _).
  exists s', pre, kept. repeat split; assumption.
Qed.
Print Assumptions C06_datagram_buffer_bounded.

Theorem C06_oversized_datagram_refused : forall s d w,
  (match w with None => True | Some x => x < Bytes.zlen d end) ->
  DatagramState.received s d w = DatagramState.Ok (s, None).
Proof. exact DatagramProofs.receive_rejects. Qed.
Print Assumptions C06_oversized_datagram_refused.
