(* placeholder, theorems follow *)
From QV Require Import Lib.Tac Sys.Trace Sys.MonC08.
