(** C08 — Every connection terminates cleanly and exactly once.
    Property theorems over the lifecycle model Model/Lifecycle.v (read from
    quinn-proto/src/connection/mod.rs; tied to the code by the trace monitors Sys/MonC08.v and
    Sys/MonLifecycle.v on every run, and by the [idle_negotiate] hook for the pure negotiation).
    All theorems quantify over ALL operation sequences [h] from [Connection::new] ([init], any
    local configuration) with arbitrary environment inputs: instants, PTO values, which keys
    exist, anti-amplification / congestion / pacing state, what each received packet turned out
    to be. A peer that crashes = any history after which no [OpPacket] occurs.

    [KnownClass]: histories in which an ERROR RESULT of packet processing (stateless reset,
    transport error) arrives while the connection is already closed. [handle_packet] then stores
    the error (and the state derived from it) unconditionally — known_findings.txt, key
    lost-after-local-close; the repository's own test client_stateless_reset pins it. The same
    predicate excludes the confidentiality limit being EXCEEDED (not merely reached) while the
    close packet is built (> 2^23 packets under handshake keys; unreachable). Proofs:
    Proofs/LifecycleInv.v, Proofs/LifecycleProofs.v. *)
From QV Require Import Lib.Tac Lib.Corr Model.Lifecycle Proofs.LifecycleInv Proofs.LifecycleProofs.
Open Scope Z_scope.

Definition KnownClass (idle_ms ka_us : option Z) (h : list op) : Prop :=
  KnownClassFrom (init idle_ms ka_us) h.

Lemma not_known : forall i k h, ~ KnownClass i k h -> guarded (init i k) h = true.
Proof. intros i k h N. unfold KnownClass, KnownClassFrom in N. destruct (guarded (init i k) h); congruence. Qed.

(** * ConnectionLost: at most once; never after a local close; with the peer's code *)
Theorem C08_lost_reported_at_most_once_except_known : forall i k h,
  ~ KnownClass i k h -> count is_lost (outs_from (init i k) h) <= 1.
Proof.
  intros i k h N. pose proof (lost_bound h (init i k) (inv_init i k) (not_known i k h N)) as B.
  destruct (can_report (init i k)); lia.
Qed.
Print Assumptions C08_lost_reported_at_most_once_except_known.

(** After [close()] took effect (the connection was not yet closed), [poll] never yields
    ConnectionLost, whatever happens next (outside the known class). *)
Theorem C08_never_lost_after_local_close : forall i k h1 now code pto h2,
  ~ KnownClass i k (h1 ++ OpClose now code pto :: h2) ->
  is_closed (st (run_state (init i k) h1)) = false ->
  count is_lost (outs_from (run_state (init i k) (h1 ++ [OpClose now code pto])) h2) = 0.
Proof.
  intros i k h1 now code pto h2 N C.
  pose proof (not_known _ _ _ N) as G.
  replace (h1 ++ OpClose now code pto :: h2) with ((h1 ++ [OpClose now code pto]) ++ h2) in G
    by (rewrite <- app_assoc; reflexivity).
  rewrite guarded_app in G. apply andb_true_iff in G. destruct G as [G1 G2].
  pose proof (inv_run _ _ (inv_init i k) G1) as I.
  pose proof (lost_bound h2 _ I G2) as B.
  rewrite guarded_app in G1. apply andb_true_iff in G1. destruct G1 as [G0 _].
  pose proof (inv_run _ _ (inv_init i k) G0) as I0.
  pose proof (open_no_error _ I0 C) as E0.
  assert (X : can_report (run_state (init i k) (h1 ++ [OpClose now code pto])) = false).
  { unfold run_state. rewrite fold_left_app. cbn [fold_left]. fold (run_state (init i k) h1).
    unfold step', step. cbn [step_gen fst]. unfold close_inner, can_report. rewrite C. prj.
    rewrite E0. reflexivity. }
  rewrite X in B. pose proof (count_nonneg is_lost (outs_from (run_state (init i k) (h1 ++ [OpClose now code pto])) h2)). lia.
Qed.
Print Assumptions C08_never_lost_after_local_close.

(** A peer close received by a live connection is reported with exactly the code the frame
    carried (the frame of an Initial/Handshake packet carries what the SENDER put there: see
    [C08_local_close_announced_at_once] — APPLICATION_ERROR in place of an application code);
    the very next [poll] without other pending events delivers it, and whatever is polled later
    never reports a different reason. *)
Theorem C08_peer_close_reported_with_its_code : forall i k h1 now r pi pc sr h2,
  ~ KnownClass i k (h1 ++ OpPacket now (PCloseData r) pi pc sr :: h2) ->
  is_closed (st (run_state (init i k) h1)) = false ->
  let s := run_state (init i k) (h1 ++ [OpPacket now (PCloseData r) pi pc sr]) in
  snd (step s (OpPoll false)) = OLost (peer_reason r) /\
  Forall (fun o => forall r', o = OLost r' -> r' = peer_reason r) (outs_from s h2).
Proof.
  intros i k h1 now r pi pc sr h2 N C s.
  pose proof (not_known _ _ _ N) as G.
  replace (h1 ++ OpPacket now (PCloseData r) pi pc sr :: h2)
    with ((h1 ++ [OpPacket now (PCloseData r) pi pc sr]) ++ h2) in G
    by (rewrite <- app_assoc; reflexivity).
  rewrite guarded_app in G. apply andb_true_iff in G. destruct G as [G1 G2].
  pose proof (inv_run _ _ (inv_init i k) G1) as I. fold s in I, G2.
  assert (E : error s = Some (peer_reason r) /\ is_closed (st s) = true).
  { unfold s, run_state. rewrite fold_left_app. cbn [fold_left]. fold (run_state (init i k) h1).
    set (s0 := run_state (init i k) h1) in *.
    unfold step', step. cbn [step_gen fst]. rewrite hp_split. cbn [Lifecycle.authed andb].
    rewrite C. cbn [negb]. unfold hp_rest. rewrite auth_st.
    cbn [process]. rewrite auth_st.
    destruct (st s0) eqn:Es; try discriminate C; prj; auto. }
  destruct E as [E Cl]. split.
  - cbn [step step_gen poll]. unfold poll. rewrite E. reflexivity.
  - pose proof (lost_is_recorded h2 s I G2 Cl) as F. eapply Forall_impl; [|exact F].
    cbn. intros a Ha r' Er. specialize (Ha r' Er). congruence.
Qed.
Print Assumptions C08_peer_close_reported_with_its_code.

(** The known class is real: close(); a stateless reset arrives; poll reports ConnectionLost. *)
Theorem C08_lost_after_local_close_refuted :
  let h := [OpPacket 0 PEstablish 1000 1000 true; OpClose 10 7 1000;
            OpPacket 20 PReset 1000 1000 true; OpPoll false] in
  KnownClass (Some 30000) None h /\
  outs_from (init (Some 30000) None) h = [ONone; ONone; ONone; OLost RReset].
Proof. vm_compute. split; reflexivity. Qed.
Print Assumptions C08_lost_after_local_close_refuted.

(** * Drained exactly once *)
(** [Drained] events emitted so far plus those still queued = 1 if the state is Drained, else 0;
    hence at most one is ever delivered, and exactly one path step pushes it. *)
Theorem C08_drained_once : forall i k h, ~ KnownClass i k h ->
  let s := run_state (init i k) h in
  count is_epdrained (outs_from (init i k) h) + epq s = (if is_drained (st s) then 1 else 0) /\
  count is_epdrained (outs_from (init i k) h) <= 1 /\ 0 <= epq s.
Proof.
  intros i k h N s.
  destruct (drained_count h (init i k) (inv_init i k) (not_known i k h N)) as [A _].
  fold s in A. unfold newly_drained in A. cbn [init st epq is_drained negb] in A.
  rewrite andb_true_r in A.
  pose proof (inv_run _ _ (inv_init i k) (not_known i k h N)) as (_ & _ & _ & _ & Q & _).
  fold s in Q. pose proof (count_nonneg is_epdrained (outs_from (init i k) h)).
  destruct (is_drained (st s)); repeat split; lia.
Qed.
Print Assumptions C08_drained_once.

(** Drained is absorbing (the connection is never resurrected) outside the known class. *)
Theorem C08_drained_is_final : forall i k h1 h2, ~ KnownClass i k (h1 ++ h2) ->
  st (run_state (init i k) h1) = Drained -> st (run_state (init i k) (h1 ++ h2)) = Drained.
Proof.
  intros i k h1 h2 N D. pose proof (not_known _ _ _ N) as G. rewrite guarded_app in G.
  apply andb_true_iff in G. destruct G as [G1 G2].
  pose proof (inv_run _ _ (inv_init i k) G1) as I.
  destruct (drained_count h2 _ I G2) as [_ B]. unfold run_state in *. rewrite fold_left_app.
  rewrite D in B. specialize (B eq_refl). destruct (st (fold_left step' h2 _)); try discriminate B. reflexivity.
Qed.
Print Assumptions C08_drained_is_final.

(** Inside the known class a Drained connection can come back and be drained twice. *)
Theorem C08_drained_twice_refuted_in_known_class :
  let h := [OpPacket 0 (PTransportError AEAD_LIMIT_REACHED false) 1 1 true;
            OpPacket 1 (PTransportError 10 false) 1 1 true; OpPacket 2 PReset 1 1 true;
            OpPollEndpoint; OpPollEndpoint] in
  KnownClass None None h /\
  count is_epdrained (outs_from (init None None) h) = 2.
Proof. vm_compute. split; reflexivity. Qed.
Print Assumptions C08_drained_twice_refuted_in_known_class.

(** * The Close timer bounds the drain *)
(** In every reachable state: the operation (at instant [op_time o], with the environment's PTO
    [op_pto o]) that takes a live connection into Closed/Draining arms Timer::Close at exactly
    [op_time o + 3 * op_pto o]; no later operation moves that deadline while the connection is
    closing; and [handle_timeout] at or after the deadline yields Drained, pushing the one
    Drained event. So the connection is drained within three probe timeouts of its close
    provided [handle_timeout] is called when [poll_timeout] says so. *)
Theorem C08_close_timer_bounds_drain : forall i k h, ~ KnownClass i k h ->
  let s := run_state (init i k) h in
  (forall o, guard s o = true -> is_closed (st s) = false -> is_closing (st (step' s o)) = true ->
     t_close (step' s o) = Some (op_time o + 3 * op_pto o)) /\
  (forall o, guard s o = true -> is_closing (st s) = true -> is_closing (st (step' s o)) = true ->
     t_close (step' s o) = t_close s) /\
  (is_closing (st s) = true -> exists d, t_close s = Some d /\
     forall now, d <= now -> st (handle_timeout s now) = Drained /\
                             epq (handle_timeout s now) = epq s + 1).
Proof.
  intros i k h N s. pose proof (inv_run _ _ (inv_init i k) (not_known i k h N)) as I. fold s in I.
  split; [|split].
  - intros o G. apply (close_timer_step s o I G).
  - intros o G. apply (close_timer_step s o I G).
  - intros C. pose proof I as (_ & _ & I3 & _). destruct (t_close s) as [d|] eqn:T.
    + exists d. split; [reflexivity|]. intros now L. apply (close_timer_fires s d now); auto.
    + exfalso. apply (I3 C). reflexivity.
Qed.
Print Assumptions C08_close_timer_bounds_drain.

(** * After Drained: silence *)
(** No Close / Idle / KeepAlive timer is armed (a KeyDiscard deadline is not modelled and
    triggers no output), [poll_transmit] returns None whatever the environment, [handle_timeout]
    changes nothing, no further Drained event is produced (C08_drained_once) and ConnectionLost
    is not repeated (C08_lost_reported_at_most_once_except_known). That [poll] delivers no
    stream data any more is NOT a theorem of this model (stream events are the [other] input):
    it is checked on the traces only (MonC08: no EVENT record after Drained). *)
Theorem C08_after_drain_silence : forall i k h, ~ KnownClass i k h ->
  let s := run_state (init i k) h in
  st s = Drained ->
  t_close s = None /\ t_idle s = None /\ t_ka s = None /\
  (forall g now e, poll_transmit_gen g s now e = (s, ONone)) /\
  (forall now, handle_timeout s now = s).
Proof.
  intros i k h N s D. apply drained_silent; [|exact D].
  apply inv_run; [apply inv_init|apply not_known; exact N].
Qed.
Print Assumptions C08_after_drain_silence.

(** * Idle timeout window *)
(** TimedOut is recorded only by [handle_timeout(now)] with the Idle deadline [d <= now]. *)
Theorem C08_timed_out_only_at_deadline : forall i k h o, ~ KnownClass i k (h ++ [o]) ->
  let s := run_state (init i k) h in
  error (step' s o) = Some RTimedOut -> error s <> Some RTimedOut ->
  exists now d, o = OpTimeout now /\ t_idle s = Some d /\ d <= now.
Proof.
  intros i k h o N s. pose proof (not_known _ _ _ N) as G. rewrite guarded_app in G.
  apply andb_true_iff in G. destruct G as [G1 G2]. cbn [guarded] in G2. rewrite andb_true_r in G2.
  apply timedout_step; [apply inv_run; [apply inv_init|exact G1]|exact G2].
Qed.
Print Assumptions C08_timed_out_only_at_deadline.

(** Lower bound: when the instants supplied by the environment do not go backwards ([mono]) and
    no later transport-parameter update ENLARGES the timeout of an already armed timer
    ([stable_run]; see the note below), every armed Idle deadline [d] lies at least the
    negotiated idle timeout after EVERY authenticated packet the connection accepted — in
    particular after the last one. With the previous theorem: TimedOut is reported no earlier
    than the idle timeout after the last packet was received. *)
Theorem C08_idle_window_lower : forall i k h d idle,
  mono 0 h = true -> stable_run (init i k) h = true ->
  let s := run_state (init i k) h in
  t_idle s = Some d -> idle_timeout s = Some idle ->
  Forall (fun t => t + idle <= d) (rx_times (init i k) h).
Proof.
  intros i k h d idle M S s Td Ti.
  assert (K0 : K (init i k) []) by (intros ? ? ? ?; constructor).
  pose proof (idle_lower h (init i k) [] 0 K0 (Forall_nil _) M S) as X. cbn [app] in X.
  exact (X d idle Td Ti).
Qed.
Print Assumptions C08_idle_window_lower.

(** Upper bound: every operation leaves the Idle deadline alone, stops the timer, or — only an
    accepted authenticated packet or the first ack-eliciting transmission after one
    ([restarts]) — re-arms it at exactly [instant + max(idle_timeout, 3 * PTO)]. So the deadline
    in force is (last restarting event) + max(idle, 3 PTO), and a timer serviced on time reports
    TimedOut no later than that. *)
Theorem C08_idle_window_upper : forall s o,
  t_idle (step' s o) = None \/ t_idle (step' s o) = t_idle s \/
  exists idle, idle_timeout s = Some idle /\ restarts s o = true /\
    t_idle (step' s o) = Some (op_time o + Z.max idle (3 * op_pto_idle o)).
Proof.
  intros s o. destruct (idle_step s o) as [_ [B|[[B _]|B]]]; auto.
Qed.
Print Assumptions C08_idle_window_upper.

(** A connection that keeps receiving authenticated packets never times out: at any instant
    less than the idle timeout after SOME accepted packet, [handle_timeout] does not record
    TimedOut. (Keep-alive: the KeepAlive timer only queues a PING; what keeps the connection
    alive is the peer's authenticated acknowledgement, an [OpPacket].) *)
Theorem C08_fed_connection_never_times_out : forall i k h idle t now,
  ~ KnownClass i k h -> mono 0 h = true -> stable_run (init i k) h = true ->
  let s := run_state (init i k) h in
  idle_timeout s = Some idle -> In t (rx_times (init i k) h) -> now < t + idle ->
  error s <> Some RTimedOut -> error (handle_timeout s now) <> Some RTimedOut.
Proof.
  intros i k h idle t now N M S s Ti IN L E0 E1.
  pose proof (not_known _ _ _ N) as G.
  pose proof (inv_run _ _ (inv_init i k) G) as I. fold s in I.
  destruct (timedout_step s (OpTimeout now) I eq_refl E1 E0) as (now' & d & Eo & Td & Ld).
  inversion Eo; subst now'.
  pose proof (C08_idle_window_lower i k h d idle M S Td Ti) as F.
  rewrite Forall_forall in F. specialize (F t IN). lia.
Qed.
Print Assumptions C08_fed_connection_never_times_out.

(** Note on [stable_run]. [reset_idle_timeout] returns early when [idle_timeout] is None and
    never re-computes an armed deadline when [set_peer_params] changes the timeout. For a
    server (parameters arrive with the first packet, negotiated <= local) and a 1-RTT client the
    premise always holds. A 0-RTT client first negotiates with the REMEMBERED parameters; if the
    server's real max_idle_timeout is larger, the timer armed under the old value stays until
    the next packet restarts it.
    When the server's real value is 0 while the client has none, the code AS FOUND kept the
    timer armed under the old value for good: TimedOut although the negotiated idle timeout is
    "none", whatever traffic follows (witness below, first found on this model, then replayed on
    the real code by sim_c08 with CLIENT_IDLE_MS = 0, SERVER_IDLE2_MS = 0, ZERO_RTT: the
    client reported TimedOut in the middle of a transfer). Repaired in /repo ("fix: stop the idle
    timer when the negotiated idle timeout becomes disabled"); the model follows the repaired
    code, [set_peer_params_prefix] is the code as found. *)
Example C08_stale_idle_timer_refuted_before_fix :
  let s1 := set_peer_params_prefix (init None None) (Some 1000) in
  let s2 := handle_packet s1 0 POrdinary 1 1 true in
  let s3 := set_peer_params_prefix s2 (Some 0) in
  let s4 := handle_packet s3 500000 POrdinary 1 1 true in
  let s5 := handle_timeout s4 1000000 in
  idle_timeout s5 = None /\ snd (poll s5 false) = OLost RTimedOut.
Proof. vm_compute. split; reflexivity. Qed.

Example C08_stale_idle_timer_repaired :
  let h := [OpPeerParams (Some 1000); OpPacket 0 POrdinary 1 1 true; OpPeerParams (Some 0);
            OpPacket 500000 POrdinary 1 1 true; OpTimeout 1000000; OpPoll false] in
  idle_timeout (run_state (init None None) h) = None /\
  outs_from (init None None) h = [ONone; ONone; ONone; ONone; ONone; ONone].
Proof. vm_compute. split; reflexivity. Qed.

(** For every history: while no idle timeout is negotiated the Idle timer is not armed, hence
    (with [C08_timed_out_only_at_deadline]) TimedOut is never reported by a connection whose
    negotiated idle timeout is "none". *)
Theorem C08_no_negotiated_timeout_no_idle_timer : forall i k h,
  let s := run_state (init i k) h in
  idle_timeout s = None -> t_idle s = None.
Proof. intros i k h. exact (idle_armed_run h _ (idle_armed_init i k)). Qed.
Print Assumptions C08_no_negotiated_timeout_no_idle_timer.

Theorem C08_timed_out_needs_negotiated_timeout : forall i k h o, ~ KnownClass i k (h ++ [o]) ->
  let s := run_state (init i k) h in
  error (step' s o) = Some RTimedOut -> error s <> Some RTimedOut ->
  exists idle, idle_timeout s = Some idle.
Proof.
  intros i k h o N s E E0.
  destruct (C08_timed_out_only_at_deadline i k h o N E E0) as (now & d & _ & Td & _).
  destruct (idle_timeout s) as [x|] eqn:I; [eexists; reflexivity|].
  pose proof (C08_no_negotiated_timeout_no_idle_timer i k h I) as T. subst s. rewrite T in Td. discriminate Td.
Qed.
Print Assumptions C08_timed_out_needs_negotiated_timeout.

(** [negotiate_max_idle_timeout] (tied to the Rust function by the [idle_negotiate] hook):
    commutative, 0 = absent, the minimum of two present values, the present one otherwise. *)
Theorem C08_negotiate_idle_laws :
  (forall x y, negotiate x y = negotiate y x) /\
  (forall x y, absent x = true -> negotiate x y = negotiate None y) /\
  (forall x y, negotiate x y = None <-> absent x = true /\ absent y = true) /\
  (forall a b, a <> 0 -> b <> 0 -> negotiate (Some a) (Some b) = Some (1000 * Z.min a b)) /\
  (forall a y, a <> 0 -> absent y = true -> negotiate (Some a) y = Some (1000 * a)).
Proof.
  split; [exact negotiate_comm|]. split; [exact negotiate_absent|].
  split; [exact negotiate_none|]. split; [exact negotiate_min|exact negotiate_one].
Qed.
Print Assumptions C08_negotiate_idle_laws.

(** * A local close is announced at once *)
(** After [close()] on a live connection the next [poll_transmit] — whatever the congestion /
    pacing gate ([gate_blocked], [ack_eliciting] are arbitrary), provided the highest space has
    keys, the path is not anti-amplification blocked and the confidentiality limit is not
    exceeded — emits the close packet(s), clears the flag, and the frame of the highest space
    announces the application's code in the Data space and APPLICATION_ERROR (no reason) in the
    Initial / Handshake spaces. This is the repaired F1. *)
Theorem C08_local_close_announced_at_once : forall s now code pto now' e,
  is_closed (st s) = false -> has_keys e (highest e) = true ->
  amp_blocked e = false -> conf e <> 2 ->
  exists fr,
    poll_transmit (close_inner s now pto (CApp code)) now' e =
      (set_close (close_inner s now pto (CApp code)) false, OTxClose fr) /\
    In (highest e, if highest e =? 2 then CApp code else CTransport APPLICATION_ERROR) fr /\
    (forall sp a, In (sp, a) fr -> a = if sp =? 2 then CApp code else CTransport APPLICATION_ERROR).
Proof. exact local_close_announced. Qed.
Print Assumptions C08_local_close_announced_at_once.

(** With the gate as it was before the repair (poll_transmit_gen true) a window-limited sender
    with queued data announces nothing. *)
Theorem C08_local_close_announced_refuted_before_fix :
  exists s now code pto now' e,
    is_closed (st s) = false /\ has_keys e (highest e) = true /\ amp_blocked e = false /\
    conf e <> 2 /\
    poll_transmit_gen true (close_inner s now pto (CApp code)) now' e =
      (close_inner s now pto (CApp code), ONone).
Proof.
  exists (set_st (init (Some 30000) None) Established), 100, 7, 1000, 100,
    {| keys_i := false; keys_h := false; keys_d := true; highest := 2; amp_blocked := false;
       gate_blocked := true; ack_eliciting := true; data := true; pto_tx := 1000; conf := 0 |}.
  vm_compute. repeat split; try reflexivity; discriminate.
Qed.
Print Assumptions C08_local_close_announced_refuted_before_fix.

(** * Non-vacuity *)
(** A full life: handshake, peer parameters, traffic, local close announced in the Data space,
    the peer's close answers, Close timer fires, the Drained event is delivered once. *)
Example C08_example_local_close :
  let e := {| keys_i := false; keys_h := false; keys_d := true; highest := 2; amp_blocked := false;
              gate_blocked := true; ack_eliciting := true; data := true; pto_tx := 40000; conf := 0 |} in
  let h := [OpPacket 0 POrdinary 999000 999000 true; OpPeerParams (Some 10000);
            OpPacket 30000 PEstablish 999000 999000 true; OpTransmit 30000 e;
            OpClose 50000 7 40000; OpTransmit 50000 e; OpTransmit 50000 e;
            OpPacket 80000 (PCloseData (CTransport 0)) 40000 40000 true;
            OpTimeout 169999; OpTimeout 170000; OpPoll false; OpPollEndpoint; OpPollEndpoint;
            OpTransmit 170000 e] in
  guarded (init (Some 30000) (Some 5000000)) h = true /\ mono 0 h = true /\
  stable_run (init (Some 30000) (Some 5000000)) h = true /\
  outs_from (init (Some 30000) (Some 5000000)) h =
    [ONone; ONone; ONone; ONone (* data held back: window full *); ONone;
     OTxClose [(2, CApp 7)] (* the close is not *); ONone; ONone; ONone; ONone;
     ONone; OEpDrained; ONone; ONone] /\
  st (run_state (init (Some 30000) (Some 5000000)) h) = Drained.
Proof. vm_compute. repeat split; reflexivity. Qed.

(** Peer close before 1-RTT, then idle-timeout of another connection whose peer went silent. *)
Example C08_example_peer_close_and_timeout :
  let h1 := [OpPacket 0 POrdinary 999000 999000 true;
             OpPacket 10 (PCloseEarly (CTransport APPLICATION_ERROR)) 999000 999000 true;
             OpPoll false; OpPoll false; OpTimeout 2997010; OpPollEndpoint] in
  let h2 := [OpPeerParams (Some 1000); OpPacket 0 POrdinary 100000 100000 true;
             OpPacket 5000 PEstablish 100000 100000 true; OpTimeout 999999; OpTimeout 1005000;
             OpPoll false; OpPollEndpoint] in
  outs_from (init (Some 30000) None) h1 =
    [ONone; ONone; OLost (RConnClosed APPLICATION_ERROR); ONone; ONone; OEpDrained] /\
  guarded (init (Some 30000) None) h1 = true /\
  outs_from (init (Some 30000) None) h2 = [ONone; ONone; ONone; ONone; ONone; OLost RTimedOut; OEpDrained] /\
  rx_times (init (Some 30000) None) h2 = [0; 5000] /\
  guarded (init (Some 30000) None) h2 = true /\ mono 0 h2 = true /\
  stable_run (init (Some 30000) None) h2 = true.
Proof. vm_compute. repeat split; reflexivity. Qed.

Example C08_example_negotiate :
  negotiate (Some 30000) (Some 10000) = Some 10000000 /\ negotiate None (Some 0) = None /\
  negotiate (Some 0) (Some 2) = Some 2000 /\ negotiate (Some 5) None = Some 5000.
Proof. vm_compute. repeat split; reflexivity. Qed.
