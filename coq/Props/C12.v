(** C12 — Sending respects the congestion window; loss accounting balances (component level).
    Property theorems only: each is closed by [exact] of a lemma proved under Proofs/, followed by
    [Print Assumptions]. Models: Model/NewReno.v (exact), Model/Cubic.v, Model/Bbr.v (relational:
    float outcomes are oracle values, the theorems quantify over all of them), tied to the code by
    the correspondence check on every run. *)
From QV Require Import Lib.Tac Lib.Chk Lib.Corr Proofs.ChkProofs.
From QV Require Model.NewReno Model.Cubic Model.Bbr.
From QV Require Proofs.NewRenoProofs Proofs.CubicProofs Proofs.BbrProofs.
Open Scope Z_scope.

(** controller_floor. A history is a list of calls (opcode :: u64 arguments) each paired with the
    outcome(s) of the float computations of that call, universally quantified. [steps] returns
    [None] exactly when a u64 operation overflows (the debug build panics). *)
Theorem C12_controller_floor_newreno : forall w m l s',
  0 <= m -> 2 * m <= w ->
  Forall (fun p => wf_op (fst p)) l ->
  NewReno.steps (NewReno.build w m) l = Some s' ->
  2 * NewReno.mtu s' <= NewReno.window s'.
Proof. exact NewRenoProofs.newreno_floor. Qed.
Print Assumptions C12_controller_floor_newreno.

Theorem C12_controller_floor_cubic : forall w m l s',
  0 <= m -> 2 * m <= w ->
  Forall (fun p => wf_op (fst p)) l ->
  Cubic.steps (Cubic.build w m) l = Some s' ->
  2 * Cubic.mtu s' <= Cubic.window (Cubic.cur s').
Proof. exact CubicProofs.cubic_floor. Qed.
Print Assumptions C12_controller_floor_cubic.

(** BBR as found ([fx = false]) violates the floor (DESIGN §7 F7; replayed on the real code and
    repaired by the commit "fix: BBR keeps the recovery window at or above the minimum window when
    the MTU grows"). [Bbr.FIXED] records which behaviour the correspondence currently ties. *)
Theorem C12_controller_floor_bbr_refuted_before_fix :
  exists w m l s' r,
    0 <= m /\ 2 * m <= w /\ Forall (fun p => wf_op (fst p)) l /\
    Bbr.steps false (Bbr.build w m) l = Some s' /\ Bbr.window s' r < 2 * Bbr.mtu s'.
Proof. exact BbrProofs.bbr_floor_refuted_before_fix. Qed.
Print Assumptions C12_controller_floor_bbr_refuted_before_fix.

Theorem C12_controller_floor_bbr : forall w m l s' r,
  0 <= m -> 2 * m <= w ->
  Forall (fun p => wf_op (fst p)) l ->
  Bbr.steps Bbr.FIXED (Bbr.build w m) l = Some s' ->
  2 * Bbr.mtu s' <= Bbr.window s' r.
Proof. exact BbrProofs.bbr_floor_fixed. Qed.
Print Assumptions C12_controller_floor_bbr.

(** Non-vacuity: reachable non-trivial states. NewReno after a loss at window 12000 with the
    float product 6000, then an MTU that more than doubles; the F7 history on the repaired BBR. *)
Example C12_newreno_example :
  match NewReno.steps (NewReno.build 12000 1200)
          [([4; 20; 15; 0; 0; 0], 6000); ([6; 4000], 0); ([4; 30; 25; 1; 0; 0], 0)] with
  | Some s => (NewReno.window s, NewReno.ssthresh s, NewReno.mtu s) = (8000, 8000, 4000)
  | None => False
  end.
Proof. vm_compute. reflexivity. Qed.
Example C12_bbr_example :
  match Bbr.steps true (Bbr.build 12000 1200) BbrProofs.f7_history with
  | Some s' => (Bbr.window s' 900, Bbr.mtu s', Bbr.mode s', Bbr.rec s') = (12000, 3000, 2, 2)
  | None => False
  end.
Proof. exact BbrProofs.f7_history_fixed. Qed.
