(** C12 — Sending respects the congestion window; loss accounting balances (component level).
    Property theorems only: each is closed by [exact] of a lemma proved under Proofs/, followed by
    [Print Assumptions]. Models: Model/NewReno.v (exact), Model/Cubic.v, Model/Bbr.v (relational:
    float outcomes are oracle values, the theorems quantify over all of them), tied to the code by
    the correspondence check on every run. *)
From QV Require Import Lib.Tac Lib.Chk Lib.Corr Proofs.ChkProofs.
From QV Require Model.NewReno Model.Cubic Model.Bbr Model.SentPackets Model.InFlight.
From QV Require Proofs.NewRenoProofs Proofs.CubicProofs Proofs.BbrProofs Proofs.InFlightProofs.
Open Scope Z_scope.

(** controller_floor. A history is a list of calls (opcode :: u64 arguments) each paired with the
    outcome(s) of the float computations of that call, universally quantified. [steps] returns
    [None] exactly when a u64 operation overflows (the debug build panics). *)
Theorem C12_controller_floor_newreno : forall w m l s',
  0 <= m -> 2 * m <= w ->
  Forall (fun p => wf_op (fst p)) l ->
  NewReno.steps (NewReno.build w m) l = Some s' ->
  2 * NewReno.mtu s' <= NewReno.window s'.
Proof. exact NewRenoProofs.newreno_floor. Qed.
Print Assumptions C12_controller_floor_newreno.

Theorem C12_controller_floor_cubic : forall w m l s',
  0 <= m -> 2 * m <= w ->
  Forall (fun p => wf_op (fst p)) l ->
  Cubic.steps (Cubic.build w m) l = Some s' ->
  2 * Cubic.mtu s' <= Cubic.window (Cubic.cur s').
Proof. exact CubicProofs.cubic_floor. Qed.
Print Assumptions C12_controller_floor_cubic.

(** BBR as found ([fx = false]) violates the floor (DESIGN §7 F7; replayed on the real code and
    repaired by the commit "fix: BBR keeps the recovery window at or above the minimum window when
    the MTU grows"). [Bbr.FIXED] records which behaviour the correspondence currently ties. *)
Theorem C12_controller_floor_bbr_refuted_before_fix :
  exists w m l s' r,
    0 <= m /\ 2 * m <= w /\ Forall (fun p => wf_op (fst p)) l /\
    Bbr.steps false (Bbr.build w m) l = Some s' /\ Bbr.window s' r < 2 * Bbr.mtu s'.
Proof. exact BbrProofs.bbr_floor_refuted_before_fix. Qed.
Print Assumptions C12_controller_floor_bbr_refuted_before_fix.

Theorem C12_controller_floor_bbr : forall w m l s' r,
  0 <= m -> 2 * m <= w ->
  Forall (fun p => wf_op (fst p)) l ->
  Bbr.steps Bbr.FIXED (Bbr.build w m) l = Some s' ->
  2 * Bbr.mtu s' <= Bbr.window s' r.
Proof. exact BbrProofs.bbr_floor_fixed. Qed.
Print Assumptions C12_controller_floor_bbr.

(** in_flight_is_sum. A history is a list of calls on one path and one packet-number space:
    [0; pn; size; ack_eliciting; generation] = PathData::sent, [1|2|3; pn] = acked / lost /
    abandoned (PacketSpace::take + PathData::remove_in_flight), [4] = the space is discarded.
    [steps] returns [inr code] where the debug build would panic; code 2 is an underflow of an
    in-flight counter. For every history whose packets carry the path's generation (as
    PacketBuilder stamps them): the counters equal the sums over the tracked packets in every
    reachable state, and the debit never underflows. *)
Theorem C12_in_flight_is_sum : forall l,
  Forall InFlightProofs.op_wf l ->
  match InFlight.steps InFlight.init l with
  | inl s => InFlight.bytes s = InFlight.sum_size (SentPackets.ents (InFlight.sp s)) /\
             InFlight.aec s = InFlight.count_ae (SentPackets.ents (InFlight.sp s))
  | inr e => e <> 2
  end.
Proof. exact InFlightProofs.in_flight_is_sum. Qed.
Print Assumptions C12_in_flight_is_sum.

Theorem C12_all_acked_implies_zero : forall l s,
  Forall InFlightProofs.op_wf l -> InFlight.steps InFlight.init l = inl s ->
  SentPackets.ents (InFlight.sp s) = [] -> InFlight.bytes s = 0 /\ InFlight.aec s = 0.
Proof. exact InFlightProofs.all_acked_implies_zero. Qed.
Print Assumptions C12_all_acked_implies_zero.

(** Each packet leaves the tracked set exactly once: after a removal that found the packet
    (code 1 = debited, 2 = other generation), removing the same number again finds nothing and
    changes nothing — in every reachable state. *)
Theorem C12_leaves_once : forall l s pn code s',
  InFlight.steps InFlight.init l = inl s -> InFlight.take s pn = inl (code, s') -> code <> 0 ->
  InFlight.take s' pn = inl (0, s').
Proof. exact InFlightProofs.leaves_once_reachable. Qed.
Print Assumptions C12_leaves_once.

(** Non-vacuity: reachable non-trivial states. NewReno after a loss at window 12000 with the
    float product 6000, then an MTU that more than doubles; the F7 history on the repaired BBR. *)
Example C12_newreno_example :
  match NewReno.steps (NewReno.build 12000 1200)
          [([4; 20; 15; 0; 0; 0], 6000); ([6; 4000], 0); ([4; 30; 25; 1; 0; 0], 0)] with
  | Some s => (NewReno.window s, NewReno.ssthresh s, NewReno.mtu s) = (8000, 8000, 4000)
  | None => False
  end.
Proof. vm_compute. reflexivity. Qed.
Example C12_bbr_example :
  match Bbr.steps true (Bbr.build 12000 1200) BbrProofs.f7_history with
  | Some s' => (Bbr.window s' 900, Bbr.mtu s', Bbr.mode s', Bbr.rec s') = (12000, 3000, 2, 2)
  | None => False
  end.
Proof. exact BbrProofs.f7_history_fixed. Qed.
Example C12_inflight_example :
  match InFlight.steps InFlight.init
          [[0; 1; 1200; 1; 7]; [0; 2; 40; 0; 7]; [0; 4; 0; 0; 7]; [2; 1]; [1; 1]; [3; 2]] with
  | inl s => (InFlight.bytes s, InFlight.aec s, length (SentPackets.ents (InFlight.sp s))) = (0, 0, 1%nat)
  | inr _ => False
  end.
Proof. vm_compute. reflexivity. Qed.
