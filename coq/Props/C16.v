(** C16 — component level (DatagramState). *)
From QV Require Import Lib.Tac Lib.Corr Model.DatagramState.
Open Scope Z_scope.

Example C16_example :
  DatagramState.run [[0; 100; 50; 1000; 1200; 8]; [2]; [1; 0; 1; 2; 3]; [3; 0; 1000]]
  = [[0; 0; 0; 0; 0; 0]; [0; 0; 0; 0; 0; 0; 991]; [0; 3; 1; 0; 0; 0]; [1; 0; 0; 0; 0; 0; 49; 3; 1; 2; 3]].
Proof. vm_compute. reflexivity. Qed.
