(** C16 — Unreliable datagrams: intact, at most once, never oversized.  COMPONENT LEVEL
    ([DatagramState] and the [Datagrams] API arithmetic; the two-peer system statement is added
    by the simulator level).  Property theorems only; proofs in Proofs/DatagramProofs.v.
    Model: Model/DatagramState.v, tied to quinn-proto/src/connection/datagrams.rs on every run by
    the `datagrams` correspondence (real [DatagramState] inside a real [Connection]).

    [exec c init h0 ops] runs an arbitrary operation sequence from the empty state and records
    the ghost history [h]: payloads accepted by [received] ([acc_in]), returned by [recv]
    ([delivered]), accepted by [send] ([acc_out]) and emitted by [write] ([written]).
    [run_ok]: the path MTU always leaves room for one empty packet (otherwise [max_size]
    underflows, see [C16_max_size_underflow_recorded]) and [send_buffer_size < 2^62]. *)
From QV Require Import Lib.Tac Lib.Bytes Lib.Corr gen.Constants Model.Varint Model.DatagramState
  Proofs.DatagramProofs.
Open Scope Z_scope.

(** datagrams_intact_fifo: for ALL op sequences, what [recv] returned followed by what is still
    queued is a subsequence of the accepted [received] payloads — every delivered payload is
    byte-identical to a distinct accepted one, in order, at most once; likewise [write] emits
    payloads of accepted sends in order, each at most once.  No panic, no hang. *)
Theorem C16_datagrams_intact_fifo : forall c ops,
  run_ok c ops ->
  exists c' s' h', exec c init h0 ops = Ok (c', s', h') /\
    subseq (delivered h' ++ incoming s') (acc_in h') /\
    subseq (written h' ++ outgoing s') (acc_out h').
Proof. exact datagrams_intact_fifo. Qed.
Print Assumptions C16_datagrams_intact_fifo.

(** buffer_accounting: for ALL op sequences the byte counters equal the sums of the queued
    payload lengths (so no subtraction underflows), the send queue never exceeds the configured
    bound and the space query is exactly the difference. *)
Theorem C16_buffer_accounting : forall c ops,
  run_ok c ops ->
  exists c' s' h', exec c init h0 ops = Ok (c', s', h') /\
    outgoing_total s' = sum_len (outgoing s') /\
    recv_buffered s' = sum_len (incoming s') /\
    0 <= outgoing_total s' <= send_buf c /\ 0 <= recv_buffered s' /\
    send_buffer_space c' s' = send_buf c - outgoing_total s'.
Proof. exact buffer_accounting. Qed.
Print Assumptions C16_buffer_accounting.

Theorem C16_reachable_states_accounted : forall c ops c' s' h',
  run_ok c ops -> exec c init h0 ops = Ok (c', s', h') ->
  Inv s' /\ sum_len (outgoing s') <= send_buf c.
Proof. exact reachable_inv. Qed.
Print Assumptions C16_reachable_states_accounted.

(** overflow_drops_oldest (receive side): an accepted datagram evicts a PREFIX [pre] of the
    queue — the oldest — keeps the newest at the back, evicts no more than necessary, and the
    buffered bytes stay within the window. *)
Theorem C16_receive_overflow_drops_oldest : forall s d x,
  Inv s -> zlen d <= x ->
  exists s' pre kept,
    received s d (Some x) = Ok (s', Some (recv_buffered s =? 0)) /\
    incoming s = pre ++ kept /\ incoming s' = kept ++ [d] /\
    recv_buffered s' = sum_len (incoming s') /\ recv_buffered s' <= x /\
    (forall p1 y p2, pre = p1 ++ y :: p2 -> x < zlen d + sum_len (y :: p2 ++ kept)).
Proof. exact receive_overflow_drops_oldest. Qed.
Print Assumptions C16_receive_overflow_drops_oldest.

(** A DATAGRAM frame without a receive window, or larger than it, is a PROTOCOL_VIOLATION and
    leaves the state untouched. *)
Theorem C16_receive_rejects : forall s d w,
  (match w with None => True | Some x => x < zlen d end) -> received s d w = Ok (s, None).
Proof. exact receive_rejects. Qed.
Print Assumptions C16_receive_rejects.

(** send_admission_exact + overflow_drops_oldest (send side).  The result code is exactly the
    table; [S_OK] iff enabled, supported, [len <= min(max_size, send_buffer_size)] and ([drop]
    or the datagram fits beside what is queued); on [S_OK] the evicted [pre] is a prefix (empty
    unless [drop]), no more than necessary, and the new datagram is at the back. *)
Theorem C16_send_admission_exact : forall c s d drop,
  Inv s -> ctx_ok c -> send_buf c <= USIZE_MAX ->
  exists s' code, send c s d drop = Ok (s', code) /\ Inv s' /\
    code = match recv_buf c with
           | None => S_DISABLED
           | Some _ =>
               match max_size c with
               | Ok (Some mx) =>
                   if Z.min mx (send_buf c) <? zlen d then S_TOOLARGE
                   else if drop || (outgoing_total s + zlen d <=? send_buf c) then S_OK
                   else S_BLOCKED
               | _ => S_UNSUPPORTED
               end
           end /\
    (code = S_OK ->
       exists pre kept, outgoing s = pre ++ kept /\ outgoing s' = kept ++ [d] /\
         (drop = false -> pre = []) /\
         (forall p1 x p2, pre = p1 ++ x :: p2 ->
            has_space (sum_len (x :: p2 ++ kept)) (zlen d) (send_buf c) = false) /\
         incoming s' = incoming s /\ send_blocked s' = send_blocked s) /\
    (code <> S_OK -> outgoing s' = outgoing s /\ incoming s' = incoming s /\
                     send_blocked s' = (send_blocked s || (code =? S_BLOCKED))) /\
    (sum_len (outgoing s) <= send_buf c -> sum_len (outgoing s') <= send_buf c).
Proof. exact send_spec. Qed.
Print Assumptions C16_send_admission_exact.

(** max_size_fits, instantiated with the generated [Datagram::SIZE_BOUND]: the reported maximum
    plus frame bound plus predicted 1-RTT overhead fits the current MTU and respects the peer's
    [max_datagram_frame_size]. *)
Theorem C16_max_size_fits : forall c,
  overhead c + DATAGRAM_SIZE_BOUND <= mtu c ->
  match peer_max c with
  | None => max_size c = Ok None
  | Some p =>
      exists v, max_size c = Ok (Some v) /\ 0 <= v /\
                v + DATAGRAM_SIZE_BOUND + overhead c <= mtu c /\
                (DATAGRAM_SIZE_BOUND <= p -> v <= p - DATAGRAM_SIZE_BOUND) /\
                (p < DATAGRAM_SIZE_BOUND -> v = 0)
  end.
Proof. exact (fun c => max_size_fits_gen DATAGRAM_SIZE_BOUND c ltac:(vm_compute; discriminate)). Qed.
Print Assumptions C16_max_size_fits.

(** [write] emits exactly the frame of the head payload (type 0x31, varint length, bytes), only
    if it fits the space left, and removes exactly that datagram. *)
Theorem C16_write_exact : forall s bl mx,
  Inv s -> sum_len (outgoing s) < 2 ^ 62 ->
  match outgoing s with
  | [] => write s bl mx = Ok (s, None)
  | d :: r =>
      exists sz enc, frame_size d = Some sz /\ frame_encode d = Some enc /\ zlen enc = sz /\
        if mx <? bl + sz then write s bl mx = Ok (s, None)
        else exists s', write s bl mx = Ok (s', Some enc) /\ outgoing s' = r /\
                        outgoing_total s' = sum_len r /\ incoming s' = incoming s
  end.
Proof. exact write_exact. Qed.
Print Assumptions C16_write_exact.

(** Boundary asymmetry, recorded exactly as the code has it: [send] admits [len <= max] while
    [drop_oversized max] keeps only [len < max] — a queued datagram of exactly the new maximum
    size is discarded on black-hole fallback although it would fit (allowed: datagrams may be
    dropped; noted as an observation, not a violation). *)
Theorem C16_drop_oversized_exact : forall s mp,
  Inv s ->
  exists s', drop_oversized s mp =
               Ok (s', negb (Nat.eqb (length (outgoing s')) (length (outgoing s)))) /\
    outgoing s' = filter (fun d => zlen d <? mp) (outgoing s) /\
    outgoing_total s' = sum_len (outgoing s') /\ incoming s' = incoming s.
Proof. exact drop_oversized_exact. Qed.
Print Assumptions C16_drop_oversized_exact.

Example C16_boundary_asymmetry_recorded :
  let c := mkCtx (Some 100) 100 (Some 12) 1200 8 in
  max_size c = Ok (Some 3) /\
  exists s, send c init [1; 2; 3] false = Ok (s, S_OK) /\
            drop_oversized s 3 = Ok (init, true).
Proof. vm_compute. split; [reflexivity|]. eexists. split; reflexivity. Qed.

(** The documented usize underflow of [max_size] when the MTU cannot hold an empty packet
    (unreachable behind [Connection]: the MTU estimate is at least min(min_mtu >= 1200, peer
    max_udp_payload_size >= 1200) by C13's mtu_floor). *)
Example C16_max_size_underflow_recorded :
  max_size (mkCtx (Some 100) 100 (Some 1200) 37 8) = Panic.
Proof. vm_compute. reflexivity. Qed.

(** Non-vacuity: a run with an eviction on both sides, a delivery and a written frame. *)
Example C16_example :
  DatagramState.run [[0; 4; 4; 1000; 1200; 8]; [4; 4; 1; 2; 3]; [4; 4; 9; 9]; [5];
                     [1; 1; 5; 6; 7]; [1; 1; 8; 8]; [3; 0; 1000]]
  = [[0; 0; 0; 0; 0; 0]; [0; 0; 0; 3; 1; 0; 1]; [0; 0; 0; 2; 1; 0; 0]; [1; 0; 0; 0; 0; 0; 9; 9];
     [0; 3; 1; 0; 0; 0]; [0; 2; 1; 0; 0; 0]; [1; 0; 0; 0; 0; 0; 49; 2; 8; 8]].
Proof. vm_compute. reflexivity. Qed.
