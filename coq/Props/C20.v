(** C20 — The protocol core is deterministic and driven only by its inputs.

    What is PROVED here (for all states, op sequences, instants and shifts [d]; unbounded):
      * time-translation equivariance of every time-carrying component model present in the tree
        (TimerTable, Mtud, PendingAcks, StatelessReset, BloomLog, CidState): shifting every supplied
        instant by [d] shifts every stored / returned instant by [d] and changes nothing else;
      * the driver contract on the model of [TimerTable] + the dispatch loop of
        [Connection::handle_timeout]: a call with no expired timer is a no-op; under the handler
        contract one call settles; under the back-off contract at most measure + 1 calls settle; the
        concrete PTO back-off settles within MAX_BACKOFF_EXPONENT + 1 calls when serviced late by
        less than pto_base * 2^MAX_BACKOFF_EXPONENT; [next_timeout] is the minimum of the armed
        timers; polls on empty queues are no-ops.
    What is NOT proved: that the Rust state machine as a whole has these properties
    ([C20_full] below).  That is OBSERVED on every run by twin runs of the real endpoints
    (coq/Sys/MonC20.v) and by the static inventory of ambient sources (checks/C20.py).
    Determinism of Gallina functions is trivial and is not stated. *)
From Coq Require Import ZArith List Bool Lia.
From QV Require Import Lib.Corr gen.Constants Model.TimerTable Proofs.TimerTableProofs Proofs.ShiftProofs.
From QV Require Model.Mtud Model.PendingAcks Model.StatelessReset Model.BloomLog Model.CidState.
Import ListNotations.
Open Scope Z_scope.

(** * The full statement, for an arbitrary sans-IO machine: inputs carry instants, outputs carry
    instants, [sh d] translates them.  [C20_full M] is what the property file asks of the real
    [Connection]/[Endpoint]; no model of the whole machine exists, so it is stated, not proved. *)
Record Machine := {
  St : Type; In : Type; Out : Type;
  mstep : St -> In -> St * list Out;
  sh_st : Z -> St -> St; sh_in : Z -> In -> In; sh_out : Z -> Out -> Out;
  timeout_in : Z -> In;                 (* handle_timeout(now) *)
  next_deadline : St -> option Z;       (* poll_timeout *)
  drained : St -> bool
}.
Definition C20_full (M : Machine) : Prop :=
  (* time translation *)
  (forall d s i, mstep M (sh_st M d s) (sh_in M d i)
                 = (sh_st M d (fst (mstep M s i)), map (sh_out M d) (snd (mstep M s i))))
  (* a timeout call before the deadline is a no-op *)
  /\ (forall s now, match next_deadline M s with Some t => now < t | None => True end ->
                    mstep M s (timeout_in M now) = (s, []))
  (* timeouts settle within a bounded number of calls (for the real machine: under the lateness
     bound made explicit in [C20_pto_settles]) *)
  /\ (exists bound : nat, forall s now,
        exists n, (n <= bound)%nat /\
          match next_deadline M (Nat.iter n (fun s => fst (mstep M s (timeout_in M now))) s)
          with Some t => now < t | None => True end)
  (* a drained machine is silent *)
  /\ (forall s i, drained M s = true -> snd (mstep M s i) = [] /\ drained M (fst (mstep M s i)) = true).

(** * TimerTable and the handle_timeout loop *)
Theorem C20_next_timeout_is_min : forall tb : table,
  match next_timeout tb with
  | None => forall j, get tb j = None
  | Some m => (exists j, get tb j = Some m) /\ forall j x, get tb j = Some x -> m <= x
  end.
Proof. exact next_timeout_is_min. Qed.

Theorem C20_spurious_timeout_noop :
  forall (H : Type) (handler : nat -> Z -> H * table -> H * table) (now : Z) (s : H * table),
    future (snd s) now -> handle_timeout H handler now s = s.
Proof. exact spurious_timeout_noop. Qed.

Theorem C20_timeouts_settle :
  forall (H : Type) (handler : nat -> Z -> H * table -> H * table),
    contract H handler ->
    forall (now : Z) (s : H * table), length (snd s) = NTIMERS ->
      future (snd (handle_timeout H handler now s)) now.
Proof. exact timeouts_settle. Qed.

Theorem C20_timeouts_settle_bounded :
  forall (H : Type) (handler : nat -> Z -> H * table -> H * table) (mu : H -> nat) (now : Z)
         (Inv : H -> Prop),
    contract_b H handler mu now Inv ->
    forall (n : nat) (s : H * table),
      Inv (fst s) -> length (snd s) = NTIMERS -> (mu (fst s) < n)%nat ->
      future (snd (iter H handler n now s)) now.
Proof. exact timeouts_settle_bounded. Qed.

(** the PTO handler with the crate's MAX_BACKOFF_EXPONENT: late by less than
    pto_base * 2^MAX_BACKOFF_EXPONENT  ==>  settles within MAX_BACKOFF_EXPONENT + 1 calls *)
Theorem C20_pto_settles :
  forall (now : Z) (h : Pto) (tb : table),
    pto_inv MAX_BACKOFF_EXPONENT now h -> length tb = NTIMERS ->
    future (snd (iter Pto (pto_handler MAX_BACKOFF_EXPONENT)
                      (S (Z.to_nat MAX_BACKOFF_EXPONENT)) now (h, tb))) now.
Proof.
  intros now h tb. apply pto_settles. vm_compute; discriminate.
Qed.

Theorem C20_poll_on_empty_queues_is_noop : forall ee : list Z,
  poll (mkQ [] [] None ee) = (None, mkQ [] [] None ee)
  /\ forall q, ep_events q = [] -> poll_endpoint_events q = (None, q).
Proof. exact poll_on_empty_queues_is_noop. Qed.

(** * Time-translation equivariance *)
Theorem C20_shift_equivariant_timer_table : forall d tb op,
  step (shift_table d tb) (shift_op d op)
  = (shift_table d (fst (step tb op)), shift_out d (snd (step tb op))).
Proof. exact shift_equivariant. Qed.

Theorem C20_shift_equivariant_timer_table_seq : forall d l tb,
  steps (shift_table d tb) (map (shift_op d) l)
  = (shift_table d (fst (steps tb l)), map (shift_out d) (snd (steps tb l))).
Proof. exact shift_equivariant_steps. Qed.

Theorem C20_handle_timeout_equivariant :
  forall (H : Type) (shift_h : Z -> H -> H) (handler : nat -> Z -> H * table -> H * table),
    (forall d i now h tb,
        handler i (now + d) (shift_h d h, shift_table d tb)
        = (shift_h d (fst (handler i now (h, tb))), shift_table d (snd (handler i now (h, tb))))) ->
    forall d now h tb,
      handle_timeout H handler (now + d) (shift_h d h, shift_table d tb)
      = (shift_h d (fst (handle_timeout H handler now (h, tb))),
         shift_table d (snd (handle_timeout H handler now (h, tb)))).
Proof. exact handle_timeout_equivariant. Qed.

Theorem C20_shift_equivariant_mtud : forall MPR BHT fx d m o,
  Mtud.step MPR BHT fx (MT.shift_s d m) (MT.shift_op d o)
  = match Mtud.step MPR BHT fx m o with Some (m', r) => Some (MT.shift_s d m', r) | None => None end.
Proof. exact MT.shift_equivariant. Qed.

Theorem C20_shift_equivariant_mtud_seq : forall MPR BHT fx d l m,
  run_seq _ _ _ (Mtud.step MPR BHT fx) (MT.shift_s d m) (map (MT.shift_op d) l)
  = match run_seq _ _ _ (Mtud.step MPR BHT fx) m l with
    | Some (m', os) => Some (MT.shift_s d m', map (fun x => x) os) | None => None end.
Proof. exact MT.shift_equivariant_runs. Qed.

Theorem C20_shift_equivariant_pending_acks : forall M d s o,
  PendingAcks.step M (PA.shift_s d s) (PA.shift_op d o)
  = match PendingAcks.step M s o with Some (s', out) => Some (PA.shift_s d s', out) | None => None end.
Proof. exact PA.shift_equivariant. Qed.

Theorem C20_shift_equivariant_pending_acks_seq : forall M d l s,
  run_seq _ _ _ (PendingAcks.step M) (PA.shift_s d s) (map (PA.shift_op d) l)
  = match run_seq _ _ _ (PendingAcks.step M) s l with
    | Some (s', os) => Some (PA.shift_s d s', map (fun x => x) os) | None => None end.
Proof. exact PA.shift_equivariant_runs. Qed.

Theorem C20_shift_equivariant_stateless_reset : forall d s kind now len hint,
  StatelessReset.handle (SR.shift_s d s) kind (now + d) len hint
  = match StatelessReset.handle s kind now len hint with
    | Some (s', o) => Some (SR.shift_s d s', o) | None => None end.
Proof. exact SR.handle_equivariant. Qed.

Theorem C20_shift_equivariant_bloom_log : forall fmb d s nonce issued lifetime fpr,
  BloomLog.check fmb (BL.shift_s d s) nonce (issued + d) lifetime fpr
  = (BL.shift_s d (fst (BloomLog.check fmb s nonce issued lifetime fpr)),
     snd (BloomLog.check fmb s nonce issued lifetime fpr)).
Proof. exact BL.shift_equivariant. Qed.

Theorem C20_shift_equivariant_cid_state : forall d s o,
  CidState.step (CS.shift_s d s) (CS.shift_op d o)
  = match CidState.step s o with
    | Some (s', out) =>
        Some (CS.shift_s d s', CS.set_nt (CS.optz (shift_o d (CS.next_timeout_o s'))) out)
    | None => None
    end.
Proof. exact CS.shift_equivariant. Qed.

Print Assumptions C20_next_timeout_is_min.
Print Assumptions C20_spurious_timeout_noop.
Print Assumptions C20_timeouts_settle.
Print Assumptions C20_timeouts_settle_bounded.
Print Assumptions C20_pto_settles.
Print Assumptions C20_poll_on_empty_queues_is_noop.
Print Assumptions C20_shift_equivariant_timer_table.
Print Assumptions C20_shift_equivariant_timer_table_seq.
Print Assumptions C20_handle_timeout_equivariant.
Print Assumptions C20_shift_equivariant_mtud.
Print Assumptions C20_shift_equivariant_mtud_seq.
Print Assumptions C20_shift_equivariant_pending_acks.
Print Assumptions C20_shift_equivariant_pending_acks_seq.
Print Assumptions C20_shift_equivariant_stateless_reset.
Print Assumptions C20_shift_equivariant_bloom_log.
Print Assumptions C20_shift_equivariant_cid_state.

(** * Non-vacuity and sharpness *)
(** a table with LossDetection (0) and KeepAlive (5) expired at now = 100, Idle (1) in the future *)
Definition ex_tb : table := [Some 90; Some 5000; None; None; None; Some 100; None; None; None].

(** a handler meeting the strict contract: KeepAlive re-armed at now + 25, LossDetection at now + 7 *)
Definition good_handler (i : nat) (now : Z) (s : unit * table) : unit * table :=
  match i with
  | 0%nat => (tt, set (snd s) 0 (now + 7))
  | 5%nat => (tt, set (snd s) 5 (now + 25))
  | _ => s
  end.
Example settle_example :
  handle_timeout unit good_handler 100 (tt, ex_tb)
  = (tt, [Some 107; Some 5000; None; None; None; Some 125; None; None; None])
  /\ next_timeout (snd (handle_timeout unit good_handler 100 (tt, ex_tb))) = Some 107.
Proof. split; vm_compute; reflexivity. Qed.

(** the mutant that re-arms KeepAlive AT [now] breaks the contract and never settles *)
Definition bad_handler (i : nat) (now : Z) (s : unit * table) : unit * table :=
  match i with 5%nat => (tt, set (snd s) 5 now) | _ => s end.
Example settle_needs_contract :
  forall n, next_timeout (snd (iter unit bad_handler n 100 (tt, stop ex_tb 0))) = Some 100.
Proof.
  assert (Hfix : handle_timeout unit bad_handler 100 (tt, stop ex_tb 0) = (tt, stop ex_tb 0))
    by (vm_compute; reflexivity).
  induction n as [|n IH]; [vm_compute; reflexivity|].
  cbn [iter]. rewrite Hfix. exact IH.
Qed.

(** PTO serviced 50 ms late with a 1 ms base: one call is not enough, six are *)
Definition ex_pto : Pto := mkPto 0 0 1000.
Example pto_inv_example : pto_inv MAX_BACKOFF_EXPONENT 50000 ex_pto.
Proof. unfold pto_inv; vm_compute; repeat split; discriminate || reflexivity. Qed.
Example pto_example :
  next_timeout (snd (iter Pto (pto_handler MAX_BACKOFF_EXPONENT) 1 50000 (ex_pto, set empty 0 1000))) = Some 2000
  /\ next_timeout (snd (iter Pto (pto_handler MAX_BACKOFF_EXPONENT) 5 50000 (ex_pto, set empty 0 1000))) = Some 32000
  /\ next_timeout (snd (iter Pto (pto_handler MAX_BACKOFF_EXPONENT) 6 50000 (ex_pto, set empty 0 1000))) = Some 64000.
Proof. repeat split; vm_compute; reflexivity. Qed.

(** a spurious call at 50 on [ex_tb] shifted: nothing expired *)
Example spurious_example :
  handle_timeout unit bad_handler 50 (tt, ex_tb) = (tt, ex_tb) /\ future ex_tb 50.
Proof. split; vm_compute; reflexivity. Qed.

(** shift by 977_777_777 of a Mtud state in the Complete phase: the poll decision is the same *)
Example mtud_shift_example :
  let m := Mtud.mkMtud 1400 (Some (Mtud.mkEnabled (Mtud.Complete 600000000) 1452 (Mtud.mkConfig 1452 600000000 60000000 20))) (Mtud.bhd_new 1200) in
  Mtud.step 3 3 true m (Mtud.OPoll 599999999 7) = Some (m, -1)
  /\ Mtud.step 3 3 true (MT.shift_s 977777777 m) (Mtud.OPoll (599999999 + 977777777) 7)
     = Some (MT.shift_s 977777777 m, -1)
  /\ exists m' p, Mtud.step 3 3 true m (Mtud.OPoll 600000000 7) = Some (m', p) /\ 1400 < p.
Proof.
  cbn zeta. split; [vm_compute; reflexivity|]. split; [vm_compute; reflexivity|].
  eexists; eexists; split; [vm_compute; reflexivity | vm_compute; reflexivity].
Qed.
