(** placeholder while the proofs are being written *)
From QV Require Import Model.TimerTable.
