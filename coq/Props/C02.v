(** C02 — Connections make progress: no deadlock under fair loss.
    No-wedge invariants (safety), proved for ALL operation sequences of the models
    Model/Recovery.v (loss-detection / PTO timer, from connection/mod.rs, packet_builder.rs,
    spaces.rs, paths.rs, timer.rs) and Model/SendGate.v (blocking branches of poll_transmit).
    The models are tied to the real code on every run by the trace monitors Sys/MonRecovery.v
    (these invariants, evaluated on probe snapshots of real connections after every drive) and
    Sys/MonC02.v (completion of event-driven workloads under fair loss).
    Proofs: Proofs/RecoveryProofs.v, Proofs/SendGateProofs.v.
    [Recovery.step maxexp fixd]: [fixd = true] is the tree with the repair "re-evaluate the loss
    detection timer when the handshake completes / after a Retry" (repo commit `fix: re-evaluate
    the loss detection timer ...`); [fixd = false] is the code before it, for which the property
    is refuted below. *)
From QV Require Import Lib.Tac Lib.Corr Sys.Trace Sys.MonC02 Sys.MonRecovery.
From QV Require Import Model.SendGate Model.Recovery Proofs.RecoveryProofs Proofs.SendGateProofs.
From QV Require gen.Constants.
Open Scope Z_scope.

Definition MAXEXP : Z := Constants.MAX_BACKOFF_EXPONENT.

(** ** timer_armed_when_needed
    In every reachable open state that is not in the middle of processing a datagram which
    arrived while the path was anti-amplification blocked: if the path is not blocked and the
    timer is needed ([needs_b]: a loss time is pending; or ack-eliciting packets are in flight
    and one of them is in the Initial or Handshake space, or in the Data space once the handshake
    is complete; or nothing is in flight and the client has no proof that the server validated its
    address), LossDetection is armed — the only exception being a connection that has not sent
    anything yet. Proved for ALL operation sequences. *)
Theorem C02_timer_armed_when_needed : forall cl v ops,
  let s := Recovery.run MAXEXP true (init cl v) ops in
  closed s = false -> in_dgram s <> Some true -> blocked s 1 = false -> needs_b s = true ->
  is_some (ld s) = true \/ (stale s = true /\ ld s = None /\ ae_total s = 0).
Proof. exact (timer_armed_fixed MAXEXP). Qed.
Print Assumptions C02_timer_armed_when_needed.

(** The same with the readable condition [needs] (per-space counts instead of the boolean
    [needs_b]). FULL statement: for all reachable states. PROVED PART: for reachable states that
    satisfy the bookkeeping well-formedness [wf] (counts non-negative, a space with ack-eliciting
    packets in flight has a last-send time, in flight implies keys, key/highest-space coupling);
    missing: [wf] is an invariant of [step] (proof in progress: tools_b2/RecoveryWf.v.wip). *)
Definition C02_timer_armed_readable_full : Prop := forall cl v ops,
  let s := Recovery.run MAXEXP true (init cl v) ops in
  closed s = false -> in_dgram s <> Some true -> blocked s 1 = false -> needs s ->
  is_some (ld s) = true \/ (stale s = true /\ ld s = None /\ ae_total s = 0).
Theorem C02_timer_armed_readable_partial : forall cl v ops,
  let s := Recovery.run MAXEXP true (init cl v) ops in
  wf s ->
  closed s = false -> in_dgram s <> Some true -> blocked s 1 = false -> needs s ->
  is_some (ld s) = true \/ (stale s = true /\ ld s = None /\ ae_total s = 0).
Proof.
  intros cl v ops s W A B C D. apply (timer_armed_fixed MAXEXP); try assumption.
  apply needs_needs_b; assumption.
Qed.
Print Assumptions C02_timer_armed_readable_partial.

(** ... and if the path IS blocked, receipt of any datagram re-arms it, whatever the datagram
    contained (the [was_anti_amplification_blocked] branch of handle_event) *)
Theorem C02_datagram_rearms : forall fixd s c,
  in_dgram s = Some true ->
  let s' := Recovery.step MAXEXP fixd s (ODgramEnd c) in
  in_dgram s' = None /\
  (closed s' = false -> blocked s' 1 = false -> needs_b s' = true -> is_some (ld s') = true).
Proof. exact (dgram_end_rearms MAXEXP). Qed.
Print Assumptions C02_datagram_rearms.

(** The code before the repair: the invariant only holds up to the ghost flag [stale] (the state
    became Established, or a Retry dropped the 0-RTT packets, after the last evaluation of the
    timer) ... *)
Theorem C02_timer_armed_unrepaired : forall cl v ops,
  let s := Recovery.run MAXEXP false (init cl v) ops in
  closed s = false -> in_dgram s <> Some true -> blocked s 1 = false -> needs_b s = true ->
  is_some (ld s) = true \/ stale s = true.
Proof. exact (timer_inv_reachable MAXEXP false). Qed.
Print Assumptions C02_timer_armed_unrepaired.

(** ... and it is REFUTED: a server whose Handshake flight was acknowledged and which has a
    1-RTT packet in flight completes the handshake and is left Established, validated, with an
    ack-eliciting packet in flight and NO loss-detection timer. (Replayed on the real code: the
    simulator scenario in known_findings.txt; found by Sys/MonRecovery on ordinary traces.) *)
Definition clk (t : Z) : clock := mkClock t 30000 0.
Definition wedge_ops : list op :=
  [ODgramBegin; OKeys 1; OKeys 2; ORecvd 1200; ODgramEnd (clk 0);
   OSent (clk 0) 0 true true; OSent (clk 0) 1 true false; OSent (clk 0) 2 true false; OTxDone 1200;
   ODgramBegin; ORecvd 1200; OValidated; ODiscard (clk 20000) 0; OAck (clk 20000) 1 1 0 0 0 None;
   OEstablished (clk 20000) false; ODgramEnd (clk 20000)].
Theorem C02_timer_armed_unrepaired_refuted :
  exists ops, let s := Recovery.run MAXEXP false (init false false) ops in
    closed s = false /\ in_dgram s = None /\ blocked s 1 = false /\ phase s = 1 /\
    0 < ae (sD s) /\ needs_b s = true /\ ld s = None.
Proof. exists wedge_ops. vm_compute. repeat split; reflexivity. Qed.
Print Assumptions C02_timer_armed_unrepaired_refuted.
Example C02_same_history_repaired_is_armed :
  ld (Recovery.run MAXEXP true (init false false) wedge_ops) = Some 30000.
Proof. vm_compute. reflexivity. Qed.

(** ** pto_yields_probe
    Firing LossDetection with no loss time pending: the space chosen by pto_time_and_space gets
    1 or 2 probes, pto_count grows, and that space has keys — except for the anti-deadlock probe of
    a client that already holds 1-RTT keys and has dropped its Initial keys (it is then about to
    send its Finished in the Handshake space; the stray Initial probe is never used). *)
Definition C02_pto_yields_probe_full : Prop := forall cl v ops c t i,
  let s := Recovery.run MAXEXP true (init cl v) ops in
  pto_time_and_space MAXEXP c s = Some (t, i) -> loss_time_and_space s = None ->
  let s' := on_ld_timeout MAXEXP c s 0 0 None in
  0 < probes (sp s' i) /\ pto_count s' = pto_count s + 1 /\
  (sendable s' i = true \/ (ae_total s = 0 /\ highest s = 2 /\ keys (sI s) = false)).
(** PROVED PART: for every state satisfying [wf] (see above; missing: [wf] for all reachable states) *)
Theorem C02_pto_yields_probe_partial : forall s c t i,
  wf s -> pto_time_and_space MAXEXP c s = Some (t, i) -> loss_time_and_space s = None ->
  let s' := on_ld_timeout MAXEXP c s 0 0 None in
  probes (sp s' i) = probes (sp s i) + (if ae_total s =? 0 then 1 else 2) /\
  0 < probes (sp s' i) /\ pto_count s' = pto_count s + 1 /\
  (sendable s' i = true \/ (ae_total s = 0 /\ highest s = 2 /\ keys (sI s) = false)).
Proof. intros s c t i. exact (pto_fire_probes MAXEXP c s t i). Qed.
Print Assumptions C02_pto_yields_probe_partial.
(* non-vacuity: a server's PTO after its first flight gives the Initial space two probes *)
Example C02_ex_pto_fires :
  let s := Recovery.run MAXEXP true (init false false)
             [ODgramBegin; OKeys 1; OKeys 2; ORecvd 1200; ODgramEnd (clk 0);
              OSent (clk 0) 0 true true; OSent (clk 0) 1 true false; OTxDone 2400] in
  pto_time_and_space MAXEXP (clk 30000) s = Some (30000, 0) /\
  let s' := Recovery.step MAXEXP true s (OTimeout (clk 30000) 0 0 None) in
  probes (sI s') = 2 /\ pto_count s' = 1 /\ ld s' = Some 60000.
Proof. vm_compute. repeat split; reflexivity. Qed.

(** [SendGate] with probes pending never answers blocked-by-congestion (nor blocked-by-pacing),
    and sends when there is anti-amplification budget *)
Theorem C02_probe_not_congestion_blocked : forall g, 0 < g_probes g ->
  gate g <> BlockedCongestion /\ (forall d, gate g <> BlockedPacing d).
Proof. exact probe_not_blocked. Qed.
Print Assumptions C02_probe_not_congestion_blocked.
Theorem C02_probe_sends : forall g, 0 < g_probes g -> g_can_send g = true -> g_antiamp g = false ->
  gate g = Sends /\ probes_after g = g_probes g - 1.
Proof. exact probe_sends. Qed.
Print Assumptions C02_probe_sends.
(** the mutant gate (congestion check also with probes pending) is distinguished *)
Example C02_probe_exemption_matters :
  let g := mkGate true false true 2 false 12000 1200 12000 None in
  gate g = Sends /\ gate_no_probe_exemption g = BlockedCongestion.
Proof. vm_compute. split; reflexivity. Qed.

(** blocked by pacing arms Timer::Pacing; under the pacer contract the deadline is in the future.
    The contract [now < deadline] is NOT guaranteed by Pacer::delay (pacing.rs returns
    [now + (unscaled_delay / 5) * 4], which is [now] when the deficit is tiny): it stays a premise. *)
Theorem C02_pacing_deadline_in_future : forall g prev d now,
  gate g = BlockedPacing d -> (forall x, g_delay g = Some x -> now < x) ->
  pacing_after g prev = Some d /\ now < d.
Proof. exact pacing_arms. Qed.
Print Assumptions C02_pacing_deadline_in_future.

(** something ready is either sent or held back by one of the three named blocks *)
Theorem C02_ready_sends_or_named_block : forall g, g_can_send g = true ->
  gate g = Sends \/ gate g = BlockedAntiAmp \/ gate g = BlockedCongestion \/ exists d, gate g = BlockedPacing d.
Proof. exact ready_sends_or_named_block. Qed.
Print Assumptions C02_ready_sends_or_named_block.

(** ** pto_backoff_bounded
    PTO duration = (pto_base [+ max_ack_delay in the Data space]) * 2^min(pto_count, MAX_BACKOFF_EXPONENT):
    positive, bounded, counted from the last ack-eliciting send of the chosen space (or from now
    for the anti-deadlock probe). *)
Theorem C02_pto_backoff_bounded : forall c s t i,
  0 <= pto_count s -> 0 < base c -> 0 <= mad c ->
  pto_time_and_space MAXEXP c s = Some (t, i) ->
  let d := (base c + (if i =? 2 then mad c else 0)) * 2 ^ Z.min (pto_count s) MAXEXP in
  0 < d <= (base c + mad c) * 2 ^ MAXEXP /\
  ((ae_total s = 0 /\ t = now c + d) \/
   (ae_total s <> 0 /\ exists t0, tlae (sp s i) = Some t0 /\ t = t0 + d)).
Proof. intros c s t i. apply pto_backoff. vm_compute. discriminate. Qed.
Print Assumptions C02_pto_backoff_bounded.

(** ** Non-vacuity *)
(* a client sends its Initial: timer armed at send time + pto_base *)
Example C02_ex_client_first_flight :
  let s := Recovery.run MAXEXP true (init true false) [OSent (clk 0) 0 true true; OTxDone 1200] in
  needs_b s = true /\ blocked s 1 = false /\ ld s = Some 30000.
Proof. vm_compute. repeat split; reflexivity. Qed.
(* a server reaches the 3x limit: timer stopped; any datagram re-arms it *)
Definition blocked_ops : list op :=
  [ODgramBegin; OKeys 1; OKeys 2; ORecvd 1200; ODgramEnd (clk 0);
   OSent (clk 0) 0 true true; OSent (clk 0) 1 true false; OTxDone 2400;
   OTimeout (clk 30000) 0 0 None; OGate (clk 30000) 0 true true false 2400 1200 12000 None;
   OSent (clk 30000) 0 true true; OTxDone 1200; OTimeout (clk 60000) 0 0 None].
Example C02_ex_blocked_then_rearmed :
  let s := Recovery.run MAXEXP true (init false false) blocked_ops in
  blocked s 1 = true /\ ld s = None /\ pto_count s = 2 /\ probes (sI s) = 1 /\ probes (sH s) = 2 /\
  let s' := Recovery.run MAXEXP true s [ODgramBegin; ORecvd 1200; ODgramEnd (clk 70000)] in
  blocked s' 1 = false /\ ld s' = Some 120000.
Proof. vm_compute. repeat split; reflexivity. Qed.
(* documented corner (same shape as RFC 9002 A.8): a handshaking client whose only packets in
   flight are 0-RTT has no PTO armed and relies on the server's retransmissions *)
Example C02_ex_client_0rtt_only_unarmed :
  let s := Recovery.run MAXEXP true (init true false)
             [OZeroRtt; OSent (clk 0) 0 true true; OSent (clk 0) 2 true false; OTxDone 2400;
              ODgramBegin; ORecvd 1200; OAck (clk 20000) 0 1 0 0 0 None; ODgramEnd (clk 20000)] in
  peer_completed s = false /\ ae_total s = 1 /\ needs_b s = false /\ ld s = None.
Proof. vm_compute. repeat split; reflexivity. Qed.

(** ** Stated, not proved (stretch): end-to-end completion under fair loss. [sim_trace] is the
    relation "o is the trace of the scenario i on the real endpoints", [fair i] "the scenario's
    network delivers every packet with non-zero probability and bounded delay and the
    applications are event-driven". Observed on sampled schedules by Sys/MonC02 on every run. *)
Definition C02_fair_loss_completes_full (sim_trace : ops -> outs -> Prop) (fair : ops -> Prop) : Prop :=
  forall i o, fair i -> sim_trace i o -> MonC02.monitor i o = None /\ MonRecovery.monitor i o = None.
