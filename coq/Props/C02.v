(* C02: theorems follow (no-wedge invariants); the monitor is tied on every run *)
From QV Require Import Lib.Tac Sys.Trace Sys.MonC02.
