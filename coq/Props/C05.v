(** C05 — A sender never exceeds the limits its peer advertised.
    Property theorems only (proofs: Proofs/FlowSendProofs.v; model: Model/FlowSend.v, tied to
    quinn-proto/src/connection/streams/{state,mod,send}.rs by the correspondence check).

    Ghost state [g] records what the peer actually DELIVERED since the last (re)start: the
    transport parameters in force, every connection limit ([g_md]), every MAX_STREAM_DATA
    (id, value) ([g_msd]) and every stream-count limit ([g_ms]); [lmax]/[kmax] take the maximum.
    [grun i (start side mrb sw p0)] runs ANY list [i] of integer-encoded operations — every
    operation of [FlowSend.apply] — through the very interpreter that is compared with the
    implementation; operations that violate the calling discipline of [Connection] ([adm]) are
    skipped. *)
From QV Require Import Lib.Tac Lib.Corr Model.FlowSend Proofs.FlowSendProofs gen.Constants.
Open Scope Z_scope.

(** On every stream the offset written (an upper bound of the highest offset sent) never exceeds
    the stream's limit, and the limit never exceeds the largest value delivered in transport
    parameters or MAX_STREAM_DATA frames. *)
Theorem C05_stream_offset_within_limit : forall sd mrb sw p0 i s g,
  0 <= sd <= 1 -> params_valid p0 = true ->
  grun i (start sd mrb sw p0) = (s, g) ->
  forall id x, lookup id s.(send) = Some (Some x) ->
    0 <= x.(s_offset) <= x.(s_max_data)
    /\ x.(s_max_data) <= delivered_stream_limit g s.(side) id.
Proof.
  intros sd mrb sw p0 i s g Hs Hv R id x L.
  exact (i_str _ _ (reachable_inv sd mrb sw p0 i s g Hs Hv R) id x L).
Qed.
Print Assumptions C05_stream_offset_within_limit.

(** [data_sent] is the sum of the offsets of all streams (live ones plus the final offsets of the
    removed ones) and never exceeds [max_data], which is exactly the largest connection limit
    delivered. *)
Theorem C05_conn_offset_within_limit : forall sd mrb sw p0 i s g,
  0 <= sd <= 1 -> params_valid p0 = true ->
  grun i (start sd mrb sw p0) = (s, g) ->
  s.(data_sent) = sum_off s.(send) + g.(g_closed)
  /\ 0 <= s.(data_sent) <= s.(max_data)
  /\ s.(max_data) = lmax g.(g_md).
Proof.
  intros sd mrb sw p0 i s g Hs Hv R.
  pose proof (reachable_inv sd mrb sw p0 i s g Hs Hv R) as I.
  exact (conj (i_sum _ _ I) (conj (i_ds _ _ I) (i_md _ _ I))).
Qed.
Print Assumptions C05_conn_offset_within_limit.

(** Streams opened never exceed the stream-count limit, which is exactly the largest count
    delivered; [open] answers [None] exactly when they are equal. *)
Theorem C05_stream_count_within_limit : forall sd mrb sw p0 i s g d,
  0 <= sd <= 1 -> params_valid p0 = true ->
  grun i (start sd mrb sw p0) = (s, g) ->
  0 <= get_next (norm_dir d) s <= get_max (norm_dir d) s
  /\ get_max (norm_dir d) s = kmax (norm_dir d) g.(g_ms)
  /\ ((exists s', do_open d s = Some (s', [1])) <-> get_next (norm_dir d) s = get_max (norm_dir d) s).
Proof.
  intros sd mrb sw p0 i s g d Hs Hv R.
  pose proof (reachable_inv sd mrb sw p0 i s g Hs Hv R) as I.
  destruct (i_cnt _ _ I (norm_dir d) (norm_dir_range d)) as (A & B).
  split; [exact A|]. split; [exact B|]. apply open_none_iff. lia.
Qed.
Print Assumptions C05_stream_count_within_limit.

(** The exact formula of [write]: it accepts [min n available] where
    [available = min (max_data - data_sent) (send_window -. unacked_data) (stream limit - offset)]
    and answers [Blocked] iff that is 0 — in every reachable state (the checked subtraction in
    [write_limit] never fails there), for every writable stream. *)
Theorem C05_write_accepts_at_most_credit : forall sd mrb sw p0 i s g id x n,
  0 <= sd <= 1 -> params_valid p0 = true ->
  grun i (start sd mrb sw p0) = (s, g) ->
  lookup id s.(send) = Some (Some x) -> x.(s_state) = 0 -> x.(s_stop) = None -> 0 <= n ->
  let available := Z.min (Z.min (s.(max_data) - s.(data_sent))
                                (Z.max 0 (s.(send_window) - s.(unacked_data))))
                         (x.(s_max_data) - x.(s_offset)) in
  exists s', do_write id n s = Some (s', if available =? 0 then [1] else [0; Z.min n available]).
Proof.
  intros sd mrb sw p0 i s g id x n Hs Hv R L St Sp Hn.
  pose proof (reachable_inv sd mrb sw p0 i s g Hs Hv R) as I.
  apply write_exact; auto.
  - apply (write_limit_some _ _ I).
  - destruct (i_str _ _ I id x L) as (A & _). lia.
Qed.
Print Assumptions C05_write_accepts_at_most_credit.

(** A write never raises [unacked_data] above the configured send window unless it already was
    above; [unacked_data] and [data_sent] grow by exactly the accepted length (any state). *)
Theorem C05_send_window_respected_partial : forall s id n s' r,
  do_write id n s = Some (s', r) -> 0 <= n -> 0 <= s.(unacked_data) ->
  s'.(unacked_data) <= Z.max s.(unacked_data) s.(send_window)
  /\ s'.(send_window) = s.(send_window)
  /\ s'.(unacked_data) - s.(unacked_data) = s'.(data_sent) - s.(data_sent)
  /\ 0 <= s'.(unacked_data) - s.(unacked_data)
  /\ (forall w, r = [0; w] -> s'.(unacked_data) = s.(unacked_data) + w).
Proof. exact write_send_window. Qed.
Print Assumptions C05_send_window_respected_partial.

(** The model's stream-count bound is the crate's [MAX_STREAM_COUNT]. *)
Theorem C05_max_stream_count_constant : MAX_STREAM_COUNT_MODEL = MAX_STREAM_COUNT.
Proof. vm_compute. reflexivity. Qed.
Print Assumptions C05_max_stream_count_constant.

(** FULL statement (NOT proved): the same invariant for the complete operation set admitted by
    [adm] — [open], [finish], [reset], MAX_STREAM_DATA, MAX_STREAMS, STOP_SENDING, transmission,
    acknowledgement / loss of sent frames, [reset_acked], [poll], 0-RTT acceptance
    ([set_params p1 >= p0]) — together with absence of every panic ([apply] never [None]), and
    [unacked_data = sum of the per-stream unacknowledged bytes].  Proved so far: the machine
    restricted to write / MAX_DATA / set_send_window / accept / observe ([adm_core]); lemmas for
    the map surgery of the other operations ([inv_set_entry], [touch_inv], [sc_inv]) are in
    Proofs/FlowSendProofs.v.  The full operation set is covered by the correspondence oracle
    (credit ledger) only. *)
Definition C05_full : Prop := forall sd mrb sw p0 i s g,
  0 <= sd <= 1 -> 0 <= mrb -> params_valid p0 = true ->
  grun i (start sd mrb sw p0) = (s, g) ->
  Inv s g /\ (forall op, adm g s op = true -> apply op s <> None).

(** Non-vacuity: a reachable state with a stream at its limit, a blocked write, then credit. *)
Example C05_example :
  let '(s, g) := grun [[2; 0]; [3; 0; 100]; [7; 0; 120]; [3; 0; 100]; [6; 300]; [9; 1200]; [10; 0]; [19]]
                      (start 0 2 150 (mkParams 200 1 1 120 50 50)) in
  s.(data_sent) = 120 /\ s.(max_data) = 300 /\ lmax g.(g_md) = 300 /\ s.(unacked_data) = 0
  /\ kmax 0 g.(g_msd) = 120 /\ s.(next_bi) = 1
  /\ exists x, lookup 0 s.(send) = Some (Some x) /\ x.(s_offset) = 120 /\ x.(s_max_data) = 120.
Proof. vm_compute. repeat split. eexists. repeat split. Qed.
