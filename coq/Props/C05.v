(** C05 — A sender never exceeds the limits its peer advertised.
    Property theorems only (proofs: Proofs/FlowSendProofs.v; model: Model/FlowSend.v, tied to
    quinn-proto/src/connection/streams/{state,mod,send}.rs by the correspondence check).

    Ghost state [g] records what the peer actually DELIVERED since the last (re)start: the
    transport parameters in force, every connection limit ([g_md]), every MAX_STREAM_DATA
    (id, value) ([g_msd]) and every stream-count limit ([g_ms]); [lmax]/[kmax] take the maximum.
    [grun i (start side mrb sw p0)] runs ANY list [i] of integer-encoded operations — every
    operation of [FlowSend.apply] — through the very interpreter that is compared with the
    implementation; operations that violate the calling discipline of [Connection] ([adm]) are
    skipped. *)
From QV Require Import Lib.Tac Lib.Corr Model.FlowSend Proofs.FlowRangeSet Proofs.FlowSendProofs
  Proofs.FlowSendFull gen.Constants.
Open Scope Z_scope.

(** On every stream the offset written (an upper bound of the highest offset sent) never exceeds
    the stream's limit, and the limit never exceeds the largest value delivered in transport
    parameters or MAX_STREAM_DATA frames. *)
Theorem C05_stream_offset_within_limit : forall sd mrb sw p0 i s g,
  0 <= sd <= 1 -> params_valid p0 = true ->
  grun i (start sd mrb sw p0) = (s, g) ->
  forall id x, lookup id s.(send) = Some (Some x) ->
    0 <= x.(s_offset) <= x.(s_max_data)
    /\ x.(s_max_data) <= delivered_stream_limit g s.(side) id.
Proof.
  intros sd mrb sw p0 i s g Hs Hv R id x L.
  exact (i_str _ _ (reachable_inv sd mrb sw p0 i s g Hs Hv R) id x L).
Qed.
Print Assumptions C05_stream_offset_within_limit.

(** [data_sent] is the sum of the offsets of all streams (live ones plus the final offsets of the
    removed ones) and never exceeds [max_data], which is exactly the largest connection limit
    delivered. *)
Theorem C05_conn_offset_within_limit : forall sd mrb sw p0 i s g,
  0 <= sd <= 1 -> params_valid p0 = true ->
  grun i (start sd mrb sw p0) = (s, g) ->
  s.(data_sent) = sum_off s.(send) + g.(g_closed)
  /\ 0 <= s.(data_sent) <= s.(max_data)
  /\ s.(max_data) = lmax g.(g_md).
Proof.
  intros sd mrb sw p0 i s g Hs Hv R.
  pose proof (reachable_inv sd mrb sw p0 i s g Hs Hv R) as I.
  exact (conj (i_sum _ _ I) (conj (i_ds _ _ I) (i_md _ _ I))).
Qed.
Print Assumptions C05_conn_offset_within_limit.

(** Streams opened never exceed the stream-count limit, which is exactly the largest count
    delivered; [open] answers [None] exactly when they are equal. *)
Theorem C05_stream_count_within_limit : forall sd mrb sw p0 i s g d,
  0 <= sd <= 1 -> params_valid p0 = true ->
  grun i (start sd mrb sw p0) = (s, g) ->
  0 <= get_next (norm_dir d) s <= get_max (norm_dir d) s
  /\ get_max (norm_dir d) s = kmax (norm_dir d) g.(g_ms)
  /\ ((exists s', do_open d s = Some (s', [1])) <-> get_next (norm_dir d) s = get_max (norm_dir d) s).
Proof.
  intros sd mrb sw p0 i s g d Hs Hv R.
  pose proof (reachable_inv sd mrb sw p0 i s g Hs Hv R) as I.
  destruct (i_cnt _ _ I (norm_dir d) (norm_dir_range d)) as (A & B).
  split; [exact A|]. split; [exact B|]. apply open_none_iff. lia.
Qed.
Print Assumptions C05_stream_count_within_limit.

(** The exact formula of [write]: it accepts [min n available] where
    [available = min (max_data - data_sent) (send_window -. unacked_data) (stream limit - offset)]
    and answers [Blocked] iff that is 0 — in every reachable state (the checked subtraction in
    [write_limit] never fails there), for every writable stream. *)
Theorem C05_write_accepts_at_most_credit : forall sd mrb sw p0 i s g id x n,
  0 <= sd <= 1 -> params_valid p0 = true ->
  grun i (start sd mrb sw p0) = (s, g) ->
  lookup id s.(send) = Some (Some x) -> x.(s_state) = 0 -> x.(s_stop) = None -> 0 <= n ->
  let available := Z.min (Z.min (s.(max_data) - s.(data_sent))
                                (Z.max 0 (s.(send_window) - s.(unacked_data))))
                         (x.(s_max_data) - x.(s_offset)) in
  exists s', do_write id n s = Some (s', if available =? 0 then [1] else [0; Z.min n available]).
Proof.
  intros sd mrb sw p0 i s g id x n Hs Hv R L St Sp Hn.
  pose proof (reachable_inv sd mrb sw p0 i s g Hs Hv R) as I.
  apply write_exact; auto.
  - apply (write_limit_some _ _ I).
  - destruct (i_str _ _ I id x L) as (A & _). lia.
Qed.
Print Assumptions C05_write_accepts_at_most_credit.

(** A write never raises [unacked_data] above the configured send window unless it already was
    above; [unacked_data] and [data_sent] grow by exactly the accepted length (any state). *)
Theorem C05_send_window_respected_partial : forall s id n s' r,
  do_write id n s = Some (s', r) -> 0 <= n -> 0 <= s.(unacked_data) ->
  s'.(unacked_data) <= Z.max s.(unacked_data) s.(send_window)
  /\ s'.(send_window) = s.(send_window)
  /\ s'.(unacked_data) - s.(unacked_data) = s'.(data_sent) - s.(data_sent)
  /\ 0 <= s'.(unacked_data) - s.(unacked_data)
  /\ (forall w, r = [0; w] -> s'.(unacked_data) = s.(unacked_data) + w).
Proof. exact write_send_window. Qed.
Print Assumptions C05_send_window_respected_partial.

(** The model's stream-count bound is the crate's [MAX_STREAM_COUNT]. *)
Theorem C05_max_stream_count_constant : MAX_STREAM_COUNT_MODEL = MAX_STREAM_COUNT.
Proof. vm_compute. reflexivity. Qed.
Print Assumptions C05_max_stream_count_constant.

(** [unacked_data] is exactly the sum, over the streams that were not reset, of the bytes written
    and not yet acknowledged ([usum]: buffered length minus acknowledged-out-of-order ranges) —
    no drift — in every reachable state of the full model (all operations, including
    transmission, acknowledgement, loss, reset, Retry and 0-RTT rejection). *)
Theorem C05_unacked_is_sum : forall sd mrb sw p0 i s g,
  0 <= sd <= 1 -> params_valid p0 = true ->
  grun i (start sd mrb sw p0) = (s, g) ->
  s.(unacked_data) = usum s.(send) /\ 0 <= s.(unacked_data).
Proof.
  intros sd mrb sw p0 i s g Hs Hv R.
  pose proof (reachable_full sd mrb sw p0 i s g Hs Hv R) as F.
  split; [exact (h_usum _ _ _ (f_hinv _ _ F))|exact (i_unacked _ _ (f_inv _ _ F))].
Qed.
Print Assumptions C05_unacked_is_sum.

(** Per stream, in every reachable state: the acknowledged ranges, the ranges queued for
    retransmission and the frames in flight are pairwise disjoint pieces of [base, unsent) whose
    lengths add up exactly ([BufOK]/[LiveOK] of Proofs/FlowSendFull.v); consequently the
    acknowledgement of ANY frame that is in flight on a stream that was not reset succeeds
    (no underflow in [SendBuffer::ack]) and removes at most that stream's unacknowledged bytes. *)
Theorem C05_ack_never_underflows : forall sd mrb sw p0 i s g k id a b fin L' x,
  0 <= sd <= 1 -> params_valid p0 = true ->
  grun i (start sd mrb sw p0) = (s, g) ->
  log_get k s.(log) = Some ((id, a, b, fin), L') ->
  lookup id s.(send) = Some (Some x) -> x.(s_state) <> 3 ->
  exists x1, sb_ack a b x = Some x1
    /\ ucontrib (Some x1) = ucontrib (Some x) - (b - a) /\ 0 <= b - a <= ucontrib (Some x).
Proof.
  intros sd mrb sw p0 i s g k id a b fin L' x Hs Hv R G Lk Hst.
  pose proof (reachable_full sd mrb sw p0 i s g Hs Hv R) as F.
  pose proof (h_buf _ _ _ (f_hinv _ _ F) id x Lk) as Hb.
  destruct (bufok_ack _ _ _ _ _ _ _ _ G Hb Hst) as (x1 & SA & _ & Hu & Hle & _).
  destruct (log_get_spec _ _ _ _ G) as (Hl & _). destruct (b_frames _ _ _ Hb _ _ _ _ Hl).
  exists x1. repeat split; auto; lia.
Qed.
Print Assumptions C05_ack_never_underflows.

(** [send_streams] never falls below the number of streams the application holds. *)
Theorem C05_send_streams_counts : forall sd mrb sw p0 i s g,
  0 <= sd <= 1 -> params_valid p0 = true ->
  grun i (start sd mrb sw p0) = (s, g) -> cnt s <= s.(send_streams).
Proof.
  intros sd mrb sw p0 i s g Hs Hv R.
  exact (c_cnt _ _ (f_sinv _ _ (reachable_full sd mrb sw p0 i s g Hs Hv R))).
Qed.
Print Assumptions C05_send_streams_counts.

(** FULL statement (NOT proved): absence of every panic — [apply op s <> None] for every
    admissible operation in every reachable state.  The invariant [Full] (credit [Inv], buffers and
    in-flight frames [HInv], [send_streams] accounting [SInv]) IS proved for every reachable state
    of the full model ([reachable_full]) and implies each individual checked operation cannot fail
    ([write_limit_some], [C05_ack_never_underflows], [reject_some], [sinv_remove] ...), but the
    single theorem assembling them over all operations is not written. *)
Definition C05_full : Prop := forall sd mrb sw p0 i s g,
  0 <= sd <= 1 -> 0 <= mrb -> params_valid p0 = true ->
  grun i (start sd mrb sw p0) = (s, g) ->
  Full s g /\ (forall op, adm g s op = true -> apply op s <> None).

(** Non-vacuity: a reachable state with a stream at its limit, a blocked write, then credit. *)
Example C05_example :
  let '(s, g) := grun [[2; 0]; [3; 0; 100]; [7; 0; 120]; [3; 0; 100]; [6; 300]; [9; 1200]; [10; 0]; [19]]
                      (start 0 2 150 (mkParams 200 1 1 120 50 50)) in
  s.(data_sent) = 120 /\ s.(max_data) = 300 /\ lmax g.(g_md) = 300 /\ s.(unacked_data) = 0
  /\ kmax 0 g.(g_msd) = 120 /\ s.(next_bi) = 1
  /\ exists x, lookup 0 s.(send) = Some (Some x) /\ x.(s_offset) = 120 /\ x.(s_max_data) = 120.
Proof. vm_compute. repeat split. eexists. repeat split. Qed.
